// cnbfacts: rustc_private driver that exports type-checked program facts (MIR bodies,
// ADTs, impls, consts, macro bodies) of every workspace crate as one JSON document per
// rustc process. Used as RUSTC_WORKSPACE_WRAPPER under `cargo +nightly check`.
//
// Output directory: $CNBFACTS_OUT (required). File: <crate_name>-<crate_type>[-<hash>].json
#![feature(rustc_private)]
#![allow(clippy::all)]

extern crate rustc_abi;
extern crate rustc_ast;
extern crate rustc_ast_pretty;
extern crate rustc_driver;
extern crate rustc_hir;
extern crate rustc_interface;
extern crate rustc_middle;
extern crate rustc_session;
extern crate rustc_span;

mod json;

use json::J;
use rustc_driver::{Callbacks, Compilation};
use rustc_hir::def::DefKind;
use rustc_hir::def_id::{DefId, LocalDefId};
use rustc_interface::interface::Compiler;
use rustc_middle::mir::{
    self, AggregateKind, BasicBlock, Body, Const, ConstValue, Operand, Place, ProjectionElem,
    Rvalue, StatementKind, TerminatorKind, UnwindAction,
};
use rustc_middle::ty::print::{with_crate_prefix, with_no_trimmed_paths};
use rustc_middle::ty::{self, Instance, Ty, TyCtxt, TypingEnv};
use rustc_span::Span;

struct Cb;

impl Callbacks for Cb {
    fn after_analysis<'tcx>(&mut self, _c: &Compiler, tcx: TyCtxt<'tcx>) -> Compilation {
        export(tcx);
        Compilation::Continue
    }
}

fn main() {
    let mut args: Vec<String> = std::env::args().collect();
    // RUSTC_WORKSPACE_WRAPPER: argv[1] is the path of the real rustc.
    if args.len() > 1 && (args[1].ends_with("rustc") || args[1].contains("/rustc")) {
        args.remove(1);
    }
    // Only analyse real compilations (not `rustc -vV`, `--print` probes).
    let is_probe = args.iter().any(|a| a == "-vV" || a.starts_with("--print") || a == "-V");
    let has_crate_name = args.iter().any(|a| a == "--crate-name");
    let is_build_script = {
        let mut it = args.iter();
        let mut r = false;
        while let Some(a) = it.next() {
            if a == "--crate-name" {
                if let Some(n) = it.next() {
                    r = n == "build_script_build";
                }
            }
        }
        r
    };
    if is_probe || !has_crate_name || is_build_script || std::env::var_os("CNBFACTS_OUT").is_none()
    {
        rustc_driver::run_compiler(&args, &mut NoCb);
        return;
    }
    args.push("-Zmir-opt-level=0".to_string());
    args.push("-Awarnings".to_string());
    args.push("--cap-lints=allow".to_string());
    rustc_driver::run_compiler(&args, &mut Cb);
}

struct NoCb;
impl Callbacks for NoCb {}

// ---------------------------------------------------------------------------------------------

struct Cx<'tcx> {
    tcx: TyCtxt<'tcx>,
    krate: String,
}

fn fix_crate(s: String, krate: &str) -> String {
    // `with_crate_prefix!` prints local paths as `crate::…`; make them globally unique.
    if !s.contains("crate") {
        return s;
    }
    let b = s.as_bytes();
    let mut out = String::with_capacity(s.len() + 16);
    let mut i = 0;
    while i < b.len() {
        if s[i..].starts_with("crate::")
            && (i == 0 || !(b[i - 1].is_ascii_alphanumeric() || b[i - 1] == b'_'))
        {
            out.push_str(krate);
            out.push_str("::");
            i += 7;
        } else if s[i..].starts_with("crate")
            && (i == 0 || !(b[i - 1].is_ascii_alphanumeric() || b[i - 1] == b'_'))
            && i + 5 == b.len()
        {
            out.push_str(krate);
            i += 5;
        } else {
            let ch = s[i..].chars().next().unwrap();
            out.push(ch);
            i += ch.len_utf8();
        }
    }
    out
}

impl<'tcx> Cx<'tcx> {
    fn path(&self, did: DefId) -> String {
        let s = with_no_trimmed_paths!(with_crate_prefix!(self.tcx.def_path_str(did)));
        fix_crate(s, &self.krate)
    }
    fn path_args(&self, did: DefId, args: ty::GenericArgsRef<'tcx>) -> String {
        let s =
            with_no_trimmed_paths!(with_crate_prefix!(self.tcx.def_path_str_with_args(did, args)));
        fix_crate(s, &self.krate)
    }
    fn ty(&self, t: Ty<'tcx>) -> String {
        let s = with_no_trimmed_paths!(with_crate_prefix!(t.to_string()));
        fix_crate(s, &self.krate)
    }
    fn head(&self, t: Ty<'tcx>) -> J {
        // head ADT path after peeling references
        let mut t = t;
        loop {
            match t.kind() {
                ty::Ref(_, inner, _) => t = *inner,
                ty::RawPtr(inner, _) => t = *inner,
                _ => break,
            }
        }
        match t.kind() {
            ty::Adt(def, _) => J::s(self.path(def.did())),
            ty::Closure(did, _) => J::s(self.path(*did)),
            ty::FnDef(did, _) => J::s(self.path(*did)),
            ty::Param(p) => J::s(format!("?{}", p.name)),
            ty::Dynamic(..) => J::s("dyn"),
            _ => J::Null,
        }
    }
    fn span(&self, sp: Span) -> (String, u32) {
        let sm = self.tcx.sess.source_map();
        // use the outermost call site of a macro expansion so the line is in user source
        let sp0 = sp.source_callsite();
        let lo = sm.lookup_char_pos(sp0.lo());
        let name = match &lo.file.name {
            rustc_span::FileName::Real(r) => match r.local_path() {
                Some(p) => p.to_string_lossy().to_string(),
                None => format!("{:?}", lo.file.name),
            },
            other => format!("{:?}", other),
        };
        (name, lo.line as u32)
    }
    fn macros(&self, sp: Span) -> J {
        let mut v = vec![];
        for e in sp.macro_backtrace() {
            if let rustc_span::ExpnKind::Macro(_, name) = e.kind {
                v.push(J::s(name.to_string()));
            } else {
                v.push(J::s(format!("{:?}", e.kind)));
            }
        }
        J::Arr(v)
    }
}

fn export<'tcx>(tcx: TyCtxt<'tcx>) {
    let out_dir = match std::env::var_os("CNBFACTS_OUT") {
        Some(d) => std::path::PathBuf::from(d),
        None => return,
    };
    let krate = tcx.crate_name(rustc_span::def_id::LOCAL_CRATE).to_string();
    let cx = Cx { tcx, krate: krate.clone() };
    let crate_types: Vec<String> =
        tcx.crate_types().iter().map(|c| format!("{:?}", c).to_lowercase()).collect();

    let mut fns = vec![];
    let mut adts = vec![];
    let mut impls = vec![];
    let mut consts = vec![];
    let mut macros = vec![];
    let mut traits = vec![];

    for ldid in tcx.hir_body_owners() {
        let did = ldid.to_def_id();
        let kind = tcx.def_kind(did);
        let body: Option<&Body<'tcx>> = match kind {
            DefKind::Fn | DefKind::AssocFn | DefKind::Closure => Some(tcx.optimized_mir(did)),
            DefKind::Const { .. } | DefKind::Static { .. } | DefKind::AssocConst { .. } => {
                Some(tcx.mir_for_ctfe(did))
            }
            _ => None,
        };
        if let Some(body) = body {
            fns.push(export_fn(&cx, ldid, kind, body, None));
            for (pi, pbody) in tcx.promoted_mir(did).iter_enumerated() {
                fns.push(export_fn(&cx, ldid, kind, pbody, Some(pi.as_usize())));
            }
        }
    }

    let items = tcx.hir_crate_items(());
    for ldid in items.definitions() {
        let did = ldid.to_def_id();
        match tcx.def_kind(did) {
            DefKind::Struct | DefKind::Enum | DefKind::Union => adts.push(export_adt(&cx, did)),
            DefKind::Impl { .. } => impls.push(export_impl(&cx, did)),
            DefKind::Const { .. } | DefKind::Static { .. } | DefKind::AssocConst { .. } => {
                consts.push(export_const(&cx, did))
            }
            DefKind::Trait => {
                let mut fnames = vec![];
                for it in tcx.associated_items(did).in_definition_order() {
                    fnames.push(J::obj(vec![
                        ("name", J::s(it.name().to_string())),
                        ("has_default", J::Bool(it.defaultness(tcx).has_value())),
                        ("path", J::s(cx.path(it.def_id))),
                    ]));
                }
                traits.push(J::obj(vec![("path", J::s(cx.path(did))), ("items", J::Arr(fnames))]));
            }
            DefKind::Macro(_) => {}
            _ => {}
        }
    }
    for id in tcx.hir_free_items() {
        let item = tcx.hir_item(id);
        if let rustc_hir::ItemKind::Macro(ident, mdef, _) = &item.kind {
            let body = rustc_ast_pretty::pprust::tts_to_string(&mdef.body.tokens);
            let did = item.owner_id.to_def_id();
            let exported = tcx
                .hir_attrs(item.hir_id())
                .iter()
                .any(|a| a.has_name(rustc_span::sym::macro_export))
                || tcx.visibility(did).is_public();
            let (file, line) = cx.span(item.span);
            macros.push(J::obj(vec![
                ("name", J::s(ident.name.to_string())),
                ("path", J::s(cx.path(did))),
                ("exported", J::Bool(exported)),
                ("from_expansion", J::Bool(item.span.from_expansion())),
                ("file", J::s(file)),
                ("line", J::Int(line as i128)),
                ("body", J::s(body)),
            ]));
        }
    }

    let mut features = vec![];
    for (name, val) in tcx.sess.config.iter() {
        if name.as_str() == "feature" {
            if let Some(v) = val {
                features.push(J::s(v.to_string()));
            }
        }
    }
    let is_test = tcx.sess.opts.test;
    let doc = J::obj(vec![
        ("crate", J::s(krate.clone())),
        ("crate_types", J::Arr(crate_types.iter().map(|s| J::s(s.clone())).collect())),
        ("features", J::Arr(features)),
        ("test_harness", J::Bool(is_test)),
        ("panic", J::s(format!("{:?}", tcx.sess.panic_strategy()))),
        ("target", J::s(tcx.sess.opts.target_triple.to_string())),
        ("fns", J::Arr(fns)),
        ("adts", J::Arr(adts)),
        ("impls", J::Arr(impls)),
        ("consts", J::Arr(consts)),
        ("macros", J::Arr(macros)),
        ("traits", J::Arr(traits)),
    ]);
    let mut s = String::new();
    doc.write(&mut s);
    let ct = crate_types.first().cloned().unwrap_or_default();
    let stable = tcx.stable_crate_id(rustc_span::def_id::LOCAL_CRATE);
    let fname = format!(
        "{}-{}{}-{:x}.json",
        krate,
        ct,
        if is_test { "-test" } else { "" },
        stable.as_u64()
    );
    let _ = std::fs::create_dir_all(&out_dir);
    let tmp = out_dir.join(format!(".{}.tmp", fname));
    std::fs::write(&tmp, s).expect("cnbfacts: cannot write facts");
    std::fs::rename(&tmp, out_dir.join(fname)).expect("cnbfacts: cannot rename facts");
}

fn vis_str<'tcx>(tcx: TyCtxt<'tcx>, did: DefId) -> String {
    match tcx.def_kind(did) {
        DefKind::Fn
        | DefKind::AssocFn
        | DefKind::Struct
        | DefKind::Enum
        | DefKind::Union
        | DefKind::Const { .. }
        | DefKind::Static { .. }
        | DefKind::AssocConst { .. }
        | DefKind::Field
        | DefKind::Trait
        | DefKind::Ctor(..) => match tcx.visibility(did) {
            ty::Visibility::Public => "pub".to_string(),
            ty::Visibility::Restricted(m) => {
                if m.is_crate_root() {
                    "crate".to_string()
                } else {
                    "restricted".to_string()
                }
            }
        },
        _ => "n/a".to_string(),
    }
}

fn export_adt<'tcx>(cx: &Cx<'tcx>, did: DefId) -> J {
    let tcx = cx.tcx;
    let def = tcx.adt_def(did);
    let mut variants = vec![];
    let is_enum = def.is_enum();
    for (vidx, v) in def.variants().iter_enumerated() {
        let discr = if is_enum {
            J::Int(def.discriminant_for_variant(tcx, vidx).val as i128)
        } else {
            J::Null
        };
        let mut fields = vec![];
        for f in v.fields.iter() {
            let fty = tcx.type_of(f.did).instantiate_identity().skip_norm_wip();
            fields.push(J::obj(vec![
                ("name", J::s(f.name.to_string())),
                ("ty", J::s(cx.ty(fty))),
                ("head", cx.head(fty)),
                ("vis", J::s(vis_str(tcx, f.did))),
            ]));
        }
        variants.push(J::obj(vec![
            ("name", J::s(v.name.to_string())),
            ("discr", discr),
            ("ctor", J::s(format!("{:?}", v.ctor_kind()))),
            ("fields", J::Arr(fields)),
        ]));
    }
    let (file, line) = cx.span(tcx.def_span(did));
    let parent = tcx.opt_parent(did).map(|p| tcx.def_kind(p));
    let in_body = matches!(
        parent,
        Some(DefKind::Fn | DefKind::AssocFn | DefKind::Const { .. } | DefKind::AnonConst)
    );
    J::obj(vec![
        ("path", J::s(cx.path(did))),
        (
            "kind",
            J::s(if def.is_enum() {
                "enum"
            } else if def.is_union() {
                "union"
            } else {
                "struct"
            }),
        ),
        ("vis", J::s(vis_str(tcx, did))),
        ("file", J::s(file)),
        ("line", J::Int(line as i128)),
        ("in_body", J::Bool(in_body)),
        ("non_exhaustive", J::Bool(def.is_variant_list_non_exhaustive())),
        ("variants", J::Arr(variants)),
    ])
}

fn export_impl<'tcx>(cx: &Cx<'tcx>, did: DefId) -> J {
    let tcx = cx.tcx;
    let self_ty = tcx.type_of(did).instantiate_identity().skip_norm_wip();
    let trait_ref = tcx.impl_opt_trait_ref(did).map(|t| t.instantiate_identity().skip_norm_wip());
    let mut items = vec![];
    for it in tcx.associated_items(did).in_definition_order() {
        items.push(J::obj(vec![
            ("name", J::s(it.name().to_string())),
            ("path", J::s(cx.path(it.def_id))),
        ]));
    }
    let (file, line) = cx.span(tcx.def_span(did));
    J::obj(vec![
        ("path", J::s(cx.path(did))),
        ("self_ty", J::s(cx.ty(self_ty))),
        ("self_head", cx.head(self_ty)),
        (
            "trait",
            match trait_ref {
                Some(t) => J::s(cx.path(t.def_id)),
                None => J::Null,
            },
        ),
        (
            "trait_full",
            match trait_ref {
                Some(t) => J::s(cx.path_args(t.def_id, t.args)),
                None => J::Null,
            },
        ),
        ("derived", J::Bool(tcx.is_automatically_derived(did))),
        ("file", J::s(file)),
        ("line", J::Int(line as i128)),
        ("items", J::Arr(items)),
    ])
}

fn export_const<'tcx>(cx: &Cx<'tcx>, did: DefId) -> J {
    let tcx = cx.tcx;
    let t = tcx.type_of(did).instantiate_identity().skip_norm_wip();
    let mut val = J::Null;
    let generic = tcx.generics_of(did).requires_monomorphization(tcx);
    if !generic && !matches!(tcx.def_kind(did), DefKind::Static { .. }) {
        if let Ok(cv) = tcx.const_eval_poly(did) {
            val = const_value(cx, cv, t);
        }
    }
    let (file, line) = cx.span(tcx.def_span(did));
    J::obj(vec![
        ("path", J::s(cx.path(did))),
        ("ty", J::s(cx.ty(t))),
        ("vis", J::s(vis_str(tcx, did))),
        ("file", J::s(file)),
        ("line", J::Int(line as i128)),
        ("value", val),
    ])
}

fn const_value<'tcx>(cx: &Cx<'tcx>, cv: ConstValue, t: Ty<'tcx>) -> J {
    let tcx = cx.tcx;
    match cv {
        ConstValue::Scalar(mir::interpret::Scalar::Int(si)) => {
            let size = si.size();
            if size.bytes() == 0 {
                return J::Null;
            }
            let bits = si.to_bits(size);
            let peeled = t;
            match peeled.kind() {
                ty::Bool => J::obj(vec![("bool", J::Bool(bits != 0))]),
                ty::Char => J::obj(vec![(
                    "char",
                    J::s(char::from_u32(bits as u32).map(|c| c.to_string()).unwrap_or_default()),
                )]),
                ty::Int(_) => {
                    let v = size.sign_extend(bits) as i128;
                    J::obj(vec![("int", J::Int(v))])
                }
                _ => J::obj(vec![("int", J::Int(bits as i128))]),
            }
        }
        ConstValue::Scalar(mir::interpret::Scalar::Ptr(ptr, _)) => {
            // e.g. b"..." : &[u8; N], or &'static T
            let (prov, offset) = ptr.into_raw_parts();
            let alloc_id = prov.alloc_id();
            if let Some(rustc_middle::mir::interpret::GlobalAlloc::Memory(alloc)) =
                tcx.try_get_global_alloc(alloc_id)
            {
                let inner = alloc.inner();
                if inner.provenance().ptrs().is_empty() {
                    let len = inner.len();
                    let off = offset.bytes() as usize;
                    let bytes =
                        inner.inspect_with_uninit_and_ptr_outside_interpreter(off..len).to_vec();
                    return J::obj(vec![("bytes", J::bytes(&bytes))]);
                }
            }
            J::Null
        }
        ConstValue::Slice { .. } => {
            if let Some(bytes) = cv.try_get_slice_bytes_for_diagnostics(tcx) {
                let is_str = matches!(t.kind(), ty::Ref(_, inner, _) if inner.is_str());
                if is_str {
                    if let Ok(s) = std::str::from_utf8(bytes) {
                        return J::obj(vec![("str", J::s(s))]);
                    }
                }
                return J::obj(vec![("bytes", J::bytes(bytes))]);
            }
            J::Null
        }
        _ => J::Null,
    }
}

fn export_fn<'tcx>(
    cx: &Cx<'tcx>,
    ldid: LocalDefId,
    kind: DefKind,
    body: &Body<'tcx>,
    promoted: Option<usize>,
) -> J {
    let tcx = cx.tcx;
    let did = ldid.to_def_id();
    let (file, line) = cx.span(tcx.def_span(did));
    let parent = tcx.opt_parent(did);
    // enclosing impl (for methods) and derived flag
    let mut derived = false;
    let mut impl_of = J::Null;
    let mut trait_of_impl = J::Null;
    let mut self_head = J::Null;
    {
        let mut cur = Some(did);
        while let Some(c) = cur {
            if let DefKind::Impl { .. } = tcx.def_kind(c) {
                derived = tcx.is_automatically_derived(c);
                impl_of = J::s(cx.path(c));
                if let Some(tr) = tcx.impl_opt_trait_ref(c) {
                    trait_of_impl = J::s(cx.path(tr.instantiate_identity().skip_norm_wip().def_id));
                }
                self_head = cx.head(tcx.type_of(c).instantiate_identity().skip_norm_wip());
                break;
            }
            cur = tcx.opt_parent(c);
        }
    }
    let typing_env = TypingEnv::post_analysis(tcx, did);
    let mut locals = vec![];
    let mut names: Vec<Option<String>> = vec![None; body.local_decls.len()];
    for vdi in &body.var_debug_info {
        if let mir::VarDebugInfoContents::Place(p) = &vdi.value {
            if p.projection.is_empty() {
                names[p.local.as_usize()] = Some(vdi.name.to_string());
            }
        }
    }
    // closure upvar names
    let mut upvars: Vec<J> = vec![];
    for vdi in &body.var_debug_info {
        if let mir::VarDebugInfoContents::Place(p) = &vdi.value {
            if p.local.as_usize() == 1 && !p.projection.is_empty() && kind == DefKind::Closure {
                upvars.push(J::obj(vec![
                    ("name", J::s(vdi.name.to_string())),
                    ("place", place_json(cx, body, *p)),
                ]));
            }
        }
    }
    for (i, d) in body.local_decls.iter().enumerate() {
        locals.push(J::obj(vec![
            ("ty", J::s(cx.ty(d.ty))),
            ("head", cx.head(d.ty)),
            (
                "name",
                match &names[i] {
                    Some(n) => J::s(n.clone()),
                    None => J::Null,
                },
            ),
        ]));
    }
    let mut blocks = vec![];
    for (_bb, data) in body.basic_blocks.iter_enumerated() {
        let mut stmts = vec![];
        for st in &data.statements {
            let ln = cx.span(st.source_info.span).1 as i128;
            match &st.kind {
                StatementKind::Assign(b) => {
                    let (place, rv) = &**b;
                    stmts.push(J::Arr(vec![
                        J::s("="),
                        place_json(cx, body, *place),
                        rvalue_json(cx, body, typing_env, rv),
                        J::Int(ln),
                    ]));
                }
                StatementKind::SetDiscriminant { place, variant_index } => {
                    let pty = place.ty(&body.local_decls, tcx).ty;
                    let vname = match pty.kind() {
                        ty::Adt(def, _) => def.variant(*variant_index).name.to_string(),
                        _ => format!("{}", variant_index.as_usize()),
                    };
                    stmts.push(J::Arr(vec![
                        J::s("setdiscr"),
                        place_json(cx, body, **place),
                        J::s(vname),
                        J::Int(ln),
                    ]));
                }
                _ => {}
            }
        }
        let term = data.terminator();
        let tj = term_json(cx, body, typing_env, term);
        blocks.push(J::obj(vec![
            ("s", J::Arr(stmts)),
            ("t", tj),
            ("cleanup", J::Bool(data.is_cleanup)),
        ]));
    }
    let sig_args: Vec<J> = body.args_iter().map(|l| J::s(cx.ty(body.local_decls[l].ty))).collect();
    let (fpath, fkind) = match promoted {
        Some(i) => (format!("{}::promoted[{}]", cx.path(did), i), "Promoted".to_string()),
        None => (cx.path(did), format!("{:?}", kind)),
    };
    J::obj(vec![
        ("path", J::s(fpath)),
        ("kind", J::s(fkind)),
        ("file", J::s(file)),
        ("line", J::Int(line as i128)),
        ("vis", J::s(vis_str(tcx, did))),
        (
            "parent",
            match parent {
                Some(p) => J::s(cx.path(p)),
                None => J::Null,
            },
        ),
        ("from_expansion", J::Bool(tcx.def_span(did).from_expansion())),
        ("derived", J::Bool(derived)),
        ("impl", impl_of),
        ("impl_trait", trait_of_impl),
        ("self_head", self_head),
        ("argc", J::Int(body.arg_count as i128)),
        ("args", J::Arr(sig_args)),
        ("ret", J::s(cx.ty(body.local_decls[mir::RETURN_PLACE].ty))),
        ("upvars", J::Arr(upvars)),
        ("locals", J::Arr(locals)),
        ("blocks", J::Arr(blocks)),
    ])
}

fn place_json<'tcx>(cx: &Cx<'tcx>, body: &Body<'tcx>, p: Place<'tcx>) -> J {
    let tcx = cx.tcx;
    let mut v = vec![J::Int(p.local.as_usize() as i128)];
    let mut pty = mir::PlaceTy::from_ty(body.local_decls[p.local].ty);
    for elem in p.projection.iter() {
        match elem {
            ProjectionElem::Deref => v.push(J::s("*")),
            ProjectionElem::Field(f, _) => {
                let name = match pty.ty.kind() {
                    ty::Adt(def, _) => {
                        let vi = pty.variant_index.unwrap_or(rustc_abi::FIRST_VARIANT);
                        if def.is_enum() && pty.variant_index.is_none() {
                            format!("{}", f.as_usize())
                        } else {
                            def.variant(vi).fields[f].name.to_string()
                        }
                    }
                    _ => format!("{}", f.as_usize()),
                };
                v.push(J::s(format!(".{}", name)));
            }
            ProjectionElem::Downcast(name, vidx) => {
                let n = match name {
                    Some(n) => n.to_string(),
                    None => match pty.ty.kind() {
                        ty::Adt(def, _) => def.variant(vidx).name.to_string(),
                        _ => format!("{}", vidx.as_usize()),
                    },
                };
                v.push(J::s(format!("@{}", n)));
            }
            ProjectionElem::Index(l) => v.push(J::s(format!("[_{}]", l.as_usize()))),
            ProjectionElem::ConstantIndex { offset, from_end, .. } => {
                v.push(J::s(format!("[{}{}]", if from_end { "-" } else { "" }, offset)))
            }
            ProjectionElem::Subslice { from, to, from_end } => {
                v.push(J::s(format!("[{}..{}{}]", from, if from_end { "-" } else { "" }, to)))
            }
            _ => v.push(J::s("?")),
        }
        pty = pty.projection_ty(tcx, elem);
    }
    J::Arr(v)
}

fn operand_json<'tcx>(
    cx: &Cx<'tcx>,
    body: &Body<'tcx>,
    tenv: TypingEnv<'tcx>,
    op: &Operand<'tcx>,
) -> J {
    match op {
        Operand::Copy(p) => J::obj(vec![("c", place_json(cx, body, *p))]),
        Operand::Move(p) => J::obj(vec![("m", place_json(cx, body, *p))]),
        Operand::Constant(c) => J::obj(vec![("k", const_json(cx, tenv, &c.const_, c.span))]),
        #[allow(unreachable_patterns)]
        _ => J::obj(vec![("k", J::obj(vec![("pp", J::s(format!("{:?}", op)))]))]),
    }
}

fn const_json<'tcx>(cx: &Cx<'tcx>, tenv: TypingEnv<'tcx>, c: &Const<'tcx>, span: Span) -> J {
    let tcx = cx.tcx;
    let t = c.ty();
    let mut fields: Vec<(&str, J)> = vec![("ty", J::s(cx.ty(t)))];
    match t.kind() {
        ty::FnDef(did, args) => {
            fields.push(("fn", J::s(cx.path(*did))));
            fields.push(("fn_full", J::s(cx.path_args(*did, args))));
            fields.push((
                "ga",
                J::Arr(
                    args.iter()
                        .filter(|a| a.as_region().is_none())
                        .map(|a| {
                            J::s(fix_crate(
                                with_no_trimmed_paths!(with_crate_prefix!(a.to_string())),
                                &cx.krate,
                            ))
                        })
                        .collect(),
                ),
            ));
            fields.push(("defkind", J::s(format!("{:?}", tcx.def_kind(*did)))));
            if let Ok(Some(inst)) = Instance::try_resolve(tcx, tenv, *did, args) {
                let rd = inst.def_id();
                fields.push(("res", J::s(cx.path(rd))));
                fields.push(("res_full", J::s(cx.path_args(rd, inst.args))));
                fields.push(("res_kind", J::s(instance_kind(&inst))));
            }
            return J::obj(fields);
        }
        _ => {}
    }
    if let Const::Unevaluated(u, _) = c {
        fields.push(("item", J::s(cx.path(u.def))));
        if let Some(p) = u.promoted {
            fields.push(("promoted", J::Int(p.as_usize() as i128)));
        }
    }
    if !matches!(c, Const::Unevaluated(u, _) if u.promoted.is_some()) {
        if let Ok(cv) = c.eval(tcx, tenv, span) {
            let v = const_value(cx, cv, t);
            if !matches!(v, J::Null) {
                fields.push(("v", v));
            }
        }
    }
    let pp = with_no_trimmed_paths!(with_crate_prefix!(format!("{}", c)));
    fields.push(("pp", J::s(fix_crate(pp, &cx.krate))));
    J::obj(fields)
}

fn instance_kind(inst: &Instance<'_>) -> &'static str {
    use ty::InstanceKind::*;
    match inst.def {
        Item(_) => "item",
        Virtual(..) => "virtual",
        ClosureOnceShim { .. } => "closure_once_shim",
        FnPtrShim(..) => "fn_ptr_shim",
        DropGlue(..) => "drop_glue",
        CloneShim(..) => "clone_shim",
        Intrinsic(_) => "intrinsic",
        _ => "other",
    }
}

fn rvalue_json<'tcx>(
    cx: &Cx<'tcx>,
    body: &Body<'tcx>,
    tenv: TypingEnv<'tcx>,
    rv: &Rvalue<'tcx>,
) -> J {
    let tcx = cx.tcx;
    match rv {
        Rvalue::Use(op, ..) => J::obj(vec![("r", J::s("use")), ("o", operand_json(cx, body, tenv, op))]),
        Rvalue::Ref(_, bk, p) => J::obj(vec![
            ("r", J::s("ref")),
            ("p", place_json(cx, body, *p)),
            ("mut", J::Bool(matches!(bk, mir::BorrowKind::Mut { .. }))),
        ]),
        Rvalue::RawPtr(_, p) => J::obj(vec![("r", J::s("rawptr")), ("p", place_json(cx, body, *p))]),
        Rvalue::CopyForDeref(p) => J::obj(vec![("r", J::s("cfd")), ("p", place_json(cx, body, *p))]),
        Rvalue::Discriminant(p) => {
            let pty = p.ty(&body.local_decls, tcx).ty;
            let mut fields =
                vec![("r", J::s("discr")), ("p", place_json(cx, body, *p)), ("ty", J::s(cx.ty(pty)))];
            if let ty::Adt(def, _) = pty.kind() {
                if def.is_enum() {
                    let mut vs = vec![];
                    for (vidx, v) in def.variants().iter_enumerated() {
                        let d = def.discriminant_for_variant(tcx, vidx).val;
                        vs.push(J::Arr(vec![J::Int(d as i128), J::s(v.name.to_string())]));
                    }
                    fields.push(("enum", J::s(cx.path(def.did()))));
                    fields.push(("variants", J::Arr(vs)));
                }
            }
            J::obj(fields)
        }
        Rvalue::Cast(kind, op, t) => J::obj(vec![
            ("r", J::s("cast")),
            ("kind", J::s(format!("{:?}", kind))),
            ("o", operand_json(cx, body, tenv, op)),
            ("ty", J::s(cx.ty(*t))),
        ]),
        Rvalue::BinaryOp(bop, b) => {
            let (a, c) = &**b;
            J::obj(vec![
                ("r", J::s("bin")),
                ("op", J::s(format!("{:?}", bop))),
                ("a", operand_json(cx, body, tenv, a)),
                ("b", operand_json(cx, body, tenv, c)),
            ])
        }
        Rvalue::UnaryOp(uop, a) => J::obj(vec![
            ("r", J::s("un")),
            ("op", J::s(format!("{:?}", uop))),
            ("o", operand_json(cx, body, tenv, a)),
        ]),
        Rvalue::Repeat(op, n) => J::obj(vec![
            ("r", J::s("repeat")),
            ("o", operand_json(cx, body, tenv, op)),
            ("n", J::s(format!("{}", n))),
        ]),
        Rvalue::Aggregate(kind, ops) => {
            let ops_j: Vec<J> = ops.iter().map(|o| operand_json(cx, body, tenv, o)).collect();
            let mut fields = vec![("r", J::s("agg"))];
            match &**kind {
                AggregateKind::Adt(did, vidx, _args, _, active) => {
                    let def = tcx.adt_def(*did);
                    let v = def.variant(*vidx);
                    fields.push(("kind", J::s("adt")));
                    fields.push(("adt", J::s(cx.path(*did))));
                    fields.push(("variant", J::s(v.name.to_string())));
                    let fnames: Vec<J> = if let Some(a) = active {
                        vec![J::s(v.fields[*a].name.to_string())]
                    } else {
                        v.fields.iter().map(|f| J::s(f.name.to_string())).collect()
                    };
                    fields.push(("fields", J::Arr(fnames)));
                }
                AggregateKind::Tuple => fields.push(("kind", J::s("tuple"))),
                AggregateKind::Array(_) => fields.push(("kind", J::s("array"))),
                AggregateKind::Closure(did, _) => {
                    fields.push(("kind", J::s("closure")));
                    fields.push(("def", J::s(cx.path(*did))));
                }
                AggregateKind::Coroutine(did, _) | AggregateKind::CoroutineClosure(did, _) => {
                    fields.push(("kind", J::s("coroutine")));
                    fields.push(("def", J::s(cx.path(*did))));
                }
                AggregateKind::RawPtr(..) => fields.push(("kind", J::s("rawptr"))),
            }
            fields.push(("ops", J::Arr(ops_j)));
            J::obj(fields)
        }
        other => J::obj(vec![("r", J::s("other")), ("pp", J::s(format!("{:?}", other)))]),
    }
}

fn bbj(b: BasicBlock) -> J {
    J::Int(b.as_usize() as i128)
}
fn unwj(u: &UnwindAction) -> J {
    match u {
        UnwindAction::Cleanup(b) => bbj(*b),
        UnwindAction::Continue => J::s("continue"),
        UnwindAction::Unreachable => J::s("unreachable"),
        UnwindAction::Terminate(_) => J::s("terminate"),
    }
}

fn term_json<'tcx>(
    cx: &Cx<'tcx>,
    body: &Body<'tcx>,
    tenv: TypingEnv<'tcx>,
    term: &mir::Terminator<'tcx>,
) -> J {
    let tcx = cx.tcx;
    let sp = term.source_info.span;
    let (file, line) = cx.span(sp);
    let _ = file;
    let mut f: Vec<(&str, J)> = vec![];
    match &term.kind {
        TerminatorKind::Goto { target } => {
            f.push(("t", J::s("goto")));
            f.push(("to", bbj(*target)));
        }
        TerminatorKind::SwitchInt { discr, targets } => {
            f.push(("t", J::s("switch")));
            f.push(("o", operand_json(cx, body, tenv, discr)));
            let mut ts = vec![];
            for (v, b) in targets.iter() {
                ts.push(J::Arr(vec![J::Int(v as i128), bbj(b)]));
            }
            f.push(("targets", J::Arr(ts)));
            f.push(("else", bbj(targets.otherwise())));
            let dty = discr.ty(&body.local_decls, tcx);
            f.push(("oty", J::s(cx.ty(dty))));
        }
        TerminatorKind::Return => f.push(("t", J::s("ret"))),
        TerminatorKind::Unreachable => f.push(("t", J::s("unreachable"))),
        TerminatorKind::UnwindResume => f.push(("t", J::s("resume"))),
        TerminatorKind::UnwindTerminate(_) => f.push(("t", J::s("terminate"))),
        TerminatorKind::Drop { place, target, unwind, .. } => {
            f.push(("t", J::s("drop")));
            f.push(("p", place_json(cx, body, *place)));
            let pty = place.ty(&body.local_decls, tcx).ty;
            f.push(("pty", J::s(cx.ty(pty))));
            f.push(("phead", cx.head(pty)));
            f.push(("to", bbj(*target)));
            f.push(("unw", unwj(unwind)));
        }
        TerminatorKind::Call { func, args, destination, target, unwind, fn_span, .. } => {
            f.push(("t", J::s("call")));
            f.push(("f", operand_json(cx, body, tenv, func)));
            f.push((
                "args",
                J::Arr(args.iter().map(|a| operand_json(cx, body, tenv, &a.node)).collect()),
            ));
            f.push(("dest", place_json(cx, body, *destination)));
            let dty = destination.ty(&body.local_decls, tcx).ty;
            f.push(("dty", J::s(cx.ty(dty))));
            f.push((
                "to",
                match target {
                    Some(t) => bbj(*t),
                    None => J::Null,
                },
            ));
            f.push(("unw", unwj(unwind)));
            f.push(("exp", J::Bool(fn_span.from_expansion())));
            if fn_span.from_expansion() {
                f.push(("macros", cx.macros(*fn_span)));
            }
            // dyn / fn-pointer / closure-typed callee info
            let fty = func.ty(&body.local_decls, tcx);
            if !matches!(fty.kind(), ty::FnDef(..)) {
                f.push(("fty", J::s(cx.ty(fty))));
            }
        }
        TerminatorKind::TailCall { func, args, .. } => {
            f.push(("t", J::s("tailcall")));
            f.push(("f", operand_json(cx, body, tenv, func)));
            f.push((
                "args",
                J::Arr(args.iter().map(|a| operand_json(cx, body, tenv, &a.node)).collect()),
            ));
        }
        TerminatorKind::Assert { cond, expected, target, unwind, msg } => {
            f.push(("t", J::s("assert")));
            f.push(("o", operand_json(cx, body, tenv, cond)));
            f.push(("expected", J::Bool(*expected)));
            f.push(("to", bbj(*target)));
            f.push(("unw", unwj(unwind)));
            f.push(("msg", J::s(format!("{:?}", msg).chars().take(80).collect::<String>())));
        }
        TerminatorKind::FalseEdge { real_target, .. } => {
            f.push(("t", J::s("goto")));
            f.push(("to", bbj(*real_target)));
        }
        TerminatorKind::FalseUnwind { real_target, .. } => {
            f.push(("t", J::s("goto")));
            f.push(("to", bbj(*real_target)));
        }
        other => {
            f.push(("t", J::s("other")));
            f.push(("pp", J::s(format!("{:?}", other).chars().take(120).collect::<String>())));
        }
    }
    f.push(("ln", J::Int(line as i128)));
    J::obj(f)
}
