#!/bin/sh
# Build the verification machinery from files on disk only (offline) and warm the dependency cache.
set -e
cd "$(dirname "$0")"
export CARGO_NET_OFFLINE=true
(cd driver && cargo +nightly build --release --offline)
if [ -d regexlang ]; then (cd regexlang && cargo build --release --offline); fi
./check facts P
