#!/usr/bin/env python3
"""E5 — seeded-mutant self test.

Every file selftest/mutants/<Cxx>-<name>.patch is a small edit of /repo that still compiles (and, when it
was authored, kept the 189 baseline tests green) but breaks one clause of property Cxx.  Header lines:
    # expect: <substring of the rule-instance key that must be reported>
For each patch: copy /repo's working tree to a scratch directory outside /repo and /verif, apply the patch,
run `./check Cxx` against the copy (VERIF_REPO) and demand exit 1 with a matching VIOLATED/UNPROVEN key.
The scratch copy is removed afterwards.  Exit 0 = all mutants killed; 2 = a mutant survived / did not apply.
"""
import glob
import json
import os
import re
import shutil
import subprocess
import sys
import tempfile

ROOT = os.path.dirname(os.path.dirname(os.path.abspath(__file__)))
REPO = os.environ.get('VERIF_REPO', '/repo')


import queue
CACHES = queue.Queue()


def worker_caches(n):
    """each worker exports facts with its own cargo target directory (a copy of the warm one), so that the
    compiler runs of different scratch copies do not wait for one another"""
    base = os.environ.get('VERIF_CACHE', os.path.join(ROOT, '.cache'))
    warm = os.path.join(base, 'target')
    for i in range(n):
        d = os.path.join(base, 'worker-%d' % i)
        os.makedirs(d, exist_ok=True)
        if not os.path.isdir(os.path.join(d, 'target')) and os.path.isdir(warm):
            subprocess.run(['cp', '-a', warm, os.path.join(d, 'target')], check=False)
        CACHES.put(d)


def drop_facts(work, cache=None):
    """remove the exported facts of a scratch copy (check keys them by the copy's path)"""
    import hashlib
    cache = cache or os.environ.get('VERIF_CACHE', os.path.join(ROOT, '.cache'))
    sfx = '-' + hashlib.sha1(work.encode()).hexdigest()[:8]
    for c in ('P', 'W'):
        shutil.rmtree(os.path.join(cache, 'facts-' + c + sfx), ignore_errors=True)


def run_one(job):
    """job = (kind, patch, props): apply the patch to a private scratch copy, run the checks, classify"""
    kind, p, pl = job
    name = os.path.basename(p)[:-6]
    cache = CACHES.get()
    try:
        return _run_one(kind, p, pl, name, cache)
    finally:
        CACHES.put(cache)


def _run_one(kind, p, pl, name, cache):
    scratch = tempfile.mkdtemp(prefix='verif-selftest-')
    work = os.path.join(scratch, 'repo')
    out = []
    try:
        subprocess.run(['rsync', '-a', '--exclude', '/target', '--exclude', '/.git', REPO + '/', work + '/'], check=True)
        subprocess.run(['git', 'init', '-q'], cwd=work)
        ap = subprocess.run(['git', 'apply', '--whitespace=nowarn', p], cwd=work, stdout=subprocess.PIPE, stderr=subprocess.STDOUT, text=True)
        if ap.returncode != 0:
            return [(('benign:' if kind == 'benign' else '') + name, 'PATCH-DOES-NOT-APPLY', ap.stdout.strip()[:200])]
        expect = [l.split(':', 1)[1].strip() for l in open(p) if l.startswith('# expect:')]
        for prop in pl:
            env = dict(os.environ, VERIF_REPO=work, VERIF_NO_EVIDENCE='1', VERIF_CACHE=cache)
            r = subprocess.run([os.path.join(ROOT, 'check'), prop, '--tier', 'quick'], env=env, cwd=ROOT,
                               stdout=subprocess.PIPE, stderr=subprocess.STDOUT, text=True)
            keys = re.findall(r'^(?:VIOLATED|UNPROVEN) (\S+)', r.stdout, re.M)
            if kind == 'mutant':
                hit = [k for k in keys if any(e in k for e in expect)] if expect else keys
                if r.returncode == 1 and hit:
                    out.append((name, 'KILLED', hit[0]))
                elif r.returncode == 2:
                    out.append((name, 'BROKEN', r.stdout[-300:]))
                else:
                    out.append((name, 'SURVIVED', 'exit=%d keys=%s' % (r.returncode, keys[:4])))
            else:
                label = 'benign:%s@%s' % (name, prop)
                if r.returncode == 0:
                    out.append((label, 'KILLED', 'silent (as required)'))
                elif r.returncode == 2:
                    out.append((label, 'BROKEN', r.stdout[-300:]))
                else:
                    out.append((label, 'FALSE-ALARM', str(keys[:3])))
    finally:
        shutil.rmtree(scratch, ignore_errors=True)
        drop_facts(work, cache)
    return out


def main():
    from concurrent.futures import ThreadPoolExecutor
    props = sys.argv[1:]
    jobs = []
    if not os.environ.get('VERIF_ONLY_BENIGN'):
        for p in sorted(glob.glob(os.path.join(ROOT, 'selftest', 'mutants', '*.patch'))):
            prop = os.path.basename(p).split('-')[0]
            if not props or prop in props:
                jobs.append(('mutant', p, [prop]))
    if not os.environ.get('VERIF_SKIP_BENIGN'):
        # behaviour-preserving variants: the checks of the named properties must stay silent (exit 0)
        for p in sorted(glob.glob(os.path.join(ROOT, 'selftest', 'benign', '*.patch'))):
            pl = [x for x in os.path.basename(p).split('-')[0].split(',') if not props or x in props]
            if pl:
                jobs.append(('benign', p, pl))
    if not jobs:
        print('selftest: no mutants for %s' % (props or 'any property'))
    workers = int(os.environ.get('VERIF_JOBS', '8'))
    worker_caches(workers)
    results = []
    with ThreadPoolExecutor(max_workers=workers) as ex:
        for out in ex.map(run_one, jobs):
            results.extend(out)
    bad = [r for r in results if r[1] != 'KILLED']
    for r in results:
        print('selftest: %-40s %s  %s' % r)
    out = os.path.join(ROOT, '.cache', 'selftest-last.json')
    try:
        with open(out, 'w') as fh:
            json.dump(results, fh, indent=1)
    except OSError:
        pass
    print('selftest: %d/%d mutants killed' % (len(results) - len(bad), len(results)))
    return 2 if bad else 0


if __name__ == '__main__':
    sys.exit(main())
