#!/usr/bin/env python3
"""E5 — seeded-mutant self test.

Every file selftest/mutants/<Cxx>-<name>.patch is a small edit of /repo that still compiles (and, when it
was authored, kept the 189 baseline tests green) but breaks one clause of property Cxx.  Header lines:
    # expect: <substring of the rule-instance key that must be reported>
For each patch: copy /repo's working tree to a scratch directory outside /repo and /verif, apply the patch,
run `./check Cxx` against the copy (VERIF_REPO) and demand exit 1 with a matching VIOLATED/UNPROVEN key.
The scratch copy is removed afterwards.  Exit 0 = all mutants killed; 2 = a mutant survived / did not apply.
"""
import glob
import json
import os
import re
import shutil
import subprocess
import sys
import tempfile

ROOT = os.path.dirname(os.path.dirname(os.path.abspath(__file__)))
REPO = os.environ.get('VERIF_REPO', '/repo')


def drop_facts(work):
    """remove the exported facts of a scratch copy (check keys them by the copy's path)"""
    import hashlib
    cache = os.environ.get('VERIF_CACHE', os.path.join(ROOT, '.cache'))
    sfx = '-' + hashlib.sha1(work.encode()).hexdigest()[:8]
    for c in ('P', 'W'):
        shutil.rmtree(os.path.join(cache, 'facts-' + c + sfx), ignore_errors=True)


def main():
    props = sys.argv[1:]
    patches = sorted(glob.glob(os.path.join(ROOT, 'selftest', 'mutants', '*.patch')))
    if props:
        patches = [p for p in patches if os.path.basename(p).split('-')[0] in props]
    if not patches:
        print('selftest: no mutants for %s' % (props or 'any property'))
    scratch = tempfile.mkdtemp(prefix='verif-selftest-')
    results = []
    if os.environ.get('VERIF_ONLY_BENIGN'):
        patches = []
    try:
        work = os.path.join(scratch, 'repo')
        for p in patches:
            name = os.path.basename(p)[:-6]
            prop = name.split('-')[0]
            expect = [l.split(':', 1)[1].strip() for l in open(p) if l.startswith('# expect:')]
            shutil.rmtree(work, ignore_errors=True)
            subprocess.run(['rsync', '-a', '--exclude', '/target', '--exclude', '/.git', REPO + '/', work + '/'], check=True)
            subprocess.run(['git', 'init', '-q'], cwd=work)
            ap = subprocess.run(['git', 'apply', '--whitespace=nowarn', p], cwd=work, stdout=subprocess.PIPE, stderr=subprocess.STDOUT, text=True)
            if ap.returncode != 0:
                results.append((name, 'PATCH-DOES-NOT-APPLY', ap.stdout.strip()[:200]))
                continue
            env = dict(os.environ, VERIF_REPO=work, VERIF_NO_EVIDENCE='1')
            r = subprocess.run([os.path.join(ROOT, 'check'), prop, '--tier', 'quick'], env=env, cwd=ROOT,
                               stdout=subprocess.PIPE, stderr=subprocess.STDOUT, text=True)
            keys = re.findall(r'^(?:VIOLATED|UNPROVEN) (\S+)', r.stdout, re.M)
            hit = [k for k in keys if any(e in k for e in expect)] if expect else keys
            if r.returncode == 1 and hit:
                results.append((name, 'KILLED', hit[0]))
            elif r.returncode == 2:
                results.append((name, 'BROKEN', r.stdout[-300:]))
            else:
                results.append((name, 'SURVIVED', 'exit=%d keys=%s' % (r.returncode, keys[:4])))
    finally:
        shutil.rmtree(scratch, ignore_errors=True)
        drop_facts(work)
    # behaviour-preserving variants: the checks of the named properties must stay silent (exit 0)
    benign = sorted(glob.glob(os.path.join(ROOT, 'selftest', 'benign', '*.patch')))
    if props:
        benign = [p for p in benign if set(os.path.basename(p).split('-')[0].split(',')) & set(props)]
    if benign and not os.environ.get('VERIF_SKIP_BENIGN'):
        scratch = tempfile.mkdtemp(prefix='verif-benign-')
        try:
            work = os.path.join(scratch, 'repo')
            for p in benign:
                name = os.path.basename(p)[:-6]
                pl = [x for x in name.split('-')[0].split(',') if not props or x in props]
                shutil.rmtree(work, ignore_errors=True)
                subprocess.run(['rsync', '-a', '--exclude', '/target', '--exclude', '/.git', REPO + '/', work + '/'], check=True)
                subprocess.run(['git', 'init', '-q'], cwd=work)
                ap = subprocess.run(['git', 'apply', '--whitespace=nowarn', p], cwd=work, stdout=subprocess.PIPE, stderr=subprocess.STDOUT, text=True)
                if ap.returncode != 0:
                    results.append(('benign:' + name, 'PATCH-DOES-NOT-APPLY', ap.stdout.strip()[:200]))
                    continue
                for prop in pl:
                    env = dict(os.environ, VERIF_REPO=work, VERIF_NO_EVIDENCE='1')
                    r = subprocess.run([os.path.join(ROOT, 'check'), prop, '--tier', 'quick'], env=env, cwd=ROOT,
                                       stdout=subprocess.PIPE, stderr=subprocess.STDOUT, text=True)
                    keys = re.findall(r'^(?:VIOLATED|UNPROVEN) (\S+)', r.stdout, re.M)
                    if r.returncode == 0:
                        results.append(('benign:%s@%s' % (name, prop), 'KILLED', 'silent (as required)'))
                    elif r.returncode == 2:
                        results.append(('benign:%s@%s' % (name, prop), 'BROKEN', r.stdout[-300:]))
                    else:
                        results.append(('benign:%s@%s' % (name, prop), 'FALSE-ALARM', str(keys[:3])))
        finally:
            shutil.rmtree(scratch, ignore_errors=True)
            drop_facts(work)
    bad = [r for r in results if r[1] != 'KILLED']
    for r in results:
        print('selftest: %-40s %s  %s' % r)
    out = os.path.join(ROOT, '.cache', 'selftest-last.json')
    try:
        with open(out, 'w') as fh:
            json.dump(results, fh, indent=1)
    except OSError:
        pass
    print('selftest: %d/%d mutants killed' % (len(results) - len(bad), len(results)))
    return 2 if bad else 0


if __name__ == '__main__':
    sys.exit(main())
