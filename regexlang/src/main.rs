//! regexlang — decides language inclusion / disjointness for the validating regexes of libcnb-data.
//!
//! Input (stdin): lines of tab-separated fields
//!     <id> \t <fancy regex> \t <accept spec> \t <reject spec>
//! where a spec is one of
//!     re:<look-around free regex>                      M(regex)  (strings on which is_match is true)
//!     re:<regex>\x1fminus:<w1>,<w2>,..                 M(regex) minus the listed words
//!     words:<w1>,<w2>,..                               the finite set (empty word written as <empty>)
//!     not-accept                                       complement of the accept language
//!     none                                             empty language
//! Output: one JSON line per job with verdicts and shortest counter-examples.
//!
//! The fancy regex must have the shape `^(?!P)Q` or `^Q` with P, Q free of look-around and
//! back-references; anything else is reported as unsupported (fail closed).  Its language is
//!     { s valid UTF-8 : is_match(^(?:Q), s) and not is_match(^(?:P), s) }
//! which is exactly what fancy-regex computes for a leading negative look-ahead at position 0.
//! All automata are dense DFAs built by regex-automata 0.4.18 (the version /repo locks) in UTF-8 /
//! Unicode mode; `is_match` is modelled exactly (unanchored search, match flag delayed by one byte,
//! end-of-input transition).  Decision = BFS over the product automaton on the 256-byte alphabet
//! restricted to valid UTF-8, so it covers every string, not a bounded sample.
use regex_automata::dfa::{dense, Automaton, StartKind};
use regex_automata::util::primitives::StateID;
use regex_automata::util::start;
use regex_automata::Anchored;
use std::collections::{HashMap, VecDeque};
use std::io::{BufRead, Write};

struct ReLang {
    dfa: dense::DFA<Vec<u32>>,
    start: StateID,
}

impl ReLang {
    fn new(pattern: &str) -> Result<ReLang, String> {
        let dfa = dense::Builder::new()
            .configure(dense::Config::new().start_kind(StartKind::Unanchored).minimize(true))
            .build(pattern)
            .map_err(|e| format!("cannot build DFA for {:?}: {}", pattern, e))?;
        let start = dfa
            .start_state(&start::Config::new().anchored(Anchored::No))
            .map_err(|e| format!("no start state: {}", e))?;
        Ok(ReLang { dfa, start })
    }
}

enum Lang {
    Re(ReLang),
    Words(Vec<Vec<u8>>),
    Not(Box<Lang>),
    And(Box<Lang>, Box<Lang>),
    Empty,
}

#[derive(Clone, PartialEq, Eq, Hash, Debug)]
enum St {
    Re(StateID, bool),
    Words(Option<Vec<u8>>),
    Not(Box<St>),
    Pair(Box<St>, Box<St>),
    Unit,
}

impl Lang {
    fn start(&self) -> St {
        match self {
            Lang::Re(r) => St::Re(r.start, false),
            Lang::Words(_) => St::Words(Some(vec![])),
            Lang::Not(l) => St::Not(Box::new(l.start())),
            Lang::And(a, b) => St::Pair(Box::new(a.start()), Box::new(b.start())),
            Lang::Empty => St::Unit,
        }
    }
    fn step(&self, s: &St, b: u8) -> St {
        match (self, s) {
            (Lang::Re(r), St::Re(id, m)) => {
                let n = r.dfa.next_state(*id, b);
                St::Re(n, *m || r.dfa.is_match_state(n))
            }
            (Lang::Words(ws), St::Words(p)) => match p {
                None => St::Words(None),
                Some(p) => {
                    let mut q = p.clone();
                    q.push(b);
                    if ws.iter().any(|w| w.starts_with(&q)) {
                        St::Words(Some(q))
                    } else {
                        St::Words(None)
                    }
                }
            },
            (Lang::Not(l), St::Not(s)) => St::Not(Box::new(l.step(s, b))),
            (Lang::And(x, y), St::Pair(s, t)) => St::Pair(Box::new(x.step(s, b)), Box::new(y.step(t, b))),
            (Lang::Empty, _) => St::Unit,
            _ => unreachable!(),
        }
    }
    fn accepts(&self, s: &St) -> bool {
        match (self, s) {
            (Lang::Re(r), St::Re(id, m)) => *m || r.dfa.is_match_state(r.dfa.next_eoi_state(*id)),
            (Lang::Words(ws), St::Words(p)) => p.as_ref().map_or(false, |p| ws.iter().any(|w| w == p)),
            (Lang::Not(l), St::Not(s)) => !l.accepts(s),
            (Lang::And(x, y), St::Pair(s, t)) => x.accepts(s) && y.accepts(t),
            (Lang::Empty, _) => false,
            _ => unreachable!(),
        }
    }
}

/// shortest valid-UTF-8 string in X \ Y, plus number of product states explored
fn witness_x_minus_y(x: &Lang, y: &Lang, utf8: &Lang) -> (Option<Vec<u8>>, usize) {
    let s0 = (x.start(), y.start(), utf8.start());
    let mut seen: HashMap<(St, St, St), usize> = HashMap::new();
    let mut nodes: Vec<((St, St, St), Option<(usize, u8)>)> = vec![(s0.clone(), None)];
    seen.insert(s0, 0);
    let mut q = VecDeque::new();
    q.push_back(0usize);
    while let Some(i) = q.pop_front() {
        let (sx, sy, su) = nodes[i].0.clone();
        if utf8.accepts(&su) && x.accepts(&sx) && !y.accepts(&sy) {
            let mut out = vec![];
            let mut cur = i;
            while let Some((p, b)) = nodes[cur].1 {
                out.push(b);
                cur = p;
            }
            out.reverse();
            return (Some(out), nodes.len());
        }
        for b in 0u16..256 {
            let b = b as u8;
            let nu = utf8.step(&su, b);
            // prune prefixes that can never become valid UTF-8 (dead state of the validity DFA)
            if let (Lang::Re(r), St::Re(id, _)) = (utf8, &nu) {
                if r.dfa.is_dead_state(*id) {
                    continue;
                }
            }
            let n = (x.step(&sx, b), y.step(&sy, b), nu);
            if !seen.contains_key(&n) {
                seen.insert(n.clone(), nodes.len());
                nodes.push((n, Some((i, b))));
                q.push_back(nodes.len() - 1);
            }
        }
        if nodes.len() > 2_000_000 {
            return (None, nodes.len());
        }
    }
    (None, nodes.len())
}

/// split `^(?!P)Q` into (Some(P), Q) / `^Q` into (None, Q); reject any other look-around / backref
fn decompose(re: &str) -> Result<(Option<String>, String), String> {
    let rest = re.strip_prefix('^').ok_or("regex does not start with ^ (unanchored start is outside the supported subset)")?;
    let (p, q) = if let Some(r) = rest.strip_prefix("(?!") {
        // find the matching close paren
        let b = r.as_bytes();
        let mut depth = 1usize;
        let mut i = 0;
        let mut in_class = 0usize;
        let mut end = None;
        while i < b.len() {
            match b[i] {
                b'\\' => i += 1,
                b'[' => in_class += 1,
                b']' if in_class > 0 => in_class -= 1,
                b'(' if in_class == 0 => depth += 1,
                b')' if in_class == 0 => {
                    depth -= 1;
                    if depth == 0 {
                        end = Some(i);
                        break;
                    }
                }
                _ => {}
            }
            i += 1;
        }
        let e = end.ok_or("unbalanced look-ahead group")?;
        (Some(r[..e].to_string()), r[e + 1..].to_string())
    } else {
        (None, rest.to_string())
    };
    for part in p.iter().chain(std::iter::once(&q)) {
        for bad in ["(?=", "(?!", "(?<=", "(?<!", "(?>", "\\1", "\\2", "\\k<", "\\G", "\\K", "(?("] {
            if part.contains(bad) {
                return Err(format!("construct {:?} is outside the supported regex subset", bad));
            }
        }
    }
    Ok((p, q))
}

fn parse_words(s: &str) -> Vec<Vec<u8>> {
    s.split(',').filter(|w| !w.is_empty()).map(|w| if w == "<empty>" { vec![] } else { unescape(w) }).collect()
}

fn unescape(s: &str) -> Vec<u8> {
    let mut out = vec![];
    let b = s.as_bytes();
    let mut i = 0;
    while i < b.len() {
        if b[i] == b'\\' && i + 3 < b.len() && b[i + 1] == b'x' {
            out.push(u8::from_str_radix(&s[i + 2..i + 4], 16).unwrap_or(b'?'));
            i += 4;
        } else {
            out.push(b[i]);
            i += 1;
        }
    }
    out
}

fn parse_spec(spec: &str) -> Result<Option<Lang>, String> {
    if spec == "none" {
        return Ok(Some(Lang::Empty));
    }
    if spec == "not-accept" {
        return Ok(None);
    }
    if let Some(w) = spec.strip_prefix("words:") {
        return Ok(Some(Lang::Words(parse_words(w))));
    }
    if let Some(r) = spec.strip_prefix("re:") {
        let mut parts = r.split('\x1f');
        let re = parts.next().unwrap();
        let mut lang = Lang::Re(ReLang::new(re)?);
        for p in parts {
            if let Some(w) = p.strip_prefix("minus:") {
                lang = Lang::And(Box::new(lang), Box::new(Lang::Not(Box::new(Lang::Words(parse_words(w))))));
            }
        }
        return Ok(Some(lang));
    }
    Err(format!("bad spec {:?}", spec))
}

fn esc(b: &[u8]) -> String {
    let mut s = String::new();
    for &c in b {
        match c {
            b'"' => s.push_str("\\\""),
            b'\\' => s.push_str("\\\\"),
            0x20..=0x7e => s.push(c as char),
            _ => s.push_str(&format!("\\\\x{:02x}", c)),
        }
    }
    s
}

fn main() {
    let stdin = std::io::stdin();
    let out = std::io::stdout();
    let mut out = out.lock();
    let utf8 = Lang::Re(ReLang::new(r"\A(?s:.)*\z").expect("utf8 dfa"));
    for line in stdin.lock().lines() {
        let line = line.unwrap();
        if line.trim().is_empty() {
            continue;
        }
        let f: Vec<&str> = line.split('\t').collect();
        if f.len() != 4 {
            writeln!(out, "{{\"id\":\"?\",\"supported\":false,\"reason\":\"bad job line\"}}").unwrap();
            continue;
        }
        let (id, re, acc, rej) = (f[0], f[1], f[2], f[3]);
        let res = (|| -> Result<String, String> {
            let (p, q) = decompose(re)?;
            let mut lang = Lang::Re(ReLang::new(&format!("^(?:{})", q))?);
            if let Some(p) = &p {
                lang = Lang::And(Box::new(lang), Box::new(Lang::Not(Box::new(Lang::Re(ReLang::new(&format!("^(?:{})", p))?)))));
            }
            let a = parse_spec(acc)?.ok_or("accept spec cannot be not-accept")?;
            // accept ⊆ L
            let (w1, n1) = witness_x_minus_y(&a, &lang, &utf8);
            // L ∩ reject = ∅   <=>   no s in L with s in reject
            let (w2, n2) = match parse_spec(rej)? {
                Some(r) => witness_x_minus_y(&lang, &Lang::Not(Box::new(r)), &utf8),
                None => witness_x_minus_y(&lang, &a, &utf8),
            };
            Ok(format!(
                "{{\"id\":\"{}\",\"supported\":true,\"lookahead\":{},\"accept_included\":{},\"accept_cex\":{},\"reject_disjoint\":{},\"reject_cex\":{},\"states\":{}}}",
                id,
                p.is_some(),
                w1.is_none(),
                w1.map_or("null".to_string(), |w| format!("\"{}\"", esc(&w))),
                w2.is_none(),
                w2.map_or("null".to_string(), |w| format!("\"{}\"", esc(&w))),
                n1 + n2
            ))
        })();
        match res {
            Ok(j) => writeln!(out, "{}", j).unwrap(),
            Err(e) => writeln!(out, "{{\"id\":\"{}\",\"supported\":false,\"reason\":\"{}\"}}", id, esc(e.as_bytes())).unwrap(),
        }
    }
}
