"""Helpers of C14: spelling-independent views of Option/Result-valued code and of element-wise list construction.

1. `Cases` — guarded case analysis.  For a function (or closure applied to argument values) it enumerates the leaf results

       [(guards, shape)]      shape  = ('Ok', s) | ('Err', s) | ('Some', s) | ('None',) | ('val', value) | ('from', s)
                              guards = tuple of atoms that hold whenever that result is produced

   through `match` / `if let` / `let .. else` / `?` (rows of the return place with the branch decisions dominating them),
   through the Option/Result combinators (`map`, `and_then`, `map_err`, `map_or`, `ok_or`, `filter`, `transpose`,
   `cloned` ...; closures are entered with their parameters bound to the receiver's payload) and through tail calls into
   private functions of the same crate.  All values are expressed in the terms of the entry function.  Atoms:

       ('is', subject, '+' | '-')        subject is Some/Ok/Continue ('+') or None/Err/Break ('-'); adapters that keep the
                                         polarity (`map`, `map_err`, `ok_or`, `cloned`, `Try::branch`) are peeled
       ('is', subject, frozenset(names)) any other enum
       ('bool', value, True|False)       a tested boolean; `!x`, `is_none/is_some/is_ok/is_err`, `is_some_and`,
                                         `is_relative` (== !is_absolute), `a == b` / `a != b` and private boolean helpers
                                         are brought to one form
       ('nall', frozenset(atoms))        NOT all of the atoms hold (merged `_ =>` arms, `is_some_and(..) == false`)
       ('?',)                            an alternative whose branch decision is unknown (a phi inside an expression)

   `x.map_or(Ok(d), |v| f(v))`, `match x { None => Ok(d), Some(v) => f(v) }`, `let Some(v) = x else { return Ok(d) }; f(v)`
   all give the same two cases.

2. `Normal` — normal form of a value with workspace helpers inlined and success payloads in `mk_unwrap` form (to a fixed
   point), remembering with which arguments each helper was entered.

3. `sequence_of` — how a list value is built from another list: an order-keeping iterator pipeline with exactly one `map`,
   or a fresh Vec that receives exactly one `push` per element of a `for` loop which only stops early by returning an error
   (also when that loop lives in a helper that `Normal` inlined).  `chain_of` — the consecutive passes (each a
   `sequence_of`) that lead from a source list to a result list, whether written in one function or several.
"""
import re

from .lib import iters
from .lib.effects import find_loops, success_sites
from .lib.guards import conditions
from .lib.tables import phi_local_of
from .lib.value import Slicer, canon, subst, walk

POS, NEG = '+', '-'
_POSN = frozenset({'Some', 'Ok', 'Continue'})
_NEGN = frozenset({'None', 'Err', 'Break'})
OPTION, RESULT = 'std::option::Option', 'std::result::Result'
_COMB = re.compile(r'^std::(result::Result|option::Option)::<.*>::(\w+)$')
# adapters whose result is Some/Ok exactly when their receiver is
KEEP_POLARITY = {'map', 'map_err', 'ok_or', 'ok_or_else', 'inspect', 'inspect_err', 'cloned', 'copied', 'as_ref', 'as_mut',
                 'as_deref', 'as_deref_mut', 'ok', 'err_into'}
PAYLOAD_SAME = {'cloned', 'copied', 'as_ref', 'as_mut', 'as_deref', 'as_deref_mut', 'inspect', 'inspect_err'}


def peel(v):
    while isinstance(v, tuple) and v and v[0] == 'updated':
        v = v[1]
    return v


def polarity(names):
    names = frozenset(names)
    if names and names <= _POSN:
        return POS
    if names and names <= _NEGN:
        return NEG
    return None


def comb(v):
    """(family 'R'|'O', method) when v is a call of an Option/Result method"""
    if isinstance(v, tuple) and v and v[0] == 'call':
        m = _COMB.match(v[1])
        if m:
            return ('R' if m.group(1).startswith('result') else 'O'), m.group(2)
    return None, None


def core(v):
    """the value whose Some/Ok-ness decides that of v"""
    for _ in range(12):
        v = peel(v)
        if v[0] == 'call' and v[2]:
            if v[1] == 'std::ops::Try::branch':
                v = v[2][0]
                continue
            fam, meth = comb(v)
            if meth in KEEP_POLARITY:
                v = v[2][0]
                continue
        break
    return v


def shape_vals(sh):
    """leaf values of a shape"""
    if sh[0] == 'val':
        yield sh[1]
    elif sh[0] in ('Ok', 'Err', 'Some', 'from'):
        yield from shape_vals(sh[1])


def shape_sig(sh):
    if sh[0] == 'val':
        return '_'
    if sh[0] == 'None':
        return 'None'
    if sh[0] == 'from':
        return shape_sig(sh[1])
    return '%s(%s)' % (sh[0], shape_sig(sh[1]))


def mentions(sh, cv):
    """some leaf of the shape contains a sub-value whose canonical form is cv"""
    return any(canon(x) == cv for leaf in shape_vals(sh) for x in walk(leaf))


class Cases:
    def __init__(self, prog, sl, entry, stop=()):
        self.prog, self.sl = prog, sl
        self.entry = entry
        self.stop = set(stop)
        # closure bodies are read with symbolic captures, bound to the captured values of the closure *value* at hand
        self.sym = Slicer(prog)
        self.sym.symbolic_upvars = True
        self._rows = {}

    # ---- which calls are looked into -----------------------------------------------------------------------
    def descend(self, g):
        return g is not None and g.kind != 'Closure' and g.path not in self.stop and g.crate == self.entry.crate and \
            (g.vis != 'public' or g.path == self.entry.path)

    # ---- atoms -----------------------------------------------------------------------------------------------
    def apply(self, f, args):
        r = self.sl.apply_closure(f, tuple(args)) if isinstance(f, tuple) and f and f[0] in ('closure', 'fnitem') else None
        return r if r is not None else ('icall', f, tuple(args), None)

    def is_atom(self, subj, names):
        pol = polarity(names)
        if pol is not None:
            return ('is', canon(core(subj)), pol)
        return ('is', canon(peel(subj)), frozenset(names))

    def bool_atoms(self, v, oc, depth=0):
        """conjunction of atoms equivalent to `v == oc`"""
        v = peel(v)
        while v[0] == 'un' and v[1] == 'Not':
            v, oc = peel(v[2]), (not oc)
        if v[0] == 'const' and isinstance(v[1], bool):
            return [] if v[1] == oc else [('false',)]
        if v[0] == 'call' and v[2] and depth < 6:
            fam, meth = comb(v)
            if meth in ('is_none', 'is_err'):
                return [('is', canon(core(v[2][0])), NEG if oc else POS)]
            if meth in ('is_some', 'is_ok'):
                return [('is', canon(core(v[2][0])), POS if oc else NEG)]
            if meth in ('is_some_and', 'is_ok_and') and len(v[2]) == 2:
                pos = [('is', canon(core(v[2][0])), POS)] + self.bool_atoms(self.apply(v[2][1], (self.sl.mk_unwrap(v[2][0]),)), True, depth + 1)
                return pos if oc else [('nall', frozenset(pos))]
            if v[1] == 'std::path::Path::is_relative':
                return [('bool', ('call', 'std::path::Path::is_absolute', tuple(canon(a) for a in v[2])), not oc)]
            last = v[1].rsplit('::', 1)[-1]
            if last in ('eq', 'ne') and len(v[2]) == 2 and 'PartialEq' in v[1]:
                return [('bool', ('eq', canon(peel(v[2][0])), canon(peel(v[2][1]))), oc if last == 'eq' else (not oc))]
            g = self.prog.fns.get(v[1])
            if self.descend(g):
                iv = self.sl.inline_call(v)
                if iv is not None and iv != v and peel(iv)[0] != 'phi':
                    return self.bool_atoms(iv, oc, depth + 1)
        if v[0] == 'bin' and v[1] in ('Eq', 'Ne'):
            return [('bool', ('eq', canon(peel(v[2])), canon(peel(v[3]))), oc if v[1] == 'Eq' else (not oc))]
        return [('bool', canon(v), oc)]

    def cond_atoms(self, cd, m):
        if cd.kind == 'variant':
            subj = cd.subject if cd.subject is not None else cd.value
            return [self.is_atom(subst(subj, m, self.sl) if m else subj, cd.outcome)]
        if cd.kind == 'bool':
            return self.bool_atoms(subst(cd.value, m, self.sl) if m else cd.value, cd.outcome)
        return [('int', canon(subst(cd.value, m, self.sl) if m else cd.value), cd.outcome)]

    # ---- rows of a function: definitions of the return place with their branch decisions ------------------------
    def _def_rows(self, fn, local, depth=0):
        out = []
        for d in fn.whole_defs(local):
            kind, bi = d[0], d[1]
            conds = conditions(fn, bi, self.sym)
            if kind == 'stmt':
                rv = d[3]
                if rv['r'] == 'use' and depth < 3:
                    # `let r = match .. { .. }; r`: the rows are those of r
                    l2 = phi_local_of(fn, rv['o'])
                    if l2 is not None and l2 != local:
                        for b2, v2, c2 in self._def_rows(fn, l2, depth + 1):
                            have = {(c.sw_bb, c.target) for c in c2}
                            out.append((b2, v2, c2 + [c for c in conds if (c.sw_bb, c.target) not in have]))
                        continue
                v = self.sym._rvalue(fn, rv, set(), 0, None)
            elif kind == 'call':
                v = self.sym._call_value(fn, d[3], set(), 0)
            else:
                continue
            out.append((bi, v, conds))
        return out

    @staticmethod
    def _avoids(fn, bb, conds):
        """every path entry -> bb takes, at the switch of at least one of conds, another edge than that cond's"""
        forced = {c.sw_bb: c.target for c in conds}
        seen, work = set(), [0]
        while work:
            b = work.pop()
            if b in seen:
                continue
            seen.add(b)
            if b == bb:
                return False
            if b in forced:
                work.append(forced[b])
            else:
                work.extend(fn.succs(b))
        return True

    def rows(self, fn):
        """[(bb, value, conds, [conds of a sibling row that cannot all hold here])]"""
        if fn.path not in self._rows:
            rs = self._def_rows(fn, 0)
            out = []
            for i, (bi, v, conds) in enumerate(rs):
                mine = {(c.sw_bb, c.target) for c in conds}
                extra = []
                decided = {c.sw_bb for c in conds}
                for j, (bj, vj, cj) in enumerate(rs):
                    diff = [c for c in cj if (c.sw_bb, c.target) not in mine]
                    # (a row that already took another edge at one of those switches carries the direct negation)
                    if i == j or not diff or any(c.sw_bb in decided or c.kind not in ('variant', 'bool') for c in diff):
                        continue
                    if self._avoids(fn, bi, diff) and diff not in extra:
                        extra.append(diff)
                out.append((bi, v, conds, extra))
            self._rows[fn.path] = out
        return self._rows[fn.path]

    # ---- cases -------------------------------------------------------------------------------------------------
    @staticmethod
    def _uniq(atoms):
        out = []
        for a in atoms:
            if a not in out:
                out.append(a)
        return tuple(out)

    def fn_cases(self, g, m=None, stack=()):
        m = m or {}
        if g.path in stack or len(stack) > 12:
            return [((('?',),), ('val', ('recursion', g.path)))]
        out = []
        for bi, v, conds, extra in self.rows(g):
            atoms = []
            for cd in conds:
                atoms.extend(self.cond_atoms(cd, m))
            for diff in extra:
                na = [a for cd in diff for a in self.cond_atoms(cd, m)]
                atoms.append(('nall', frozenset(na)))
            vv = subst(v, m, self.sl) if m else v
            for gs, sh in self.value_cases(vv, m, stack + (g.path,)):
                out.append((self._uniq(tuple(atoms) + tuple(gs)), sh))
        return out

    def call_cases(self, f, args, m=None, stack=()):
        """cases of calling closure / fn item value f with argument values"""
        m = m or {}
        f = peel(f)
        if f[0] == 'closure':
            g = self.prog.fns.get(f[1])
            if g is not None:
                m2 = dict(m)
                for i, a in enumerate(args):
                    m2[(g.path, 1 + i)] = a
                for i, uv in enumerate(f[2]):
                    m2[('upvar', g.path, i)] = uv
                return self.fn_cases(g, m2, stack)
        if f[0] == 'fnitem':
            last = f[1].rsplit('::', 1)[-1]
            if last in ('Some', 'Ok', 'Err') and f[1].startswith(('std::', 'core::')) and len(args) == 1:
                return [((), (last, ('val', args[0])))]
            g = self.prog.fns.get(f[1])
            if self.descend(g):
                m2 = dict(m)
                for i, a in enumerate(args):
                    m2[(g.path, i)] = a
                return self.fn_cases(g, m2, stack)
        return [((), ('val', self.apply(f, args)))]

    def err_payload(self, o):
        o = peel(o)
        if o[0] == 'call' and o[2]:
            if o[1] == 'std::ops::Try::branch':
                return self.err_payload(o[2][0])
            fam, meth = comb(o)
            if meth == 'map_err' and len(o[2]) == 2:
                return self.apply(o[2][1], (self.err_payload(o[2][0]),))
            if meth == 'ok_or' and len(o[2]) == 2:
                return o[2][1]
            if meth == 'ok_or_else' and len(o[2]) == 2:
                return self.apply(o[2][1], ())
            if meth in PAYLOAD_SAME:
                return self.err_payload(o[2][0])
        return ('unwrap_err', o)

    def split(self, cases, fam):
        """opaque results become a positive and a negative case"""
        out = []
        for g, sh in cases:
            if sh[0] == 'val':
                o = sh[1]
                subj = canon(core(o))
                out.append((tuple(g) + (('is', subj, POS),), ('Some' if fam == 'O' else 'Ok', ('val', self.sl.mk_unwrap(o)))))
                out.append((tuple(g) + (('is', subj, NEG),), ('None',) if fam == 'O' else ('Err', ('val', self.err_payload(o)))))
            else:
                out.append((tuple(g), sh))
        return out

    def value_cases(self, v, m, stack=(), depth=0):
        v = peel(v)
        k = v[0]
        if depth > 24:
            return [((), ('val', v))]
        if k == 'agg' and v[1] in (OPTION, RESULT) and v[2] in ('Ok', 'Err', 'Some', 'None'):
            if v[2] == 'None':
                return [((), ('None',))]
            payload = dict(v[3]).get('0', ('unknown', 'payload'))
            pp = peel(payload)
            if pp[0] == 'agg' and pp[1] in (OPTION, RESULT):
                return [(g, (v[2], sh)) for g, sh in self.value_cases(pp, m, stack, depth + 1)]
            return [((), (v[2], ('val', payload)))]
        if k == 'phi':
            out = []
            for x in v[1]:
                for g, sh in self.value_cases(x, m, stack, depth + 1):
                    out.append(((('?',),) + tuple(g), sh))
            return out
        if k != 'call':
            return [((), ('val', v))]
        name, args = v[1], v[2]
        if name.endswith('FromResidual::from_residual') and args and peel(args[0])[0] == 'residual':
            out = []
            for g, sh in self.split(self.value_cases(peel(args[0])[1], m, stack, depth + 1), 'R'):
                if sh[0] == 'Err':
                    out.append((g, ('Err', ('from', sh[1]))))
                elif sh[0] == 'None':
                    out.append((g, sh))
            return out
        g = self.prog.fns.get(name)
        if self.descend(g) and g.path not in stack:
            m2 = dict(m)
            for i, a in enumerate(args):
                if i < g.argc:
                    m2[(g.path, i)] = a
            return self.fn_cases(g, m2, stack)
        fam, meth = comb(v)
        if meth is None or not args:
            return [((), ('val', v))]
        posn = 'Some' if fam == 'O' else 'Ok'
        recv = lambda: self.value_cases(args[0], m, stack, depth + 1)
        is_pos = lambda sh: sh[0] in ('Ok', 'Some')
        val_of = lambda sh: sh[1][1] if sh[1][0] == 'val' else None
        out = []
        if meth in PAYLOAD_SAME:
            return recv()
        if meth == 'map_err' and len(args) == 2:
            for gd, sh in recv():
                if sh[0] == 'val':
                    out.append((gd, ('val', ('call', name, (sh[1], args[1]), v[3] if len(v) > 3 else None))))
                elif sh[0] == 'Err':
                    e = val_of(sh)
                    if e is None:
                        out.append((gd, sh))
                    else:
                        for g2, s2 in self.call_cases(args[1], [e], m, stack):
                            out.append((tuple(gd) + tuple(g2), ('Err', s2)))
                else:
                    out.append((gd, sh))
            return out
        if meth in ('map', 'and_then') and len(args) == 2:
            for gd, sh in self.split(recv(), fam):
                p = val_of(sh) if is_pos(sh) else None
                if is_pos(sh) and p is not None:
                    for g2, s2 in self.call_cases(args[1], [p], m, stack):
                        out.append((tuple(gd) + tuple(g2), (posn, s2) if meth == 'map' else s2))
                elif is_pos(sh):
                    out.append((tuple(gd) + (('?',),), ('val', v)))
                else:
                    out.append((gd, sh))
            return out
        if meth in ('map_or', 'map_or_else') and len(args) == 3:
            for gd, sh in self.split(recv(), fam):
                p = val_of(sh) if is_pos(sh) else None
                if is_pos(sh) and p is not None:
                    for g2, s2 in self.call_cases(args[2], [p], m, stack):
                        out.append((tuple(gd) + tuple(g2), s2))
                elif is_pos(sh):
                    out.append((tuple(gd) + (('?',),), ('val', v)))
                elif meth == 'map_or':
                    for g2, s2 in self.value_cases(args[1], m, stack, depth + 1):
                        out.append((tuple(gd) + tuple(g2), s2))
                else:
                    e = [val_of(sh)] if sh[0] == 'Err' and val_of(sh) is not None else []
                    for g2, s2 in self.call_cases(args[1], e, m, stack):
                        out.append((tuple(gd) + tuple(g2), s2))
            return out
        if meth in ('ok_or', 'ok_or_else') and fam == 'O' and len(args) == 2:
            for gd, sh in self.split(recv(), 'O'):
                if sh[0] == 'Some':
                    out.append((gd, ('Ok', sh[1])))
                elif meth == 'ok_or':
                    out.append((gd, ('Err', ('val', args[1]))))
                else:
                    for g2, s2 in self.call_cases(args[1], [], m, stack):
                        out.append((tuple(gd) + tuple(g2), ('Err', s2)))
            return out
        if meth == 'ok' and fam == 'R':
            for gd, sh in self.split(recv(), 'R'):
                out.append((gd, ('Some', sh[1]) if sh[0] == 'Ok' else ('None',)))
            return out
        if meth == 'filter' and fam == 'O' and len(args) == 2:
            for gd, sh in self.split(recv(), 'O'):
                p = val_of(sh) if sh[0] == 'Some' else None
                if sh[0] != 'Some':
                    out.append((gd, sh))
                elif p is None:
                    out.append((tuple(gd) + (('?',),), ('val', v)))
                else:
                    for g2, s2 in self.call_cases(args[1], [p], m, stack):
                        if s2[0] != 'val':
                            out.append((tuple(gd) + tuple(g2) + (('?',),), ('val', v)))
                            continue
                        out.append((tuple(gd) + tuple(g2) + tuple(self.bool_atoms(s2[1], True)), sh))
                        out.append((tuple(gd) + tuple(g2) + tuple(self.bool_atoms(s2[1], False)), ('None',)))
            return out
        if meth == 'transpose':
            outer, inner = ('Some', 'R') if fam == 'O' else ('Ok', 'O')
            for gd, sh in self.split(recv(), fam):
                if sh[0] == 'None' and fam == 'O':
                    out.append((gd, ('Ok', ('None',))))
                elif sh[0] == 'Err' and fam == 'R':
                    out.append((gd, ('Some', sh)))
                elif sh[0] == outer:
                    for g2, s2 in self.split([(gd, sh[1])], inner):
                        if fam == 'O':
                            out.append((g2, ('Ok', ('Some', s2[1])) if s2[0] == 'Ok' else s2))
                        else:
                            out.append((g2, ('Some', ('Ok', s2[1])) if s2[0] == 'Some' else s2))
                else:
                    out.append((gd, sh))
            return out
        return [((), ('val', v))]


# ------------------------------------------------------------------------------------------------------------------
# normal form with remembered call contexts
# ------------------------------------------------------------------------------------------------------------------
_LEAF = ('const', 'param', 'fnitem', 'constitem', 'unknown', 'closure_env', 'upvar')


class Normal:
    """Normal form of a value of function f: calls to workspace functions (not in `keep`) are replaced by what they return
    and success payloads are brought to the `mk_unwrap` form until nothing changes, so that it does not matter in which
    function (entry point, private helper, closure of an and_then / map) a piece of the computation is written.
    `entered[g]` remembers the argument values (in the entry function's terms) with which helper g was entered: a value
    that can only be described inside g (a Vec filled by a loop of g) is translated with them."""

    def __init__(self, prog, sl, keep=()):
        self.prog, self.sl, self.keep = prog, sl, set(keep)
        self.entered = {}

    def nf(self, v, depth=8):
        if not isinstance(v, tuple) or not v or depth < 0 or v[0] in _LEAF:
            return v
        out = tuple(self.nf(x, depth) if isinstance(x, tuple) else x for x in v)
        if out[0] == 'call' and len(out) > 2 and out[1] not in self.keep:
            g = self.prog.fns.get(out[1])
            if g is not None and g.kind != 'Closure':
                iv = self.sl.inline_call(out)
                if iv is not None and iv != out:
                    m = {(g.path, i): a for i, a in enumerate(out[2]) if i < g.argc}
                    if m not in self.entered.setdefault(g.path, []):
                        self.entered[g.path].append(m)
                    return self.nf(iv, depth - 1)
        r = out
        if out[0] == 'unwrap' and len(out) == 2 and isinstance(out[1], tuple) and out[1] and isinstance(out[1][0], str):
            r = self.sl.mk_unwrap(out[1], 1)
        elif out[0] == 'field' and len(out) == 3 and isinstance(out[2], str):
            r = self.sl._field(out[1], out[2])
            # a field of which a part was assigned afterwards (`d.platform.os = ..`) is not the field of the base value
            b = out[1]
            while isinstance(b, tuple) and b and b[0] in ('unwrap', 'updated'):
                if b[0] == 'updated' and any(isinstance(pj, str) and pj.startswith('.' + out[2] + '.') for pj, _ in b[2]):
                    return ('unknown', 'field %s assigned piecewise' % out[2])
                b = b[1]
        elif out[0] == 'variant' and len(out) == 3 and isinstance(out[2], str):
            r = self.sl._variant(out[1], out[2])
        if r != out:
            return self.nf(r, depth - 1)
        return out

    def payload(self, f):
        """success payload of f in normal form"""
        return self.nf(self.sl.mk_unwrap(self.sl.local(f, 0), 1))

    def context_of(self, g):
        """the one argument binding with which g was entered, or None"""
        ms = self.entered.get(g.path, [])
        return ms[0] if len(ms) == 1 else None


# ------------------------------------------------------------------------------------------------------------------
# element-wise list construction
# ------------------------------------------------------------------------------------------------------------------
IT = iters.IT
ORDER_KEEPING = {IT + 'map', 'core::slice::<impl [T]>::iter', IT + 'collect', 'std::iter::IntoIterator::into_iter'}


def unwrapped(v):
    """peel unwrap / updated"""
    while isinstance(v, tuple) and v and v[0] in ('unwrap', 'updated'):
        v = v[1]
    return v


def _pipeline_call(name):
    return name.startswith(IT) or name in iters.COLLECTING or name in iters.SAME or iters._is_source(name)


def adapters(v):
    """names of the nested iterator calls of ONE pipeline from the outermost down to its source collection, and that source
    (with its unwrap wrappers).  The collected result of an inner pipeline is a collection of its own: `b.collect()` over
    `a.collect()?.iter()` are two pipelines, whether they are written in one function or in two"""
    out = []
    raw = v
    v = unwrapped(v)
    while v[0] == 'call' and v[2] and _pipeline_call(v[1]) and not (out and v[1] in iters.COLLECTING):
        out.append(v[1])
        raw = v[2][0]
        v = unwrapped(raw)
    return out, raw


class Seq:
    def __init__(self, kind, names, coll, elem, mapped, closure=None, why=''):
        self.kind = kind          # 'pipeline' | 'loop' | None
        self.names = names        # adapter names between the source collection and the result
        self.coll = coll          # the source collection value
        self.elem = elem          # value standing for one element of the source
        self.mapped = mapped      # value the element is turned into (with `?` applied: ('unwrap', ..))
        self.closure = closure    # the `map` closure value (pipeline)
        self.why = why
        self.one_to_one = False   # one output per input, in order


def sequence_of(prog, sl, f, v, N=None):
    """how the list value v (in the terms of function f) is made from another list.  N (a `Normal`): the normal form v was
    taken from; a list filled by a loop of a helper that N inlined is described there and translated into f's terms"""
    v0 = unwrapped(v)
    names, src = adapters(v0)
    if names and names[0] == IT + 'collect':
        s = Seq('pipeline', names, src, iters.elem_of(src), None)
        maps, x = [], v0
        for _ in names:
            if x[1] == IT + 'map' and len(x[2]) == 2:
                maps.append(x)
            x = unwrapped(x[2][0])
        s.one_to_one = set(names) <= ORDER_KEEPING and names.count(IT + 'map') == 1
        if s.one_to_one and maps:
            s.closure = maps[0][2][1]
            inner = unwrapped(src)
            al = iters.alts(sl, src)
            if (inner[0] == 'call' and inner[1] in iters.COLLECTING) or \
                    (len(al) == 1 and not al[0][2] and al[0][1] is not None and canon(al[0][1]) == canon(src)):
                # (a collected inner pipeline is looked at on its own: chain_of)
                s.mapped = sl.apply_closure(s.closure, (s.elem,))
            else:
                s.one_to_one, s.why = False, 'the pipeline does not visit each element of the source exactly once'
        else:
            s.why = 'adapters %s' % [n.split('::')[-1] for n in names]
        return s
    if v0[0] == 'call' and v0[1].startswith('std::vec::Vec::<') and v0[1].endswith(('::new', '::with_capacity')) and len(v0) > 3 and v0[3]:
        g = prog.fns.get(v0[3][0])
        s = Seq('loop', [], ('unknown', 'collection'), None, None)
        ctx = None
        if g is not None and g.path != f.path:
            ctx = N.context_of(g) if N is not None else None
            if ctx is None:
                s.why = 'the list is built in another function'
                return s
        if g is None:
            s.why = 'the list is built in another function'
            return s
        # (the element mapping keeps its calls: the case analysis enters them function by function)
        tr = (lambda x: subst(x, ctx, sl)) if ctx is not None else (lambda x: x)
        mk = [c for c in g.calls if c.bb == v0[3][1]]
        if len(mk) != 1 or not mk[0].dest or len(mk[0].dest) != 1:
            s.why = 'cannot locate the list'
            return s
        vec = mk[0].dest[0]
        if len(g.whole_defs(vec)) != 1 or g.partial_defs(vec):
            s.why = 'the list is assigned more than once'
            return s
        refs = set()
        for bi, kind, idx, how, pl in g.uses_of(vec):
            if kind == 'stmt' and how in ('refmut', 'rawptr'):
                st = g.blocks[bi]['s'][idx]
                if len(st[1]) != 1:
                    s.why = 'a mutable borrow of the list is stored'
                    return s
                refs.add(st[1][0])
        pushes = []
        for r in refs:
            for bi, kind, idx, how, pl in g.uses_of(r):
                c = g.call_at(bi) if kind == 'arg' else None
                if c is not None and not c.indirect and idx == 0 and (c.name or '').startswith('std::vec::Vec::<') and c.name.endswith('::push'):
                    pushes.append(c)
                elif kind == 'drop':
                    continue
                else:
                    s.why = 'the list is modified by something else than push'
                    return s
        if len(pushes) != 1:
            s.why = '%d push sites' % len(pushes)
            return s
        p = pushes[0]
        loops = [L for L in find_loops(g, sl) if p.bb in L.body]
        if len(loops) != 1 or not g.in_loop(p.bb):
            s.why = 'push is not inside exactly one loop'
            return s
        L = loops[0]
        if not all(g.dominates(p.bb, l) or p.bb == l for l in L.latches):
            s.why = 'an iteration can continue without pushing'
            return s
        # the list is complete only when the iterator is exhausted: the exhaustion edge is the only way from the loop to
        # every success result (a `break` / early `return Ok(..)` would not pass it)
        for site in success_sites(g):
            done = [cd for cd in conditions(g, site.bb, sl) if cd.kind == 'variant' and cd.enum == OPTION and cd.outcome == frozenset({'None'})
                    and cd.sw_bb in L.body and any(x[0] == 'call' and len(x) > 3 and x[3] == (g.path, L.header) for x in walk(cd.subject))]
            if not done:
                s.why = 'a success result is reachable without exhausting the iterator'
                return s
        cnames, csrc = adapters(L.collection) if L.collection is not None else ([], ('unknown', 'collection'))
        al = iters.alts(sl, L.collection) if L.collection is not None else []
        if not (set(cnames) <= ORDER_KEEPING and IT + 'map' not in cnames and len(al) == 1 and not al[0][2] and al[0][1] is not None):
            s.why = 'the loop does not visit each element of one collection once, in order'
            return s
        s.names, s.coll = cnames, (N.nf(tr(csrc)) if ctx is not None else csrc)
        s.elem = tr(iters.elem_of(al[0][1]))
        s.mapped = tr(sl.operand(g, p.args[1]))
        s.one_to_one = canon(unwrapped(al[0][1])) == canon(unwrapped(csrc))
        return s
    return Seq(None, names, src, None, None, why='adapters %s' % [n.split('::')[-1] for n in names])


def chain_of(prog, sl, N, f, v):
    """the passes that make the list value v: ([Seq, ..] from the last pass back to the first, the list the first starts from)"""
    out = []
    for _ in range(6):
        s = sequence_of(prog, sl, f, v, N)
        if s.kind is None:
            break
        out.append(s)
        if s.coll is None or unwrapped(s.coll)[0] == 'unknown':
            break
        v = s.coll
    return out, v


# ------------------------------------------------------------------------------------------------------------------
# values that are carried unchanged
# ------------------------------------------------------------------------------------------------------------------
# conversions between representations of the same string / path / URI (the slicer already reads as_str, to_string,
# to_path_buf, From between string types .. as the value itself); only std and uriparse items
_IDENT = re.compile(r"(::to_string_lossy|::to_str|::display|::into_owned|::to_owned|::into_string|::into_os_string|::as_os_str|"
                    r"::to_os_string|::as_path|::to_path_buf|::into_path_buf|::as_ref|::borrow|::deref|::clone|::into|::from|"
                    r"::new|::as_str|::to_string|::into_boxed_path|::into_boxed_str)$")
_IDENT_HOME = re.compile(r"^<?&?(std|core|alloc|uriparse)::")
_PAYLOAD = ('unwrap_or_default', 'unwrap_or', 'unwrap_or_else', 'unwrap', 'expect', 'unwrap_unchecked')


def is_ident_name(name):
    return bool(_IDENT.search(name) and _IDENT_HOME.match(name))


def fmt_not_plain(sl, fns):
    """formatting in the given functions that is not a plain `{}` (Display, no width / precision / flags): the value algebra
    reads `format!("{}", x)`, `format!("{:?}", x)` and `format!("{:>8}", x)` alike as a text with the hole x"""
    out = []
    for g in fns:
        for c in g.calls:
            d = c.decl or c.name or ''
            if d.startswith(('core::fmt::rt::Argument::', 'std::fmt::rt::Argument::')) and '::new_' in d and not d.endswith('::new_display'):
                out.append('%s in %s' % (d.rsplit('::', 1)[-1], g.path.rsplit('::', 1)[-1]))
            if d.startswith(('std::fmt::Arguments::', 'core::fmt::Arguments::')) and d.endswith('::new') and c.args:
                tv = sl.operand(g, c.args[0])
                if tv[0] == 'const' and isinstance(tv[1], (bytes, bytearray)):
                    b, i = tv[1], 0
                    while i < len(b):
                        n = b[i]
                        i += 1
                        if n == 0:
                            break
                        if n < 0x80:
                            i += n
                        elif n == 0x80:
                            i += 2 + (b[i] | (b[i + 1] << 8))
                        elif n == 0xC0:
                            continue
                        else:
                            out.append('a format spec in %s' % g.path.rsplit('::', 1)[-1])
                            break
                else:
                    out.append('an unreadable format template in %s' % g.path.rsplit('::', 1)[-1])
    return sorted(set(out))


def carried(sl, v, depth=0, fmt=True):
    """the value v is a representation of: identity conversions, success payloads (`?`, unwrap, unwrap_or*; the fallback
    of an Option/Result is not part of its payload) and `map` / `map_or*` with an identity conversion are peeled.
    fmt=False: a formatted text is not taken for its one hole (the caller found formatting other than plain Display)"""
    for _ in range(24):
        v = unwrapped(v)
        if v[0] == 'fmt' and not fmt:
            return v
        if v[0] == 'fmt' and len(v) > 1 and isinstance(v[1], (tuple, list)):
            # `format!("{}", x)` / `x.display().to_string()`: one hole and no literal text
            parts = [p for p in v[1] if not (isinstance(p, tuple) and p and p[0] == 'const' and p[1] == '')]
            if len(parts) == 1 and isinstance(parts[0], tuple) and parts[0] and parts[0][0] != 'const':
                v = parts[0]
                continue
            return v
        if v[0] != 'call' or not v[2]:
            return v
        fam, meth = comb(v)
        if meth in _PAYLOAD:
            v = sl.mk_unwrap(v[2][0], 1)
            continue
        if meth in ('map', 'map_or', 'map_or_else') and len(v[2]) in (2, 3):
            f = peel(v[2][-1])
            inner = sl.mk_unwrap(v[2][0], 1)
            if f[0] == 'fnitem' and is_ident_name(f[1]):
                v = inner
                continue
            if f[0] == 'closure' and depth < 4:
                r = sl.apply_closure(f, (inner,))
                if r is not None:
                    v = r
                    depth += 1
                    continue
            return v
        if len(v[2]) == 1 and is_ident_name(v[1]):
            v = v[2][0]
            continue
        return v
    return v


def mut_borrows(g):
    """[(place, Call | None)]: every place of g of which a mutable reference (or raw pointer) is taken, with the call that
    reference ends up in (through reborrows and deref_mut / as_mut_slice / iter_mut); None = stored or used otherwise"""
    out = []
    for bi, b in enumerate(g.blocks):
        for st in b['s']:
            if st[0] != '=' or not isinstance(st[2], dict):
                continue
            rv = st[2]
            if not ((rv.get('r') == 'ref' and rv.get('mut')) or rv.get('r') == 'rawptr'):
                continue
            pl = rv['p']
            if len(st[1]) != 1:
                out.append((pl, None))
                continue
            work, seen = [st[1][0]], set()
            while work:
                r = work.pop()
                if r in seen:
                    continue
                seen.add(r)
                for ubi, kind, idx, how, upl in g.uses_of(r):
                    if kind == 'arg':
                        c = g.call_at(ubi)
                        last = (c.name or c.decl or '').rsplit('::', 1)[-1] if c is not None else ''
                        if c is not None and last in ('deref_mut', 'as_mut_slice', 'as_mut', 'iter_mut', 'borrow_mut') and c.dest and len(c.dest) == 1:
                            work.append(c.dest[0])
                        else:
                            out.append((pl, c))
                    elif kind == 'stmt':
                        s2 = g.blocks[ubi]['s'][idx]
                        if how in ('m', 'c', 'refmut', 'ref', 'rawptr') and len(s2[1]) == 1:
                            work.append(s2[1][0])
                        else:
                            out.append((pl, None))
                    elif kind == 'drop':
                        continue
                    else:
                        out.append((pl, None))
    return out


def loop_total(g, L):
    """the loop is left only when its iterator is exhausted: no other edge out of the body leads to a return of g
    (`break`, early `return`); panicking exits do not produce a result"""
    ex = getattr(L, 'exhaust', None)
    if ex is None:
        return False
    rets = set(g.return_blocks())
    for b in L.body:
        for s in g.succs(b):
            if s in L.body or (b, s) == tuple(ex):
                continue
            if rets & g.reachable(s):
                return False
    return True


def settle(v):
    """an aggregate with the field assignments made to it after its construction applied (`let mut d = T { .. }; d.f = x; d`):
    a wholly assigned field takes the assigned value, a field assigned piecewise (`d.f.g = x`) is unknown.  Other values are
    returned with their unwrap / updated wrappers peeled"""
    ups = []
    while isinstance(v, tuple) and v and v[0] in ('unwrap', 'updated'):
        if v[0] == 'updated':
            ups = list(v[2]) + ups     # inner wrappers are earlier assignments
        v = v[1]
    if v[0] != 'agg' or not ups:
        return v
    fields = dict(v[3])
    for proj, uv in ups:
        parts = [x for x in str(proj).split('.') if x]
        if not parts:
            return ('unknown', 'assigned as a whole')
        fields[parts[0]] = uv if len(parts) == 1 else ('unknown', 'field %s assigned piecewise' % parts[0])
    return (v[0], v[1], v[2], tuple(fields.items())) + tuple(v[4:])


def piecewise_updates(v, _seen=None):
    """projections `.f.g..` (more than one step) of the in-place assignments recorded anywhere inside value v: the field
    lookup of the value algebra (`Slicer._field`) only honours assignments of a whole field, so a value read from `.f` of
    such a base does not reflect them"""
    out = []
    stack = [v]
    n = 0
    while stack and n < 200000:
        x = stack.pop()
        n += 1
        if not isinstance(x, tuple):
            continue
        if x and x[0] == 'updated' and len(x) > 2 and isinstance(x[2], tuple):
            for it in x[2]:
                if isinstance(it, tuple) and len(it) == 2 and isinstance(it[0], str) and it[0].count('.') > 1:
                    out.append(it[0])
        stack.extend(y for y in x if isinstance(y, tuple))
    return sorted(set(out))
