"""Helpers of C14: spelling-independent views of Option/Result-valued code and of element-wise list construction.

1. `Cases` — guarded case analysis.  For a function (or closure applied to argument values) it enumerates the leaf results

       [(guards, shape)]      shape  = ('Ok', s) | ('Err', s) | ('Some', s) | ('None',) | ('val', value) | ('from', s)
                              guards = tuple of atoms that hold whenever that result is produced

   through `match` / `if let` / `let .. else` / `?` (rows of the return place with the branch decisions dominating them),
   through the Option/Result combinators (`map`, `and_then`, `map_err`, `map_or`, `ok_or`, `filter`, `transpose`,
   `cloned` ...; closures are entered with their parameters bound to the receiver's payload) and through tail calls into
   private functions of the same crate.  All values are expressed in the terms of the entry function.  Atoms:

       ('is', subject, '+' | '-')        subject is Some/Ok/Continue ('+') or None/Err/Break ('-'); adapters that keep the
                                         polarity (`map`, `map_err`, `ok_or`, `cloned`, `Try::branch`) are peeled
       ('is', subject, frozenset(names)) any other enum
       ('bool', value, True|False)       a tested boolean; `!x`, `is_none/is_some/is_ok/is_err`, `is_some_and`,
                                         `is_relative` (== !is_absolute), `a == b` / `a != b` and private boolean helpers
                                         are brought to one form
       ('nall', frozenset(atoms))        NOT all of the atoms hold (merged `_ =>` arms, `is_some_and(..) == false`)
       ('?',)                            an alternative whose branch decision is unknown (a phi inside an expression)

   `x.map_or(Ok(d), |v| f(v))`, `match x { None => Ok(d), Some(v) => f(v) }`, `let Some(v) = x else { return Ok(d) }; f(v)`
   all give the same two cases; so does `x.map(f).transpose().map(|o| o.unwrap_or_else(|| d))`: a closure applied to a
   payload that is itself decided (`Ok(None)`, `Ok(Some(v))`) is entered with that literal, decisions on it are resolved
   (`shape_value`, `reduce_literals`), and `unwrap_or` / `unwrap_or_else` / calls through closure / fn-pointer values are cases too.
   A decision on the result of a private classifier function (every result a literal variant of a workspace enum:
   `match Kind::from(x) { Kind::A(p) => .., _ => .. }`) is replaced by the classifier's guards, its payloads by what the
   classifier put there (`expand_enums`).

2. `Normal` — normal form of a value with workspace helpers inlined and success payloads in `mk_unwrap` form (to a fixed
   point), remembering with which arguments each helper was entered.  Calls through a closure / fn-pointer value whose
   target is known are entered; a variable threaded through a loop over a literal table (`unrolled_locals`) and
   `fold` / `try_fold` over such a table have the value of the written-out sequence of steps.

3. `sequence_of` — how a list value is built from another list: an order-keeping iterator pipeline with exactly one `map`,
   or a fresh Vec that receives exactly one `push` on every way round a `for` loop (one or several push sites) which only
   stops early by returning an error (also when that loop lives in a helper that `Normal` inlined).  `chain_of` — the
   consecutive passes (each a `sequence_of`) that lead from a source list to a result list, whether written in one function
   or several.  `inplace_calls` / `inplace_sequence` — passes that rewrite the returned value's list in place through `&mut`.
   `elem_cases` — the guarded case analysis of the mapping such a pass applies to one element, for all of these forms.
"""
import re

from .lib import iters
from .lib.effects import find_loops, success_sites
from .lib.guards import conditions
from .lib.tables import phi_local_of
from .lib.value import Slicer, canon, subst, walk

POS, NEG = '+', '-'
_POSN = frozenset({'Some', 'Ok', 'Continue'})
_NEGN = frozenset({'None', 'Err', 'Break'})
OPTION, RESULT = 'std::option::Option', 'std::result::Result'
_COMB = re.compile(r'^std::(result::Result|option::Option)::<.*>::(\w+)$')
# adapters whose result is Some/Ok exactly when their receiver is
KEEP_POLARITY = {'map', 'map_err', 'ok_or', 'ok_or_else', 'inspect', 'inspect_err', 'cloned', 'copied', 'as_ref', 'as_mut',
                 'as_deref', 'as_deref_mut', 'ok', 'err_into'}
CALL_TRAITS = ('std::ops::Fn::call', 'std::ops::FnMut::call_mut', 'std::ops::FnOnce::call_once')
PAYLOAD_SAME = {'cloned', 'copied', 'as_ref', 'as_mut', 'as_deref', 'as_deref_mut', 'inspect', 'inspect_err'}


def peel(v):
    while isinstance(v, tuple) and v and v[0] == 'updated':
        v = v[1]
    return v


def polarity(names):
    names = frozenset(names)
    if names and names <= _POSN:
        return POS
    if names and names <= _NEGN:
        return NEG
    return None


def comb(v):
    """(family 'R'|'O', method) when v is a call of an Option/Result method"""
    if isinstance(v, tuple) and v and v[0] == 'call':
        m = _COMB.match(v[1])
        if m:
            return ('R' if m.group(1).startswith('result') else 'O'), m.group(2)
    return None, None


def core(v):
    """the value whose Some/Ok-ness decides that of v"""
    for _ in range(12):
        v = peel(v)
        if v[0] == 'call' and v[2]:
            if v[1] == 'std::ops::Try::branch':
                v = v[2][0]
                continue
            fam, meth = comb(v)
            if meth in KEEP_POLARITY:
                v = v[2][0]
                continue
        break
    return v


def shape_vals(sh):
    """leaf values of a shape"""
    if sh[0] == 'val':
        yield sh[1]
    elif sh[0] in ('Ok', 'Err', 'Some', 'from'):
        yield from shape_vals(sh[1])


def shape_sig(sh):
    if sh[0] == 'val':
        return '_'
    if sh[0] == 'None':
        return 'None'
    if sh[0] == 'from':
        return shape_sig(sh[1])
    return '%s(%s)' % (sh[0], shape_sig(sh[1]))


def shape_value(sh):
    """the value a fully decided shape stands for (`Ok(Some(x))` as nested Option / Result aggregates), so that a closure can
    be applied to a payload that is itself an Option / Result (`r.map(|o| o.unwrap_or_else(..))` on `Ok(None)`); None
    when the shape carries an error conversion"""
    if sh[0] == 'val':
        return sh[1]
    if sh[0] == 'None':
        return ('agg', OPTION, 'None', ())
    if sh[0] in ('Some', 'Ok', 'Err'):
        inner = shape_value(sh[1])
        if inner is None:
            return None
        return ('agg', OPTION if sh[0] == 'Some' else RESULT, sh[0], (('0', inner),))
    return None


def reduce_literals(v):
    """`unwrap(Some(x))` / `unwrap(Ok(x))` -> x, anywhere in v (a closure body instantiated with a decided payload)"""
    if not isinstance(v, tuple) or not v or v[0] in ('const', 'param', 'fnitem', 'constitem', 'unknown', 'closure_env', 'upvar'):
        return v
    out = tuple(reduce_literals(x) if isinstance(x, tuple) else x for x in v)
    if out[0] == 'unwrap' and len(out) == 2 and isinstance(out[1], tuple) and out[1] and out[1][0] == 'agg' and out[1][1] in (OPTION, RESULT) and \
            out[1][2] in ('Some', 'Ok') and len(out[1][3]) == 1:
        return out[1][3][0][1]
    return out if out != v else v


def mentions(sh, cv):
    """some leaf of the shape contains a sub-value whose canonical form is cv"""
    return any(canon(x) == cv for leaf in shape_vals(sh) for x in walk(leaf))


class Cases:
    def __init__(self, prog, sl, entry, stop=()):
        self.prog, self.sl = prog, sl
        self.entry = entry
        self.stop = set(stop)
        # closure bodies are read with symbolic captures, bound to the captured values of the closure *value* at hand
        self.sym = Slicer(prog)
        self.sym.symbolic_upvars = True
        self._rows = {}

    # ---- which calls are looked into -----------------------------------------------------------------------
    def descend(self, g):
        return g is not None and g.kind != 'Closure' and g.path not in self.stop and g.crate == self.entry.crate and \
            (g.vis != 'public' or g.path == self.entry.path)

    # ---- atoms -----------------------------------------------------------------------------------------------
    def apply(self, f, args):
        r = self.sl.apply_closure(f, tuple(args)) if isinstance(f, tuple) and f and f[0] in ('closure', 'fnitem') else None
        return r if r is not None else ('icall', f, tuple(args), None)

    def is_atom(self, subj, names):
        pol = polarity(names)
        lit = core(subj) if pol is not None else peel(subj)
        if lit[0] == 'agg' and lit[1] in (OPTION, RESULT) and lit[2] in _POSN | _NEGN:
            # a decision on a literal `Some(..)` / `None` / `Ok(..)` / `Err(..)` (a closure applied to a decided payload)
            return ('true',) if lit[2] in names else ('false',)
        if pol is not None:
            return ('is', canon(core(subj)), pol)
        return ('is', canon(peel(subj)), frozenset(names))

    def bool_atoms(self, v, oc, depth=0):
        """conjunction of atoms equivalent to `v == oc`"""
        v = peel(v)
        while v[0] == 'un' and v[1] == 'Not':
            v, oc = peel(v[2]), (not oc)
        if v[0] == 'const' and isinstance(v[1], bool):
            return [] if v[1] == oc else [('false',)]
        if v[0] == 'call' and v[2] and depth < 6:
            fam, meth = comb(v)
            if meth in ('is_none', 'is_err', 'is_some', 'is_ok'):
                a = self.is_atom(v[2][0], (_NEGN if oc else _POSN) if meth in ('is_none', 'is_err') else (_POSN if oc else _NEGN))
                return [] if a == ('true',) else [a]
            if meth in ('is_some_and', 'is_ok_and') and len(v[2]) == 2:
                pos = [('is', canon(core(v[2][0])), POS)] + self.bool_atoms(self.apply(v[2][1], (self.sl.mk_unwrap(v[2][0]),)), True, depth + 1)
                return pos if oc else [('nall', frozenset(pos))]
            if v[1] == 'std::path::Path::is_relative':
                return [('bool', ('call', 'std::path::Path::is_absolute', tuple(canon(a) for a in v[2])), not oc)]
            last = v[1].rsplit('::', 1)[-1]
            if last in ('eq', 'ne') and len(v[2]) == 2 and 'PartialEq' in v[1]:
                return [('bool', ('eq', canon(peel(v[2][0])), canon(peel(v[2][1]))), oc if last == 'eq' else (not oc))]
            g = self.prog.fns.get(v[1])
            if self.descend(g):
                iv = self.sl.inline_call(v)
                if iv is not None and iv != v and peel(iv)[0] != 'phi':
                    return self.bool_atoms(iv, oc, depth + 1)
        if v[0] == 'bin' and v[1] in ('Eq', 'Ne'):
            return [('bool', ('eq', canon(peel(v[2])), canon(peel(v[3]))), oc if v[1] == 'Eq' else (not oc))]
        return [('bool', canon(v), oc)]

    def cond_atoms(self, cd, m):
        if cd.kind == 'variant':
            subj = cd.subject if cd.subject is not None else cd.value
            return [self.is_atom(subst(subj, m, self.sl) if m else subj, cd.outcome)]
        if cd.kind == 'bool':
            return self.bool_atoms(subst(cd.value, m, self.sl) if m else cd.value, cd.outcome)
        return [('int', canon(subst(cd.value, m, self.sl) if m else cd.value), cd.outcome)]

    # ---- rows of a function: definitions of the return place with their branch decisions ------------------------
    def _def_rows(self, fn, local, depth=0):
        out = []
        for d in fn.whole_defs(local):
            kind, bi = d[0], d[1]
            conds = conditions(fn, bi, self.sym)
            if kind == 'stmt':
                rv = d[3]
                if rv['r'] == 'use' and depth < 3:
                    # `let r = match .. { .. }; r`: the rows are those of r
                    l2 = phi_local_of(fn, rv['o'])
                    if l2 is not None and l2 != local:
                        for b2, v2, c2 in self._def_rows(fn, l2, depth + 1):
                            have = {(c.sw_bb, c.target) for c in c2}
                            out.append((b2, v2, c2 + [c for c in conds if (c.sw_bb, c.target) not in have]))
                        continue
                v = self.sym._rvalue(fn, rv, set(), 0, None)
            elif kind == 'call':
                v = self.sym._call_value(fn, d[3], set(), 0)
            else:
                continue
            out.append((bi, v, conds))
        return out

    @staticmethod
    def _avoids(fn, bb, conds):
        """every path entry -> bb takes, at the switch of at least one of conds, another edge than that cond's"""
        forced = {c.sw_bb: c.target for c in conds}
        seen, work = set(), [0]
        while work:
            b = work.pop()
            if b in seen:
                continue
            seen.add(b)
            if b == bb:
                return False
            if b in forced:
                work.append(forced[b])
            else:
                work.extend(fn.succs(b))
        return True

    def rows(self, fn):
        """[(bb, value, conds, [conds of a sibling row that cannot all hold here])]"""
        if fn.path not in self._rows:
            rs = self._def_rows(fn, 0)
            out = []
            for i, (bi, v, conds) in enumerate(rs):
                mine = {(c.sw_bb, c.target) for c in conds}
                extra = []
                decided = {c.sw_bb for c in conds}
                for j, (bj, vj, cj) in enumerate(rs):
                    # (only the decisions that can lie on a way to this row: what a sibling decides afterwards, e.g. the
                    #  outcome of the `?` inside its arm, says nothing about the rows it shares a `_ =>` arm with)
                    diff = [c for c in cj if (c.sw_bb, c.target) not in mine and (c.sw_bb == bi or bi in fn.reachable(c.sw_bb))]
                    # (a row that already took another edge at one of those switches carries the direct negation)
                    if i == j or not diff or any(c.sw_bb in decided or c.kind not in ('variant', 'bool') for c in diff):
                        continue
                    if self._avoids(fn, bi, diff) and diff not in extra:
                        extra.append(diff)
                out.append((bi, v, conds, extra))
            self._rows[fn.path] = out
        return self._rows[fn.path]

    # ---- cases -------------------------------------------------------------------------------------------------
    @staticmethod
    def _uniq(atoms):
        out = []
        for a in atoms:
            if a not in out:
                out.append(a)
        return tuple(out)

    def fn_cases(self, g, m=None, stack=()):
        m = m or {}
        if g.path in stack or len(stack) > 12:
            return [((('?',),), ('val', ('recursion', g.path)))]
        out = []
        for bi, v, conds, extra in self.rows(g):
            atoms = []
            for cd in conds:
                atoms.extend(self.cond_atoms(cd, m))
            for diff in extra:
                na = [a for cd in diff for a in self.cond_atoms(cd, m)]
                if ('false',) in na:
                    continue        # (one of them is known not to hold)
                na = [a for a in na if a != ('true',)]
                atoms.append(('nall', frozenset(na)) if na else ('false',))
            if ('false',) in atoms:
                continue            # (this row is not reached: a decision on a literal went the other way)
            atoms = [a for a in atoms if a != ('true',)]
            vv = reduce_literals(subst(v, m, self.sl)) if m else v
            for gs, sh in self.value_cases(vv, m, stack + (g.path,)):
                out.append((self._uniq(tuple(atoms) + tuple(gs)), sh))
        return out if stack else expand_enums(self, out)

    def call_cases(self, f, args, m=None, stack=()):
        """cases of calling closure / fn item value f with argument values"""
        m = m or {}
        f = peel(f)
        if f[0] == 'closure':
            g = self.prog.fns.get(f[1])
            if g is not None:
                m2 = dict(m)
                for i, a in enumerate(args):
                    m2[(g.path, 1 + i)] = a
                for i, uv in enumerate(f[2]):
                    m2[('upvar', g.path, i)] = uv
                return self.fn_cases(g, m2, stack)
        if f[0] == 'fnitem':
            last = f[1].rsplit('::', 1)[-1]
            if last in ('Some', 'Ok', 'Err') and f[1].startswith(('std::', 'core::')) and len(args) == 1:
                return [((), (last, ('val', args[0])))]
            g = self.prog.fns.get(f[1])
            if self.descend(g):
                m2 = dict(m)
                for i, a in enumerate(args):
                    m2[(g.path, i)] = a
                return self.fn_cases(g, m2, stack)
        return [((), ('val', self.apply(f, args)))]

    def err_payload(self, o):
        o = peel(o)
        if o[0] == 'call' and o[2]:
            if o[1] == 'std::ops::Try::branch':
                return self.err_payload(o[2][0])
            fam, meth = comb(o)
            if meth == 'map_err' and len(o[2]) == 2:
                return self.apply(o[2][1], (self.err_payload(o[2][0]),))
            if meth == 'ok_or' and len(o[2]) == 2:
                return o[2][1]
            if meth == 'ok_or_else' and len(o[2]) == 2:
                return self.apply(o[2][1], ())
            if meth in PAYLOAD_SAME:
                return self.err_payload(o[2][0])
        return ('unwrap_err', o)

    def split(self, cases, fam):
        """opaque results become a positive and a negative case"""
        out = []
        for g, sh in cases:
            if sh[0] == 'val':
                o = sh[1]
                subj = canon(core(o))
                out.append((tuple(g) + (('is', subj, POS),), ('Some' if fam == 'O' else 'Ok', ('val', self.sl.mk_unwrap(o)))))
                out.append((tuple(g) + (('is', subj, NEG),), ('None',) if fam == 'O' else ('Err', ('val', self.err_payload(o)))))
            else:
                out.append((tuple(g), sh))
        return out

    def value_cases(self, v, m, stack=(), depth=0):
        v = peel(v)
        k = v[0]
        if depth > 24:
            return [((), ('val', v))]
        if k == 'agg' and v[1] in (OPTION, RESULT) and v[2] in ('Ok', 'Err', 'Some', 'None'):
            if v[2] == 'None':
                return [((), ('None',))]
            payload = dict(v[3]).get('0', ('unknown', 'payload'))
            pp = peel(payload)
            if pp[0] == 'agg' and pp[1] in (OPTION, RESULT):
                return [(g, (v[2], sh)) for g, sh in self.value_cases(pp, m, stack, depth + 1)]
            return [((), (v[2], ('val', payload)))]
        if k == 'phi':
            out = []
            for x in v[1]:
                for g, sh in self.value_cases(x, m, stack, depth + 1):
                    out.append(((('?',),) + tuple(g), sh))
            return out
        if k == 'icall' and len(v) > 2 and isinstance(v[1], tuple) and peel(v[1])[0] in ('closure', 'fnitem'):
            # a call through a function pointer / closure variable whose target is known
            return self.call_cases(v[1], list(v[2]), m, stack)
        if k != 'call':
            return [((), ('val', v))]
        name, args = v[1], v[2]
        if name.endswith('FromResidual::from_residual') and args and peel(args[0])[0] == 'residual':
            out = []
            for g, sh in self.split(self.value_cases(peel(args[0])[1], m, stack, depth + 1), 'R'):
                if sh[0] == 'Err':
                    out.append((g, ('Err', ('from', sh[1]))))
                elif sh[0] == 'None':
                    out.append((g, sh))
            return out
        if name in CALL_TRAITS and len(args) == 2 and peel(args[0])[0] in ('closure', 'fnitem') and peel(args[1])[0] == 'tuple':
            # `f(x)` on a closure value held in a variable / table
            return self.call_cases(args[0], list(peel(args[1])[1]), m, stack)
        g = self.prog.fns.get(name)
        if self.descend(g) and g.path not in stack:
            m2 = dict(m)
            for i, a in enumerate(args):
                if i < g.argc:
                    m2[(g.path, i)] = a
            return self.fn_cases(g, m2, stack)
        fam, meth = comb(v)
        if meth is None or not args:
            return [((), ('val', v))]
        posn = 'Some' if fam == 'O' else 'Ok'
        recv = lambda: self.value_cases(args[0], m, stack, depth + 1)
        is_pos = lambda sh: sh[0] in ('Ok', 'Some')
        # (a payload that is itself decided -- `Ok(Some(x))`, `Ok(None)` -- is handed on as the literal it is)
        val_of = lambda sh: shape_value(sh[1])
        out = []
        if meth in PAYLOAD_SAME:
            return recv()
        if meth == 'map_err' and len(args) == 2:
            for gd, sh in recv():
                if sh[0] == 'val':
                    out.append((gd, ('val', ('call', name, (sh[1], args[1]), v[3] if len(v) > 3 else None))))
                elif sh[0] == 'Err':
                    e = val_of(sh)
                    if e is None:
                        out.append((gd, sh))
                    else:
                        for g2, s2 in self.call_cases(args[1], [e], m, stack):
                            out.append((tuple(gd) + tuple(g2), ('Err', s2)))
                else:
                    out.append((gd, sh))
            return out
        if meth in ('map', 'and_then') and len(args) == 2:
            for gd, sh in self.split(recv(), fam):
                p = val_of(sh) if is_pos(sh) else None
                if is_pos(sh) and p is not None:
                    for g2, s2 in self.call_cases(args[1], [p], m, stack):
                        out.append((tuple(gd) + tuple(g2), (posn, s2) if meth == 'map' else s2))
                elif is_pos(sh):
                    out.append((tuple(gd) + (('?',),), ('val', v)))
                else:
                    out.append((gd, sh))
            return out
        if meth in ('map_or', 'map_or_else') and len(args) == 3:
            for gd, sh in self.split(recv(), fam):
                p = val_of(sh) if is_pos(sh) else None
                if is_pos(sh) and p is not None:
                    for g2, s2 in self.call_cases(args[2], [p], m, stack):
                        out.append((tuple(gd) + tuple(g2), s2))
                elif is_pos(sh):
                    out.append((tuple(gd) + (('?',),), ('val', v)))
                elif meth == 'map_or':
                    for g2, s2 in self.value_cases(args[1], m, stack, depth + 1):
                        out.append((tuple(gd) + tuple(g2), s2))
                else:
                    e = [val_of(sh)] if sh[0] == 'Err' and val_of(sh) is not None else []
                    for g2, s2 in self.call_cases(args[1], e, m, stack):
                        out.append((tuple(gd) + tuple(g2), s2))
            return out
        if meth in ('ok_or', 'ok_or_else') and fam == 'O' and len(args) == 2:
            for gd, sh in self.split(recv(), 'O'):
                if sh[0] == 'Some':
                    out.append((gd, ('Ok', sh[1])))
                elif meth == 'ok_or':
                    out.append((gd, ('Err', ('val', args[1]))))
                else:
                    for g2, s2 in self.call_cases(args[1], [], m, stack):
                        out.append((tuple(gd) + tuple(g2), ('Err', s2)))
            return out
        if meth in ('unwrap_or', 'unwrap_or_else', 'unwrap_or_default'):
            # the payload, or the fallback: `opt.map_or(d, f)` == `opt.map(f).unwrap_or(d)`, `r.map(|o| o.unwrap_or_else(|| d))`
            for gd, sh in self.split(recv(), fam):
                if is_pos(sh):
                    out.append((gd, sh[1]))
                elif meth == 'unwrap_or' and len(args) == 2:
                    for g2, s2 in self.value_cases(args[1], m, stack, depth + 1):
                        out.append((tuple(gd) + tuple(g2), s2))
                elif meth == 'unwrap_or_else' and len(args) == 2:
                    e = [val_of(sh)] if sh[0] == 'Err' and val_of(sh) is not None else ([('unknown', 'error')] if fam == 'R' else [])
                    for g2, s2 in self.call_cases(args[1], e, m, stack):
                        out.append((tuple(gd) + tuple(g2), s2))
                else:
                    out.append((gd, ('val', ('unknown', 'default'))))
            return out
        if meth == 'ok' and fam == 'R':
            for gd, sh in self.split(recv(), 'R'):
                out.append((gd, ('Some', sh[1]) if sh[0] == 'Ok' else ('None',)))
            return out
        if meth == 'filter' and fam == 'O' and len(args) == 2:
            for gd, sh in self.split(recv(), 'O'):
                p = val_of(sh) if sh[0] == 'Some' else None
                if sh[0] != 'Some':
                    out.append((gd, sh))
                elif p is None:
                    out.append((tuple(gd) + (('?',),), ('val', v)))
                else:
                    for g2, s2 in self.call_cases(args[1], [p], m, stack):
                        if s2[0] != 'val':
                            out.append((tuple(gd) + tuple(g2) + (('?',),), ('val', v)))
                            continue
                        out.append((tuple(gd) + tuple(g2) + tuple(self.bool_atoms(s2[1], True)), sh))
                        out.append((tuple(gd) + tuple(g2) + tuple(self.bool_atoms(s2[1], False)), ('None',)))
            return out
        if meth == 'transpose':
            outer, inner = ('Some', 'R') if fam == 'O' else ('Ok', 'O')
            for gd, sh in self.split(recv(), fam):
                if sh[0] == 'None' and fam == 'O':
                    out.append((gd, ('Ok', ('None',))))
                elif sh[0] == 'Err' and fam == 'R':
                    out.append((gd, ('Some', sh)))
                elif sh[0] == outer:
                    for g2, s2 in self.split([(gd, sh[1])], inner):
                        if fam == 'O':
                            out.append((g2, ('Ok', ('Some', s2[1])) if s2[0] == 'Ok' else s2))
                        else:
                            out.append((g2, ('Some', ('Ok', s2[1])) if s2[0] == 'Some' else s2))
                else:
                    out.append((gd, sh))
            return out
        return [((), ('val', v))]


# ------------------------------------------------------------------------------------------------------------------
# normal form with remembered call contexts
# ------------------------------------------------------------------------------------------------------------------
_LEAF = ('const', 'param', 'fnitem', 'constitem', 'unknown', 'closure_env', 'upvar')


class Normal:
    """Normal form of a value of function f: calls to workspace functions (not in `keep`) are replaced by what they return
    and success payloads are brought to the `mk_unwrap` form until nothing changes, so that it does not matter in which
    function (entry point, private helper, closure of an and_then / map) a piece of the computation is written.
    `entered[g]` remembers the argument values (in the entry function's terms) with which helper g was entered: a value
    that can only be described inside g (a Vec filled by a loop of g) is translated with them."""

    def __init__(self, prog, sl, keep=()):
        self.prog, self.sl, self.keep = prog, sl, set(keep)
        self.entered = {}
        self._ret = {}

    def returned(self, g):
        """what g returns; a variable threaded through a loop over a literal table (`for p in [p1, p2] { cur = p(&cur)?; }`)
        has the value the unrolled loop leaves in it (unrolled_locals), which the value algebra alone reads as a cycle"""
        if g.path not in self._ret:
            seeds = unrolled_locals(self.prog, self.sl, g)
            if seeds:
                slx = Slicer(self.prog)
                slx._cache.update(seeds)
                self._ret[g.path] = slx.local(g, 0)
            else:
                self._ret[g.path] = self.sl.local(g, 0)
        return self._ret[g.path]

    def inline(self, v):
        """Slicer.inline_call on `returned`"""
        g = self.prog.fns.get(v[1])
        if g is None or g.kind == 'Closure':
            return None
        return subst(self.returned(g), {(g.path, i): a for i, a in enumerate(v[2]) if i < g.argc}, self.sl)

    def fold(self, out):
        """`table.into_iter().try_fold(init, |acc, x| f(acc, x))` / `.fold(..)` over a literal table, unrolled: the same
        value as the loop `let mut acc = init; for x in table { acc = f(acc, x)?; }` (unrolled_locals)"""
        it, init, f = out[2]
        names, src = adapters(it)
        al = iters.alts(self.sl, it)
        if not (set(names) <= UNROLL_KEEPS and al and len(al) <= 12 and all(fo is None and not fl for e, fo, fl in al)):
            return None
        acc = init
        for e, fo, fl in al:
            r = self.sl.apply_closure(f, (acc, e))
            if r is None:
                return None
            acc = self.nf(r if out[1] == IT + 'fold' else self.sl.mk_unwrap(r, 1), 4)
        if out[1] == IT + 'fold':
            return acc
        site = out[3] if len(out) > 3 else None
        c = self.prog.fns[site[0]].call_at(site[1]) if site and site[0] in self.prog.fns else None
        opt = c is not None and (c.dty or '').startswith(('std::option::Option<', 'core::option::Option<'))
        return ('agg', OPTION if opt else RESULT, 'Some' if opt else 'Ok', (('0', acc),))

    def nf(self, v, depth=8):
        if not isinstance(v, tuple) or not v or depth < 0 or v[0] in _LEAF:
            return v
        out = tuple(self.nf(x, depth) if isinstance(x, tuple) else x for x in v)
        if out[0] == 'call' and len(out) > 2 and out[1] in CALL_TRAITS and len(out[2]) == 2 and peel(out[2][0])[0] in ('closure', 'fnitem') and \
                peel(out[2][1])[0] == 'tuple':
            # `f(x)` on a closure value held in a variable / taken from a table
            r = self.sl.apply_closure(peel(out[2][0]), tuple(peel(out[2][1])[1]))
            if r is not None:
                return self.nf(r, depth - 1)
        if out[0] == 'icall' and len(out) > 2 and isinstance(out[1], tuple) and peel(out[1])[0] in ('closure', 'fnitem'):
            # a call through a function pointer / closure variable whose target is known (an entry of a table of phases)
            f = peel(out[1])
            if f[0] == 'fnitem':
                return self.nf(('call', f[1], tuple(out[2]), out[3] if len(out) > 3 else None), depth - 1)
            r = self.sl.apply_closure(f, tuple(out[2]))
            if r is not None:
                return self.nf(r, depth - 1)
        if out[0] == 'call' and len(out) > 2 and out[1] in (IT + 'fold', IT + 'try_fold') and len(out[2]) == 3 and peel(out[2][2])[0] in ('closure', 'fnitem'):
            r = self.fold(out)
            if r is not None:
                return self.nf(r, depth - 1)
        if out[0] == 'call' and len(out) > 2 and out[1] not in self.keep:
            g = self.prog.fns.get(out[1])
            if g is not None and g.kind != 'Closure':
                iv = self.inline(out)
                if iv is not None and iv != out:
                    m = {(g.path, i): a for i, a in enumerate(out[2]) if i < g.argc}
                    if m not in self.entered.setdefault(g.path, []):
                        self.entered[g.path].append(m)
                    return self.nf(iv, depth - 1)
        r = out
        if out[0] == 'unwrap' and len(out) == 2 and isinstance(out[1], tuple) and out[1] and isinstance(out[1][0], str):
            r = self.sl.mk_unwrap(out[1], 1)
        elif out[0] == 'field' and len(out) == 3 and isinstance(out[2], str):
            r = self.sl._field(out[1], out[2])
            # a field of which a part was assigned afterwards (`d.platform.os = ..`) is not the field of the base value
            b = out[1]
            while isinstance(b, tuple) and b and b[0] in ('unwrap', 'updated'):
                if b[0] == 'updated' and any(isinstance(pj, str) and pj.startswith('.' + out[2] + '.') for pj, _ in b[2]):
                    return ('unknown', 'field %s assigned piecewise' % out[2])
                b = b[1]
        elif out[0] == 'variant' and len(out) == 3 and isinstance(out[2], str):
            r = self.sl._variant(out[1], out[2])
        if r != out:
            return self.nf(r, depth - 1)
        return out

    def payload(self, f):
        """success payload of f in normal form"""
        return self.nf(self.sl.mk_unwrap(self.returned(f), 1))

    def context_of(self, g):
        """the one argument binding with which g was entered, or None"""
        ms = self.entered.get(g.path, [])
        return ms[0] if len(ms) == 1 else None


# ------------------------------------------------------------------------------------------------------------------
# element-wise list construction
# ------------------------------------------------------------------------------------------------------------------
IT = iters.IT
ORDER_KEEPING = {IT + 'map', 'core::slice::<impl [T]>::iter', IT + 'collect', 'std::iter::IntoIterator::into_iter'}


def unwrapped(v):
    """peel unwrap / updated"""
    while isinstance(v, tuple) and v and v[0] in ('unwrap', 'updated'):
        v = v[1]
    return v


def _pipeline_call(name):
    return name.startswith(IT) or name in iters.COLLECTING or name in iters.SAME or iters._is_source(name)


def adapters(v):
    """names of the nested iterator calls of ONE pipeline from the outermost down to its source collection, and that source
    (with its unwrap wrappers).  The collected result of an inner pipeline is a collection of its own: `b.collect()` over
    `a.collect()?.iter()` are two pipelines, whether they are written in one function or in two"""
    out = []
    raw = v
    v = unwrapped(v)
    while v[0] == 'call' and v[2] and _pipeline_call(v[1]) and not (out and v[1] in iters.COLLECTING):
        out.append(v[1])
        raw = v[2][0]
        v = unwrapped(raw)
    return out, raw


class Seq:
    def __init__(self, kind, names, coll, elem, mapped, closure=None, why=''):
        self.kind = kind          # 'pipeline' | 'loop' | None
        self.names = names        # adapter names between the source collection and the result
        self.coll = coll          # the source collection value
        self.elem = elem          # value standing for one element of the source
        self.mapped = mapped      # value the element is turned into (with `?` applied: ('unwrap', ..))
        self.closure = closure    # the `map` closure value (pipeline)
        self.why = why
        self.one_to_one = False   # one output per input, in order


def sequence_of(prog, sl, f, v, N=None):
    """how the list value v (in the terms of function f) is made from another list.  N (a `Normal`): the normal form v was
    taken from; a list filled by a loop of a helper that N inlined is described there and translated into f's terms"""
    v0 = unwrapped(v)
    names, src = adapters(v0)
    if names and names[0] == IT + 'collect':
        s = Seq('pipeline', names, src, iters.elem_of(src), None)
        maps, x = [], v0
        for _ in names:
            if x[1] == IT + 'map' and len(x[2]) == 2:
                maps.append(x)
            x = unwrapped(x[2][0])
        s.one_to_one = set(names) <= ORDER_KEEPING and names.count(IT + 'map') == 1
        if s.one_to_one and maps:
            s.closure = maps[0][2][1]
            inner = unwrapped(src)
            al = iters.alts(sl, src)
            if (inner[0] == 'call' and inner[1] in iters.COLLECTING) or \
                    (len(al) == 1 and not al[0][2] and al[0][1] is not None and canon(al[0][1]) == canon(src)):
                # (a collected inner pipeline is looked at on its own: chain_of)
                s.mapped = sl.apply_closure(s.closure, (s.elem,))
            else:
                s.one_to_one, s.why = False, 'the pipeline does not visit each element of the source exactly once'
        else:
            s.why = 'adapters %s' % [n.split('::')[-1] for n in names]
        return s
    if v0[0] == 'call' and v0[1].startswith('std::vec::Vec::<') and v0[1].endswith(('::new', '::with_capacity')) and len(v0) > 3 and v0[3]:
        g = prog.fns.get(v0[3][0])
        s = Seq('loop', [], ('unknown', 'collection'), None, None)
        ctx = None
        if g is not None and g.path != f.path:
            ctx = N.context_of(g) if N is not None else None
            if ctx is None:
                s.why = 'the list is built in another function'
                return s
        if g is None:
            s.why = 'the list is built in another function'
            return s
        # (the element mapping keeps its calls: the case analysis enters them function by function)
        tr = (lambda x: subst(x, ctx, sl)) if ctx is not None else (lambda x: x)
        mk = [c for c in g.calls if c.bb == v0[3][1]]
        if len(mk) != 1 or not mk[0].dest or len(mk[0].dest) != 1:
            s.why = 'cannot locate the list'
            return s
        vec = mk[0].dest[0]
        if len(g.whole_defs(vec)) != 1 or g.partial_defs(vec):
            s.why = 'the list is assigned more than once'
            return s
        refs = set()
        for bi, kind, idx, how, pl in g.uses_of(vec):
            if kind == 'stmt' and how in ('refmut', 'rawptr'):
                st = g.blocks[bi]['s'][idx]
                if len(st[1]) != 1:
                    s.why = 'a mutable borrow of the list is stored'
                    return s
                refs.add(st[1][0])
        pushes = []
        for r in refs:
            for bi, kind, idx, how, pl in g.uses_of(r):
                c = g.call_at(bi) if kind == 'arg' else None
                if c is not None and not c.indirect and idx == 0 and (c.name or '').startswith('std::vec::Vec::<') and c.name.endswith('::push'):
                    pushes.append(c)
                elif kind == 'drop':
                    continue
                else:
                    s.why = 'the list is modified by something else than push'
                    return s
        if not pushes:
            s.why = '0 push sites'
            return s
        # every push site lies in one and the same loop (and in no loop nested in it) ...
        all_loops = find_loops(g, sl)
        L = None
        for p in pushes:
            loops = [X for X in all_loops if p.bb in X.body]
            if len(loops) != 1 or not g.in_loop(p.bb) or (L is not None and loops[0].header != L.header):
                s.why = 'push is not inside exactly one loop' if len(pushes) == 1 else '%d push sites, not in one loop' % len(pushes)
                return s
            L = loops[0]
        # ... and every iteration that goes on to the next element has pushed exactly once: on every way from the loop head
        # to a back edge the number of push sites passed is 1 (`if c { v.push(a); continue; } v.push(b)` and
        # `v.push(if c { a } else { b })` alike; an iteration that pushes nothing or twice is not one-to-one)
        lo, hi = push_counts(g, L, {p.bb for p in pushes})
        if any(lo.get(l) != 1 or hi.get(l) != 1 for l in L.latches):
            s.why = 'an iteration can continue without pushing' if any(lo.get(l, 0) < 1 for l in L.latches) else 'an iteration can push more than once'
            return s
        p = pushes[0]
        # the list is complete only when the iterator is exhausted: the exhaustion edge is the only way from the loop to
        # every success result (a `break` / early `return Ok(..)` would not pass it)
        for site in success_sites(g):
            done = [cd for cd in conditions(g, site.bb, sl) if cd.kind == 'variant' and cd.enum == OPTION and cd.outcome == frozenset({'None'})
                    and cd.sw_bb in L.body and any(x[0] == 'call' and len(x) > 3 and x[3] == (g.path, L.header) for x in walk(cd.subject))]
            if not done:
                s.why = 'a success result is reachable without exhausting the iterator'
                return s
        cnames, csrc = adapters(L.collection) if L.collection is not None else ([], ('unknown', 'collection'))
        al = iters.alts(sl, L.collection) if L.collection is not None else []
        if not (set(cnames) <= ORDER_KEEPING and IT + 'map' not in cnames and len(al) == 1 and not al[0][2] and al[0][1] is not None):
            s.why = 'the loop does not visit each element of one collection once, in order'
            return s
        s.names, s.coll = cnames, (N.nf(tr(csrc)) if ctx is not None else csrc)
        s.elem = tr(iters.elem_of(al[0][1]))
        s.mapped = tr(sl.operand(g, p.args[1]))
        if len(pushes) > 1:
            s.mapped = ('phi', tuple(tr(sl.operand(g, q.args[1])) for q in pushes))
        # the element mapping as guarded alternatives (elem_cases): each push site with the decisions of this iteration that
        # lead to it, and the results with which the function leaves the loop other than through exhaustion
        s.loop_fn, s.loop, s.ctx = g, L, ctx
        s.pushed = [(q.bb, sl.operand(g, q.args[1]), q.args[1]) for q in pushes]
        s.one_to_one = canon(unwrapped(al[0][1])) == canon(unwrapped(csrc))
        return s
    return Seq(None, names, src, None, None, why='adapters %s' % [n.split('::')[-1] for n in names])


# adapters between a literal table and its consumer that neither drop nor reorder elements
UNROLL_KEEPS = {'core::slice::<impl [T]>::iter', 'std::iter::IntoIterator::into_iter', IT + 'copied', IT + 'cloned', IT + 'by_ref', IT + 'fuse',
                IT + 'peekable'}


def unrolled_locals(prog, sl, f):
    """{(f.path, local): value}: variables that a loop of f over a LITERAL table threads through its iterations
    (`let mut cur = init; for step in [s1, s2] { cur = step(&cur)?; }`), with the value they have when the loop is left
    through the exhaustion of the iterator -- what `[s1, s2].into_iter().try_fold(init, |cur, step| step(&cur))` and the
    written-out `s2(&s1(&init)?)?` compute.  Decided only when nothing else is carried from one iteration to the next:
    the variable is assigned as a whole at most once per iteration (an iteration that does not assign keeps the value), is
    never borrowed mutably or assigned in part, the iterator is advanced by the loop alone and visits the table in order."""
    out = {}
    if not any(c.decl == 'std::iter::Iterator::next' for c in f.calls):
        return out
    loops = find_loops(f, sl)
    for L in loops:
        if L.collection is None or getattr(L, 'exhaust', None) is None or not L.next_call.dest or len(L.next_call.dest) != 1:
            continue
        if any(X.header != L.header and (L.header in X.body or X.header in L.body) for X in loops):
            continue
        names, src = adapters(L.collection)
        al = iters.alts(sl, L.collection)
        if not (set(names) <= UNROLL_KEEPS and al and len(al) <= 12 and all(fo is None and not fl for e, fo, fl in al)):
            continue
        # a result other than an error is produced only after the iterator is exhausted (no `break` / early `return Ok(..)`)
        early = set()
        for b in L.body:
            for t in f.succs(b):
                if t not in L.body and (b, t) != tuple(L.exhaust):
                    early |= f.reachable(t)
        if any(site.bb in early for site in success_sites(f)):
            continue
        cands = []
        normal = f.reachable(0)
        for l in range(1, len(f.locals)):
            ds = [d for d in f.whole_defs(l) if d[1] in normal]
            if any(d[1] in L.body for d in ds) and any(d[1] not in L.body for d in ds) and (f.local_ty(l) or '') != 'bool':
                cands.append(l)
        if len(cands) != 1:
            continue
        a = cands[0]
        borrows = mut_borrows(f)
        its = {pl[0] for pl, c in borrows if c is not None and c.bb == L.next_call.bb}
        if f.partial_defs(a) or any(pl[0] == a for pl, c in borrows) or not its or \
                any(pl[0] in its and (c is None or c.bb != L.next_call.bb) for pl, c in borrows):
            continue
        ins = [d for d in f.whole_defs(a) if d[1] in L.body]
        outs = [d for d in f.whole_defs(a) if d[1] not in L.body and d[1] in normal]
        if not all(f.dominates(d[1], L.header) for d in outs) or len({d[1] for d in ins}) != len(ins):
            continue
        lo, hi = push_counts(f, L, {d[1] for d in ins})
        if any(hi.get(l, 0) > 1 for l in L.latches):
            continue
        keeps = any(lo.get(l, 0) < 1 for l in L.latches)
        acc = _phi_of([sl._def_value(f, d, set(), 0) for d in outs])
        if _has_cycle(acc):
            continue
        nd = L.next_call.dest[0]
        for e, fo, fl in al:
            slx = Slicer(prog)
            slx._cache[(f.path, a)] = acc
            slx._cache[(f.path, nd)] = ('agg', OPTION, 'Some', (('0', e),))
            acc = _phi_of([slx._def_value(f, d, set(), 0) for d in ins] + ([acc] if keeps else []))
            if _has_cycle(acc):
                acc = None
                break
        if acc is not None:
            out[(f.path, a)] = acc
    return out


def _phi_of(vals):
    flat = []
    for v in vals:
        for x in (v[1] if v[0] == 'phi' else (v,)):
            if x not in flat:
                flat.append(x)
    return flat[0] if len(flat) == 1 else ('phi', tuple(flat))


def _has_cycle(v):
    return any(isinstance(x, tuple) and len(x) > 1 and x[0] == 'unknown' and x[1] == 'cycle' for x in walk(v))


def push_counts(g, L, push_bbs):
    """(lo, hi): least / greatest number of push sites passed on the ways from the head of loop L to each block of its body
    (counting the block itself), not going round the loop"""
    INF = 1 << 20
    lo, hi = {L.header: 1 if L.header in push_bbs else 0}, {L.header: 1 if L.header in push_bbs else 0}
    for _ in range(len(L.body) + 2):
        changed = False
        for b in L.body:
            if b not in lo:
                continue
            for t in g.succs(b):
                if t not in L.body or t == L.header:
                    continue
                w = 1 if t in push_bbs else 0
                nl, nh = lo[b] + w, min(hi[b] + w, INF)
                if t not in lo or nl < lo[t] or nh > hi[t]:
                    lo[t], hi[t] = min(nl, lo.get(t, nl)), max(nh, hi.get(t, nh))
                    changed = True
        if not changed:
            return lo, hi
    # (did not settle: a push inside an inner cycle)
    return lo, {b: INF for b in hi}


def _exhaustion_cond(g, L, cd):
    """cd is a decision on the result of the `next()` call that drives loop L"""
    x = unwrapped(cd.subject) if cd.subject is not None else ('unknown',)
    return cd.kind == 'variant' and cd.enum == OPTION and cd.sw_bb in L.body and x[0] == 'call' and len(x) > 3 and x[3] is not None and \
        tuple(x[3]) == (g.path, L.header)


def elem_cases(C, seq):
    """guarded case analysis (Cases C) of the mapping a pass applies to one element, as the Result of that mapping
    (Ok(x): the element becomes x; Err(e): the pass fails with e; ('val', r): the opaque Result r, propagated):
    - the closure handed to `map`;
    - the body of a push loop: each push site under the decisions of the iteration that lead to it (`v.push(x?)` continues
      with the success payload of x and returns its error: the cases of x; `v.push(x)` is Ok(x)), plus the results with
      which the loop is left early (`return Err(..)`, a `?` outside the pushed expression);
    - the body of a loop that rewrites the list in place: each assignment `*slot = x` likewise, the iterations that assign
      nothing as Ok(<the element>), and the early exits.
    Decisions on the result of a private helper (`if let Some(r) = helper(x)? { .. }`) are replaced by the helper's own cases."""
    from .lib.paths import strip
    if seq.closure is not None:
        return C.call_cases(seq.closure, [seq.elem])
    if seq.mapped is None:
        return []
    pushed = getattr(seq, 'pushed', None)
    if not pushed:
        return C.value_cases(strip(seq.mapped), {})
    g, L, m = seq.loop_fn, seq.loop, (seq.ctx or {})
    inplace = getattr(seq, 'inplace', False)
    if inplace:
        # (the element local stands for the element as it was when the iteration began: inplace_sequence)
        C = Cases(C.prog, C.sl, C.entry, C.stop)
        for e in seq.elem_locals:
            C.sym._cache[(g.path, e)] = seq.elem_g
    tr = (lambda x: subst(x, m, C.sl)) if m else (lambda x: x)
    elem_c = canon(seq.elem)
    out = []

    def in_loop(*bbs):
        out, have = [], set()
        for bb in bbs:
            for cd in conditions(g, bb, C.sym):
                if cd.sw_bb in L.body and not _exhaustion_cond(g, L, cd) and (cd.sw_bb, cd.target) not in have:
                    have.add((cd.sw_bb, cd.target))
                    out.append(cd)
        return out

    def guards(*bbs):
        return [a for cd in in_loop(*bbs) for a in C.cond_atoms(cd, m)]
    # the values pushed / assigned, one per branch when the operand is the result of a `match` / `if` (`push(if c { a } else { b })`)
    sites = []
    for bb, v, op in pushed:
        l = phi_local_of(g, op) if op is not None else None
        rows = C._def_rows(g, l) if l is not None else []
        if rows and all(bi in L.body for bi, rv, cds in rows):
            sites.extend(((bb, bi), rv) for bi, rv, cds in rows)
        else:
            sites.append(((bb,), v))
    propagated = set()
    for bbs, v in sites:
        atoms = guards(*bbs)
        # v = unwrap^n(X): the payload (`?`, unwrap, `if let Some(p) = ..`) of the payload of .. X
        x, n = peel(tr(v)), 0
        while x[0] == 'unwrap' and canon(x) != elem_c and not (peel(x[1])[0] == 'call' and peel(x[1])[1] == IT + 'next'):
            x, n = peel(x[1]), n + 1
        if n == 0:
            out.append((C._uniq(atoms), ('Ok', ('val', tr(v)))))
            continue
        xc = canon(core(x))
        tested = [cd for cd in in_loop(*bbs) if cd.kind == 'variant' and cd.enum != 'std::ops::ControlFlow' and
                  ('is', xc, POS) in C.cond_atoms(cd, m)]
        if n == 1 and not tested:
            # `push(x?)` / `*slot = x?`: the result of x is the result of the mapping (its error leaves through the `?`)
            propagated.add(_tried(('unwrap', x)))
            for gs, sh in C.value_cases(x, {}):
                out.append((C._uniq(tuple(a for a in atoms if a != ('is', xc, POS)) + tuple(gs)), sh))
            continue
        # the cases of X in which every one of the n levels is Some / Ok, with the payload found there
        for gs, sh in C.value_cases(x, {}):
            cur, left = sh, n
            while left and cur is not None:
                while cur[0] == 'from':
                    cur = cur[1]
                if cur[0] in ('Ok', 'Some'):
                    cur, left = cur[1], left - 1
                elif cur[0] == 'val':
                    leaf = cur[1]
                    for _ in range(left):
                        leaf = ('unwrap', leaf)
                    cur, left = ('val', leaf), 0
                else:
                    cur = None
            if cur is not None:
                out.append((C._uniq(tuple(atoms) + tuple(gs)), ('Ok', cur)))
    if inplace:
        store_bbs = {x[0] for x in pushed}

        def round_without_store(t, cut=()):
            seen, work = set(), [t]
            while work:
                b = work.pop()
                if b in seen or b not in L.body or b in store_bbs or b == L.header:
                    continue
                seen.add(b)
                if b in L.latches:
                    return True
                work.extend(x for x in g.succs(b) if (b, x) not in cut)
            return False
        cands = {}
        for bbs, _ in sites:
            for cd in in_loop(*bbs):
                for t in g.succs(cd.sw_bb):
                    if t != cd.target and (cd.sw_bb, t) not in cands and round_without_store(t):
                        cands[(cd.sw_bb, t)] = cd
        for (sb, t), cd in sorted(cands.items()):
            tc = in_loop(t)
            if any(c.sw_bb == sb for c in tc):
                atoms = [a for c in tc for a in C.cond_atoms(c, m)]
            else:
                atoms = guards(sb) + [('nall', frozenset(C.cond_atoms(cd, m)))]
            out.append((C._uniq(atoms), ('Ok', ('val', seq.elem))))
        first = [x for x in g.succs(L.header)]
        if any(round_without_store(x, cut=set(cands)) for x in first):
            # (a way round the loop that assigns nothing and is not described by the decisions above)
            out.append(((('?',),), ('Ok', ('val', seq.elem))))
    # early exits of the loop: rows of the return place decided inside the loop body, not passing the exhaustion edge
    for bi, v, conds, extra in C.rows(g):
        inside = [cd for cd in conds if cd.sw_bb in L.body]
        if not inside or any(_exhaustion_cond(g, L, cd) and cd.outcome == frozenset({'None'}) for cd in inside):
            continue
        atoms = [a for cd in inside if not _exhaustion_cond(g, L, cd) for a in C.cond_atoms(cd, m)]
        for gs, sh in C.value_cases(tr(v), m, (g.path,)):
            # (the error of a propagated `x?` is already a case of x)
            if sh[0] == 'Err' and _tried(tr(v)) is not None and _tried(tr(v)) in propagated:
                continue
            out.append((C._uniq(tuple(atoms) + tuple(gs)), sh))
    return [(tuple(a for a in atoms if a != ('true',)), sh) for atoms, sh in expand_enums(C, expand_atoms(C, out)) if feasible(atoms)]


def _replace(v, target, new):
    """v with every sub-value whose canonical form is `target` replaced by `new`; projections of the (now literal) aggregate
    are resolved: `(AGG as V).f` -> the field value"""
    if isinstance(v, frozenset):
        return frozenset(_replace(x, target, new) for x in v)
    if not isinstance(v, tuple) or not v or v[0] in _LEAF:
        return v
    if v[0] == 'call' and canon(v) == target:
        return new
    out = tuple(_replace(x, target, new) if isinstance(x, (tuple, frozenset)) else x for x in v)
    if out[0] == 'variant' and len(out) == 3 and isinstance(out[1], tuple) and out[1] and out[1][0] == 'agg' and out[1][2] == out[2]:
        return out[1]
    if out[0] == 'field' and len(out) == 3 and isinstance(out[1], tuple) and out[1] and out[1][0] == 'agg' and isinstance(out[2], str):
        for k, fv in out[1][3]:
            if k == out[2]:
                return fv
    return out


def expand_enums(C, cases, depth=0):
    """case split on the result of a private *classifier*: a function of this crate whose every result is a literal variant
    of an enum of its own (`match Kind::from(dep) { Kind::A(p) => .., Kind::B | Kind::C => .. }`).  An atom
    `classify(x) is {A, ..}` is replaced by the guards under which the classifier answers one of those variants, and the
    payloads `(classify(x) as A).0` in the other atoms and in the result by the values the classifier put there: the same
    cases as with the classifier's `match` written at the place of the call."""
    out = []
    for atoms, sh in cases:
        target = None
        if depth <= 3:
            for a in atoms:
                cands = [a] if a[0] == 'is' else (list(a[1]) if a[0] == 'nall' else [])
                for b in cands:
                    if b[0] == 'is' and isinstance(b[2], frozenset) and b[1][0] == 'call' and C.descend(C.prog.fns.get(b[1][1])):
                        target = b[1]
                        break
                if target is not None:
                    break
        sub = _classified(C, target) if target is not None else None
        if not sub:
            out.append((atoms, sh))
            continue
        new = []
        for gs, agg in sub:
            cur, ok = [], True
            for a in atoms:
                if a[0] == 'is' and a[1] == target and isinstance(a[2], frozenset):
                    ok = ok and agg[2] in a[2]
                    continue
                if a[0] == 'nall':
                    # NOT all of ..: a conjunct decided true is dropped, a conjunct decided false makes the atom true
                    keep, true = [], False
                    for b in a[1]:
                        if b[0] == 'is' and b[1] == target and isinstance(b[2], frozenset):
                            true = true or agg[2] not in b[2]
                        else:
                            keep.append(canon(_replace(b, target, agg)))
                    if true:
                        continue
                    if not keep:
                        ok = False
                        continue
                    cur.append(('nall', frozenset(keep)))
                    continue
                cur.append(canon(_replace(a, target, agg)))
            if ok and feasible(tuple(cur) + tuple(gs)):
                new.append((C._uniq(tuple(cur) + tuple(gs)), _replace(sh, target, agg)))
        out.extend(expand_enums(C, new, depth + 1))
    return out


def _classified(C, target):
    """[(guards, literal variant)] of the classifier call `target`, or None when it is not one"""
    g = C.prog.fns.get(target[1])
    key = ('classified', target)
    if key not in C._rows:
        m = {(g.path, i): a for i, a in enumerate(target[2]) if i < g.argc}
        res = []
        for gs, xsh in C.fn_cases(g, m, ('<classifier>',)):
            agg = peel(xsh[1]) if xsh[0] == 'val' else None
            if agg is None or agg[0] != 'agg' or not isinstance(agg[2], str) or agg[1] in (OPTION, RESULT) or any(a[0] == '?' for a in gs):
                res = None
                break
            res.append((tuple(gs), agg))
        C._rows[key] = res
    return C._rows[key]


def feasible(atoms):
    """no value is required to be both Some/Ok and None/Err"""
    pol = {}
    for a in atoms:
        if a[0] == 'is' and a[2] in (POS, NEG):
            if pol.setdefault(a[1], a[2]) != a[2]:
                return False
        if a[0] == 'false':
            return False
    return True


def expand_atoms(C, cases, depth=0):
    """case split on the result of private helpers: atoms `helper(..) is Ok`, `unwrap(helper(..)) is None` .. are replaced by
    the guards of those cases of the helper that agree with them"""
    out = []
    for atoms, sh in cases:
        target = None
        for a in atoms:
            if a[0] == 'is' and a[2] in (POS, NEG):
                x = a[1]
                while x[0] == 'unwrap':
                    x = x[1]
                if x[0] == 'call' and C.descend(C.prog.fns.get(x[1])):
                    target = x
                    break
        if target is None or depth > 3:
            out.append((atoms, sh))
            continue
        cons, rest, clash = {}, [], False
        for a in atoms:
            if a[0] == 'is' and a[2] in (POS, NEG):
                x, n = a[1], 0
                while x[0] == 'unwrap':
                    x, n = x[1], n + 1
                if x == target:
                    clash = clash or cons.get(n, a[2]) != a[2]
                    cons[n] = a[2]
                    continue
            rest.append(a)
        if clash:
            continue
        sub = []
        for gs, xsh in C.value_cases(target, {}):
            cur, ok, open_ = xsh, True, []
            for lvl in range(max(cons) + 1):
                while cur[0] == 'from':
                    cur = cur[1]
                if cur[0] == 'val':
                    leaf = canon(core(cur[1]))
                    for l in sorted(cons):
                        if l >= lvl:
                            y = leaf
                            for _ in range(l - lvl):
                                y = ('unwrap', y)
                            open_.append(('is', y, cons[l]))
                    break
                pos = cur[0] in ('Ok', 'Some')
                if lvl in cons and (cons[lvl] == POS) != pos:
                    ok = False
                    break
                if not pos:
                    ok = not any(l > lvl for l in cons)
                    break
                cur = cur[1]
            if ok and feasible(tuple(rest) + tuple(gs) + tuple(open_)):
                sub.append((C._uniq(tuple(rest) + tuple(gs) + tuple(open_)), sh))
        out.extend(expand_atoms(C, sub, depth + 1))
    return out


def _tried(v):
    """the value a `?` was applied to: x of unwrap(x) / from_residual(residual(x)), without the Try::branch wrapper"""
    v = peel(v)
    if v[0] == 'call' and v[1].endswith('FromResidual::from_residual') and v[2] and peel(v[2][0])[0] == 'residual':
        v = peel(peel(v[2][0])[1])
    elif v[0] == 'unwrap':
        v = peel(v[1])
    else:
        return None
    while v[0] == 'call' and v[1] == 'std::ops::Try::branch' and v[2]:
        v = peel(v[2][0])
    return canon(v)


def chain_of(prog, sl, N, f, v):
    """the passes that make the list value v: ([Seq, ..] from the last pass back to the first, the list the first starts from)"""
    out = []
    for _ in range(6):
        s = sequence_of(prog, sl, f, v, N)
        if s.kind is None:
            break
        out.append(s)
        if s.coll is None or unwrapped(s.coll)[0] == 'unknown':
            break
        v = s.coll
    return out, v


# ------------------------------------------------------------------------------------------------------------------
# lists rewritten in place
# ------------------------------------------------------------------------------------------------------------------
# `let mut d = input.clone(); pass1(&mut d)?; pass2(&mut d)?; Ok(d)` with
# `fn pass(d: &mut T) { for x in &mut d.dependencies { if c(x) { *x = f(x)?; } } }` builds the same list as
# `input.dependencies.iter().map(|x| if c(x) { f(x) } else { Ok(x.clone()) }).collect()`: a slot is never added, removed or
# moved, each one is either assigned as a whole (at most once per iteration, from values read before the assignment) or keeps
# its element.  The value algebra follows assignments to locals only, so these passes are read from the MIR directly.
def _op_place(o):
    if isinstance(o, dict):
        for k in ('m', 'c'):
            if k in o and isinstance(o[k], list):
                return o[k]
    return None


def _move_closure(g, roots):
    """locals that receive the value of one of `roots` by plain moves / copies"""
    out = set(roots)
    changed = True
    while changed:
        changed = False
        for l in range(len(g.locals)):
            if l in out:
                continue
            ds = g.whole_defs(l)
            if ds and all(d[0] == 'stmt' and d[3].get('r') == 'use' and (_op_place(d[3]['o']) or [None]) in [[r] for r in out] for d in ds):
                out.add(l)
                changed = True
    return out


def returned_local(f):
    """the locals through which the value every success result of f carries (`Ok(d)` / `d`) is moved, back to the one it was
    first stored in; None when the success results are not all one such value"""
    chains = []
    for site in success_sites(f):
        if site.kind != 'ok' or site.stmt is None:
            return None
        rv = site.stmt
        if rv.get('r') == 'agg' and rv.get('adt') in (RESULT, OPTION) and rv.get('variant') in ('Ok', 'Some') and len(rv.get('ops', [])) == 1:
            pl = _op_place(rv['ops'][0])
        elif rv.get('r') == 'use':
            pl = _op_place(rv['o'])
        else:
            return None
        if not pl or len(pl) != 1:
            return None
        x, chain = pl[0], [pl[0]]
        for _ in range(12):
            ds = f.whole_defs(x)
            if len(ds) == 1 and ds[0][0] == 'stmt' and ds[0][3].get('r') == 'use':
                q = _op_place(ds[0][3]['o'])
                if q and len(q) == 1 and q[0] != 0 and not (1 <= q[0] <= f.argc):
                    x = q[0]
                    chain.append(x)
                    continue
            break
        chains.append(chain)
    if not chains or len({c[-1] for c in chains}) != 1:
        return None
    return frozenset(x for c in chains for x in c)


def inplace_calls(prog, f, root, ty_rx):
    """([(Call, callee Fn, index of the &mut parameter)] in execution order, problem | None): the workspace functions that
    the local `root` of f (or its list) is handed to by `&mut` before every success result"""
    from .lib.discard import result_fates, verdict
    calls = {}
    for pl, c in mut_borrows(f):
        if pl[0] not in root:
            continue
        if c is None:
            return [], 'a mutable borrow of the result is stored'
        g = prog.fns.get(c.name or '')
        if g is None or g.kind == 'Closure' or g.crate != f.crate or c.indirect:
            continue     # (a std method on the list: judged by list-untouched)
        ks = [i for i, t in enumerate(g.args) if re.match(r"^&(?:'\w+ )?mut ", t or '') and ty_rx.match(t or '')]
        if len(ks) != 1:
            return [], '%s takes %d mutable lists / descriptors' % (g.path.rsplit('::', 1)[-1], len(ks))
        calls[c.bb] = (c, g, ks[0])
    out = sorted(calls.values(), key=lambda x: sum(1 for y in calls.values() if f.dominates(y[0].bb, x[0].bb)))
    sites = [s.bb for s in success_sites(f)]
    for i, (c, g, k) in enumerate(out):
        name = g.path.rsplit('::', 1)[-1]
        if f.in_loop(c.bb):
            return [], '%s is called in a loop' % name
        if not all(f.dominates(c.bb, b) for b in sites) or any(not f.dominates(c.bb, d[0].bb) for d in out[i + 1:]):
            return [], '%s does not run before every success result' % name
        if (g.ret or '').startswith(('std::result::Result<', 'std::option::Option<')) and verdict(result_fates(prog, f, c)) != 'ok':
            return [], 'the result of %s is not checked' % name
    return out, None


def inplace_sequence(prog, sl, g, k, ctx, N=None):
    """how function g rewrites the list behind its `&mut` parameter k (a descriptor or the bare list): a Seq of kind
    'in-place' (one_to_one when every obligation of the comment above is met).  ctx: the caller's argument values"""
    s = Seq('in-place', [], ('unknown', 'collection'), None, None)
    s.accounted = set()
    tr = (lambda x: subst(x, ctx, sl)) if ctx else (lambda x: x)
    p = k + 1
    normal = g.reachable(0)
    # -- the parameter is only used to iterate mutably over the list (other fields may be read) ------------------------------
    if g.whole_defs(p) or g.partial_defs(p):
        s.why = 'the mutable parameter is assigned through (other than element by element)'
        return s
    borrows = 0
    for bi, kind, idx, how, pl in g.uses_of(p):
        through_list = any(str(x).lstrip('.') == 'dependencies' for x in pl[1:]) or len([x for x in pl[1:] if x != '*']) == 0
        if kind == 'stmt' and how == 'refmut' and through_list:
            borrows += 1
        elif kind == 'stmt' and how in ('ref', 'c') and not through_list:
            continue
        elif kind == 'arg' and how == 'm' and len(pl) == 1:
            borrows += 1
        else:
            s.why = 'the mutable parameter is also used otherwise (%s %s)' % (kind, how)
            return s
    if borrows != 1:
        s.why = 'the list is borrowed mutably %d times' % borrows
        return s
    # -- one loop over exactly the elements of that list, in order -------------------------------------------------------------
    loops = []
    for L in find_loops(g, sl):
        c0 = unwrapped(adapters(L.collection)[1]) if L.collection is not None else ('unknown',)
        base = c0[1] if c0[0] == 'field' and c0[2] == 'dependencies' else c0
        base = unwrapped(base)
        if base[0] == 'param' and base[1] == g.path and base[2] == k:
            loops.append(L)
    if len(loops) != 1:
        s.why = '%d loops over the list' % len(loops)
        return s
    L = loops[0]
    if any(L.header in X.body and X.header != L.header for X in find_loops(g, sl)):
        s.why = 'the loop over the list is nested in another loop'
        return s
    cnames, csrc = adapters(L.collection)
    al = iters.alts(sl, L.collection)
    keeps = ORDER_KEEPING | {'core::slice::<impl [T]>::iter_mut', 'std::ops::DerefMut::deref_mut', 'std::vec::Vec::<T, A>::as_mut_slice'}
    if not (set(cnames) <= keeps and IT + 'map' not in cnames and len(al) == 1 and not al[0][2] and al[0][1] is not None and
            canon(unwrapped(al[0][1])) == canon(unwrapped(csrc))):
        s.why = 'the loop does not visit each element of the list once, in order'
        return s
    # -- the mutable borrow of the list ends in that loop's iterator and nowhere else ------------------------------------------
    nxt = L.next_call
    iter_locals = set()
    for pl, c in mut_borrows(g):
        if pl[0] != p:
            continue
        if c is None:
            s.why = 'a mutable borrow of the list is stored'
            return s
        if c.bb == nxt.bb:
            continue
        if (c.decl or '') == 'std::iter::IntoIterator::into_iter' and c.dest and len(c.dest) == 1:
            iter_locals |= _move_closure(g, {c.dest[0]})
            s.accounted.add((g.path, c.bb))
            continue
        s.why = 'the list is handed out mutably to %s' % (c.name or c.decl or '?').rsplit('::', 1)[-1]
        return s
    for pl, c in mut_borrows(g):
        if pl[0] in iter_locals and (c is None or c.bb != nxt.bb):
            s.why = 'the iterator over the list is also advanced elsewhere'
            return s
    for il in iter_locals:
        for bi, kind, idx, how, pl in g.uses_of(il):
            if bi in normal and not (kind == 'drop' or (kind == 'stmt' and how in ('m', 'c', 'refmut') and len(pl) == 1)):
                s.why = 'the iterator over the list is also used elsewhere'
                return s
    # -- the element of an iteration: only read, or assigned as a whole ---------------------------------------------------------
    if not nxt.dest or len(nxt.dest) != 1:
        s.why = 'cannot locate the element'
        return s
    nd = nxt.dest[0]
    first = set()
    for l in range(len(g.locals)):
        for d in g.whole_defs(l):
            if d[0] == 'stmt' and d[3].get('r') == 'use':
                q = _op_place(d[3]['o'])
                if q and q[0] == nd and len(q) == 3 and str(q[1]).endswith('Some'):
                    first.add(l)
    elems = _move_closure(g, first)
    for bi, kind, idx, how, pl in g.uses_of(nd):
        if bi in normal and not (kind in ('drop', 'switch') or (kind == 'stmt' and how in ('discr', 'm', 'c'))):
            s.why = 'the iterator result is used otherwise'
            return s
    if not elems or not all(re.match(r"^&(?:'\w+ )?mut ", g.local_ty(e) or '') for e in elems):
        s.why = 'the loop does not iterate mutably'
        return s
    stores, reads = [], []
    for e in elems:
        for d in g.partial_defs(e):
            if d[1] not in normal:
                continue
            if d[0] in ('stmt', 'call') and list(d[4][1:]) == ['*']:
                stores.append(d)
            else:
                s.why = 'a part of an element is assigned in place'
                return s
        for bi, kind, idx, how, pl in g.uses_of(e):
            if bi not in normal or kind == 'drop':
                continue
            if kind == 'stmt' and how in ('m', 'c') and len(pl) == 1:
                continue        # (moved to another local of `elems`)
            if kind == 'stmt' and how in ('ref', 'c', 'discr') and len(pl) > 1:
                reads.append((bi, idx))
                continue
            s.why = 'an element is handed out mutably / modified in place'
            return s
    if not stores:
        s.why = 'no element is assigned'
        return s
    store_bbs = {}
    for d in stores:
        if d[1] in store_bbs or d[1] not in L.body or any(d[1] in X.body for X in find_loops(g, sl) if X.header != L.header):
            s.why = 'an element is assigned more than once / outside the loop over the list'
            return s
        store_bbs[d[1]] = d
    lo, hi = push_counts(g, L, set(store_bbs))
    if any(hi.get(l, 0) > 1 for l in L.latches):
        s.why = 'an element can be assigned twice in one iteration'
        return s
    # (what an iteration reads of its element, it reads before it assigns it: the values below are those of the old element)
    for bi, d in store_bbs.items():
        after = set()
        for t in g.succs(bi):
            after |= {b for b in g.reachable(t, stop=(L.header,)) if b in L.body and b != L.header}
        si = d[2] if d[0] == 'stmt' else 1 << 30     # (a call that writes its result into the slot ends the block)
        for rb, ri in reads:
            later_here = rb == bi and (ri is None or ri > si)
            if later_here or (rb in after and not (rb == bi and ri is not None and ri < si and bi not in after)):
                s.why = 'an element is read after it was assigned'
                return s
    # -- the list is complete only when the iterator is exhausted ----------------------------------------------------------------
    for site in success_sites(g):
        done = [cd for cd in conditions(g, site.bb, sl) if _exhaustion_cond(g, L, cd) and cd.outcome == frozenset({'None'})]
        if not done:
            s.why = 'a success result is reachable without exhausting the iterator'
            return s
    s.accounted.add((g.path, nxt.bb))
    # -- values: the element stands for its value before the assignment -----------------------------------------------------------
    elem_g = iters.elem_of(al[0][1])
    slx = Slicer(prog)
    for e in elems:
        slx._cache[(g.path, e)] = elem_g
    vals = []
    for bi, d in sorted(store_bbs.items()):
        v = slx._rvalue(g, d[3], set(), 0, (d[1], d[2])) if d[0] == 'stmt' else slx._call_value(g, d[3], set(), 0)
        vals.append((bi, v, d[3]['o'] if d[0] == 'stmt' and d[3].get('r') == 'use' else None))
    s.names, s.coll = cnames, (N.nf(tr(csrc)) if (ctx and N is not None) else tr(csrc))
    s.elem = tr(elem_g)
    s.mapped = tr(vals[0][1]) if len(vals) == 1 else ('phi', tuple(tr(x[1]) for x in vals))
    s.loop_fn, s.loop, s.ctx, s.pushed = g, L, ctx, vals
    s.inplace, s.elem_locals, s.elem_g = True, elems, elem_g
    s.one_to_one = True
    return s


# ------------------------------------------------------------------------------------------------------------------
# values that are carried unchanged
# ------------------------------------------------------------------------------------------------------------------
# conversions between representations of the same string / path / URI (the slicer already reads as_str, to_string,
# to_path_buf, From between string types .. as the value itself); only std and uriparse items
_IDENT = re.compile(r"(::to_string_lossy|::to_str|::display|::into_owned|::to_owned|::into_string|::into_os_string|::as_os_str|"
                    r"::to_os_string|::as_path|::to_path_buf|::into_path_buf|::as_ref|::borrow|::deref|::clone|::into|::from|"
                    r"::new|::as_str|::to_string|::into_boxed_path|::into_boxed_str)$")
_IDENT_HOME = re.compile(r"^<?&?(std|core|alloc|uriparse)::")
_PAYLOAD = ('unwrap_or_default', 'unwrap_or', 'unwrap_or_else', 'unwrap', 'expect', 'unwrap_unchecked')


def is_ident_name(name):
    return bool(_IDENT.search(name) and _IDENT_HOME.match(name))


def fmt_not_plain(sl, fns):
    """formatting in the given functions that is not a plain `{}` (Display, no width / precision / flags): the value algebra
    reads `format!("{}", x)`, `format!("{:?}", x)` and `format!("{:>8}", x)` alike as a text with the hole x"""
    out = []
    for g in fns:
        for c in g.calls:
            d = c.decl or c.name or ''
            if d.startswith(('core::fmt::rt::Argument::', 'std::fmt::rt::Argument::')) and '::new_' in d and not d.endswith('::new_display'):
                out.append('%s in %s' % (d.rsplit('::', 1)[-1], g.path.rsplit('::', 1)[-1]))
            if d.startswith(('std::fmt::Arguments::', 'core::fmt::Arguments::')) and d.endswith('::new') and c.args:
                tv = sl.operand(g, c.args[0])
                if tv[0] == 'const' and isinstance(tv[1], (bytes, bytearray)):
                    b, i = tv[1], 0
                    while i < len(b):
                        n = b[i]
                        i += 1
                        if n == 0:
                            break
                        if n < 0x80:
                            i += n
                        elif n == 0x80:
                            i += 2 + (b[i] | (b[i + 1] << 8))
                        elif n == 0xC0:
                            continue
                        else:
                            out.append('a format spec in %s' % g.path.rsplit('::', 1)[-1])
                            break
                else:
                    out.append('an unreadable format template in %s' % g.path.rsplit('::', 1)[-1])
    return sorted(set(out))


def carried(sl, v, depth=0, fmt=True):
    """the value v is a representation of: identity conversions, success payloads (`?`, unwrap, unwrap_or*; the fallback
    of an Option/Result is not part of its payload) and `map` / `map_or*` with an identity conversion are peeled.
    fmt=False: a formatted text is not taken for its one hole (the caller found formatting other than plain Display)"""
    for _ in range(24):
        v = unwrapped(v)
        if v[0] == 'fmt' and not fmt:
            return v
        if v[0] == 'fmt' and len(v) > 1 and isinstance(v[1], (tuple, list)):
            # `format!("{}", x)` / `x.display().to_string()`: one hole and no literal text
            parts = [p for p in v[1] if not (isinstance(p, tuple) and p and p[0] == 'const' and p[1] == '')]
            if len(parts) == 1 and isinstance(parts[0], tuple) and parts[0] and parts[0][0] != 'const':
                v = parts[0]
                continue
            return v
        if v[0] != 'call' or not v[2]:
            return v
        fam, meth = comb(v)
        if meth in _PAYLOAD:
            v = sl.mk_unwrap(v[2][0], 1)
            continue
        if meth in ('map', 'map_or', 'map_or_else') and len(v[2]) in (2, 3):
            f = peel(v[2][-1])
            inner = sl.mk_unwrap(v[2][0], 1)
            if f[0] == 'fnitem' and is_ident_name(f[1]):
                v = inner
                continue
            if f[0] == 'closure' and depth < 4:
                r = sl.apply_closure(f, (inner,))
                if r is not None:
                    v = r
                    depth += 1
                    continue
            return v
        if len(v[2]) == 1 and is_ident_name(v[1]):
            v = v[2][0]
            continue
        return v
    return v


def mut_borrows(g):
    """[(place, Call | None)]: every place of g of which a mutable reference (or raw pointer) is taken, with the call that
    reference ends up in (through reborrows and deref_mut / as_mut_slice / iter_mut); None = stored or used otherwise"""
    out = []
    for bi, b in enumerate(g.blocks):
        for st in b['s']:
            if st[0] != '=' or not isinstance(st[2], dict):
                continue
            rv = st[2]
            if not ((rv.get('r') == 'ref' and rv.get('mut')) or rv.get('r') == 'rawptr'):
                continue
            pl = rv['p']
            if len(st[1]) != 1:
                out.append((pl, None))
                continue
            work, seen = [st[1][0]], set()
            while work:
                r = work.pop()
                if r in seen:
                    continue
                seen.add(r)
                for ubi, kind, idx, how, upl in g.uses_of(r):
                    if kind == 'arg':
                        c = g.call_at(ubi)
                        last = (c.name or c.decl or '').rsplit('::', 1)[-1] if c is not None else ''
                        if c is not None and last in ('deref_mut', 'as_mut_slice', 'as_mut', 'iter_mut', 'borrow_mut') and c.dest and len(c.dest) == 1:
                            work.append(c.dest[0])
                        else:
                            out.append((pl, c))
                    elif kind == 'stmt':
                        s2 = g.blocks[ubi]['s'][idx]
                        if how in ('m', 'c', 'refmut', 'ref', 'rawptr') and len(s2[1]) == 1:
                            work.append(s2[1][0])
                        else:
                            out.append((pl, None))
                    elif kind == 'drop':
                        continue
                    else:
                        out.append((pl, None))
    return out


def loop_total(g, L):
    """the loop is left only when its iterator is exhausted: no other edge out of the body leads to a return of g
    (`break`, early `return`); panicking exits do not produce a result"""
    ex = getattr(L, 'exhaust', None)
    if ex is None:
        return False
    rets = set(g.return_blocks())
    for b in L.body:
        for s in g.succs(b):
            if s in L.body or (b, s) == tuple(ex):
                continue
            if rets & g.reachable(s):
                return False
    return True


def settle(v):
    """an aggregate with the field assignments made to it after its construction applied (`let mut d = T { .. }; d.f = x; d`):
    a wholly assigned field takes the assigned value, a field assigned piecewise (`d.f.g = x`) is unknown.  Other values are
    returned with their unwrap / updated wrappers peeled"""
    ups = []
    while isinstance(v, tuple) and v and v[0] in ('unwrap', 'updated'):
        if v[0] == 'updated':
            ups = list(v[2]) + ups     # inner wrappers are earlier assignments
        v = v[1]
    if v[0] != 'agg' or not ups:
        return v
    fields = dict(v[3])
    for proj, uv in ups:
        parts = [x for x in str(proj).split('.') if x]
        if not parts:
            return ('unknown', 'assigned as a whole')
        fields[parts[0]] = uv if len(parts) == 1 else ('unknown', 'field %s assigned piecewise' % parts[0])
    return (v[0], v[1], v[2], tuple(fields.items())) + tuple(v[4:])


def piecewise_updates(v, _seen=None):
    """projections `.f.g..` (more than one step) of the in-place assignments recorded anywhere inside value v: the field
    lookup of the value algebra (`Slicer._field`) only honours assignments of a whole field, so a value read from `.f` of
    such a base does not reflect them"""
    out = []
    stack = [v]
    n = 0
    while stack and n < 200000:
        x = stack.pop()
        n += 1
        if not isinstance(x, tuple):
            continue
        if x and x[0] == 'updated' and len(x) > 2 and isinstance(x[2], tuple):
            for it in x[2]:
                if isinstance(it, tuple) and len(it) == 2 and isinstance(it[0], str) and it[0].count('.') > 1:
                    out.append(it[0])
        stack.extend(y for y in x if isinstance(y, tuple))
    return sorted(set(out))
