"""Helpers of rule C12: obligations restated on values / cases instead of one spelling.

* `helper_cases`   — the result of the best-effort (NotFound-tolerating) helper decomposed into cases
                     (input returned unchanged / error returned / a *fresh* Ok produced), through local copies and
                     through `Result::or_else(|e| ..)`, each case with the block whose guards decide it.
* `fresh_ok_guard` — is a fresh Ok produced only under Err(e) && not-found(e).
* `stat_predicate` — a stat query (`fs::metadata(p)` ..) whose Result is consumed only as a boolean path predicate
                     (`.is_ok()`, `.is_ok_and(|m| m.is_file())`, `.map(|m| m.is_dir()).unwrap_or(false)`): this *is*
                     std's definition of `Path::exists / is_file / is_dir / is_symlink`, which issue the same stat and
                     are outside the property's operation list (open, write, mkdir, unlink, rmdir, rename, chmod).
"""
from .lib.guards import conditions_ctx
from .lib.paths import strip
from .lib.mir import op_place

RESULT = 'std::result::Result::<T, E>::'
OPTION = 'std::option::Option::<T>::'


# ------------------------------------------------------------------------------------------------ R2: helper cases

def _origin_defs(fn, local, seen=None):
    """definitions of `local`, looking through plain copies / moves of whole locals"""
    seen = set() if seen is None else seen
    if local in seen:
        return
    seen.add(local)
    for d in fn.whole_defs(local):
        if d[0] == 'stmt' and d[3]['r'] == 'use':
            pl = op_place(d[3]['o'])
            if pl and len(pl) == 1 and pl[0] > fn.argc and fn.whole_defs(pl[0]):
                for x in _origin_defs(fn, pl[0], seen):
                    yield x
                continue
        yield d


def _is_payload(p, in_val, variant):
    """p is the `variant` payload of the input result"""
    if in_val is None:
        return False
    if variant == 'Ok' and p[0] == 'unwrap' and strip(p[1]) == in_val:
        return True
    q = p
    while q[0] in ('unwrap', 'updated'):
        q = q[1]
    if q[0] == 'field' and q[2] in ('0', 0) and q[1][0] == 'variant' and q[1][2] == variant and strip(q[1][1]) == in_val:
        return True
    return False


class Case:
    def __init__(self, kind, fn, bb, ctx_err, value, where):
        self.kind = kind        # 'same' | 'err' | 'fresh_ok' | 'other'
        self.fn = fn
        self.bb = bb
        self.ctx_err = ctx_err  # the context already implies that the input is Err (inside `or_else`)
        self.value = value
        self.where = where


def helper_cases(prog, sl, f, depth=0, in_val='param', ctx_err=False):
    """decompose what `f` (Result<T, io::Error> -> Result<T, io::Error>) returns"""
    if in_val == 'param':
        in_val = sl.local(f, 1) if f.argc >= 1 else None
        in_val = strip(in_val) if in_val is not None else None
    out = []
    for d in _origin_defs(f, 0):
        bb = d[1]
        where = '%s:%d' % (f.file, f.line)
        if d[0] == 'stmt':
            v = sl._rvalue(f, d[3], set(), 0, None)
        elif d[0] == 'call':
            v = sl._call_value(f, d[3], set(), 0)
            where = d[3].where()
        else:
            out.append(Case('other', f, bb, ctx_err, ('const', '?'), where))
            continue
        out.extend(_classify(prog, sl, f, bb, v, in_val, ctx_err, where, depth))
    return out


def _classify(prog, sl, f, bb, v, in_val, ctx_err, where, depth):
    s = strip(v)
    if in_val is not None and s == in_val:
        return [Case('same', f, bb, ctx_err, v, where)]
    if s[0] == 'phi':
        out = []
        for a in s[1]:
            out.extend(_classify(prog, sl, f, bb, a, in_val, ctx_err, where, depth))
        return out
    if s[0] == 'agg' and (s[1] or '').endswith('result::Result'):
        payload = dict(s[3]).get('0', dict(s[3]).get(0))
        if s[2] == 'Err':
            return [Case('err', f, bb, ctx_err, v, where)]
        if s[2] == 'Ok':
            if payload is not None and _is_payload(payload, in_val, 'Ok'):
                return [Case('same', f, bb, ctx_err, v, where)]
            return [Case('fresh_ok', f, bb, ctx_err, v, where)]
    if s[0] == 'call' and s[1] == RESULT + 'or_else' and len(s[2]) == 2 and in_val is not None \
            and strip(s[2][0]) == in_val and depth < 3:
        # `input.or_else(h)`: Ok(v) is passed through untouched; on Err(e) the result is h(e)
        h = s[2][1]
        g = prog.fns.get(h[1]) if h[0] in ('closure', 'fnitem') else None
        if g is not None:
            return [Case('same', f, bb, ctx_err, v, where)] + \
                helper_cases(prog, sl, g, depth + 1, in_val=None, ctx_err=True)
    return [Case('other', f, bb, ctx_err, v, where)]


def _is_kind_of_error(x):
    x = strip(x)
    return x[0] == 'call' and x[1] == 'std::io::Error::kind'


def _is_not_found(x):
    x = strip(x)
    return x[0] == 'agg' and x[2] == 'NotFound' and (x[1] or '').endswith('io::ErrorKind')


def fresh_ok_guard(prog, sl, case, pred_name):
    """(is_err, not_found, conds): the guards under which a fresh Ok is produced"""
    conds = conditions_ctx(prog, case.fn, case.bb, sl)
    is_err = case.ctx_err or any(c.kind == 'variant' and c.outcome == frozenset({'Err'}) for c in conds)
    nf = False
    for c in conds:
        if c.kind == 'bool':
            for val, oc in c.views():
                if oc is not True:
                    continue
                if val[0] == 'call' and val[1] == pred_name:
                    nf = True
                elif val[0] == 'call' and val[1].endswith('::eq') and len(val[2]) == 2 and \
                        ((_is_kind_of_error(val[2][0]) and _is_not_found(val[2][1])) or
                         (_is_kind_of_error(val[2][1]) and _is_not_found(val[2][0]))):
                    nf = True
        elif c.kind == 'variant' and c.outcome == frozenset({'NotFound'}) and c.subject is not None \
                and _is_kind_of_error(c.subject):
            nf = True
    return is_err, nf, conds


# ------------------------------------------------------------------------------------------------ R1: stat predicates

STAT_QUERIES = ('std::fs::metadata', 'std::fs::symlink_metadata', 'std::path::Path::metadata',
                'std::path::Path::symlink_metadata')
EXISTS_QUERIES = ('std::path::Path::try_exists', 'std::fs::exists')
PURE_METADATA = ('std::fs::Metadata::is_file', 'std::fs::Metadata::is_dir', 'std::fs::Metadata::is_symlink',
                 'std::fs::Metadata::file_type', 'std::fs::FileType::is_file', 'std::fs::FileType::is_dir',
                 'std::fs::FileType::is_symlink')
FALSE = ('const', False)


def _pure_predicate(prog, h):
    """a closure / fn item `|m: Metadata| -> bool` that only asks the Metadata for the file type"""
    g = prog.fns.get(h[1]) if h[0] in ('closure', 'fnitem') else None
    if g is None:
        return h[0] == 'fnitem' and h[1] in PURE_METADATA
    if g.ret != 'bool':
        return False
    return all((not c.indirect) and c.name in PURE_METADATA for c in g.calls)


def _is_site(v, call, fpath):
    v = strip(v)
    while v[0] == 'call' and v[1] in (RESULT + 'as_ref',) and v[2]:
        v = strip(v[2][0])
    return v[0] == 'call' and len(v) > 3 and v[3] == (fpath, call.bb) and (v[1] == call.name or v[1] == call.decl)


def _predicate_shape(prog, v, call, fpath, exists):
    """v (a bool) is `stat.is_ok()` / `stat.is_ok_and(pure)` / `stat.map_or(false, pure)` /
    `stat.map(pure).unwrap_or(false)`; for try_exists: `.unwrap_or(false)` / `.is_ok_and(|b| b)`-free forms"""
    v = strip(v)
    if v[0] != 'call' or not v[1].startswith(RESULT):
        return False
    m, a = v[1][len(RESULT):], v[2]
    if not a:
        return False
    if exists:
        return m == 'unwrap_or' and len(a) == 2 and a[1] == FALSE and _is_site(a[0], call, fpath) or \
            m == 'unwrap_or_default' and _is_site(a[0], call, fpath)
    if m in ('is_ok', 'is_err'):
        return _is_site(a[0], call, fpath)
    if m == 'is_ok_and' and len(a) == 2:
        return _is_site(a[0], call, fpath) and _pure_predicate(prog, a[1])
    if m == 'map_or' and len(a) == 3:
        return _is_site(a[0], call, fpath) and a[1] == FALSE and _pure_predicate(prog, a[2])
    if m in ('unwrap_or', 'unwrap_or_default') and (m == 'unwrap_or_default' or (len(a) == 2 and a[1] == FALSE)):
        r = strip(a[0])
        return r[0] == 'call' and r[1] == RESULT + 'map' and len(r[2]) == 2 and _is_site(r[2][0], call, fpath) \
            and _pure_predicate(prog, r[2][1])
    return False


def stat_predicate(prog, sl, f, call, fates, _depth=0):
    """every fate of the stat query's Result is its consumption as a boolean path predicate"""
    name = call.name or ''
    if name in (RESULT + 'map', RESULT + 'as_ref') and _depth < 3:
        # a combinator applied to the stat query is a site of its own (`stat.map(pure)` is a Result<bool, io::Error>):
        # it inherits the reading of the query it transforms
        from .lib.discard import result_fates
        v = strip(sl._call_value(f, call, set(), 0))
        r = strip(v[2][0]) if v[0] == 'call' and v[2] else None
        if r is None or r[0] != 'call' or len(r) < 4 or not r[3] or r[3][0] != f.path:
            return False
        origin = f.call_at(r[3][1])
        if origin is None or origin is call:
            return False
        return stat_predicate(prog, sl, f, origin, result_fates(prog, f, origin), _depth + 1)
    exists = name in EXISTS_QUERIES
    if not (exists or name in STAT_QUERIES):
        return False
    if not fates:
        return False
    for x in fates:
        via = x.via
        if x.kind != 'discarded' or via is None or via.indirect or (via.dty or '') != 'bool':
            return False
        if not via.dest or len(via.dest) != 1:
            return False
        v = sl._call_value(f, via, set(), 0)
        if not _predicate_shape(prog, v, call, f.path, exists):
            return False
    return True
