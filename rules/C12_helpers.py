"""Helpers of rule C12: obligations restated on values / cases instead of one spelling.

* `helper_cases`   — the result of the best-effort (NotFound-tolerating) helper decomposed into cases
                     (input returned unchanged / error returned / a *fresh* Ok produced), through local copies and
                     through `Result::or_else(|e| ..)`, each case with the block whose guards decide it.
* `fresh_ok_guard` — is a fresh Ok produced only under Err(e) && not-found(e).
* `stat_predicate` — a stat query (`fs::metadata(p)` ..) whose Result is consumed only as a boolean path predicate
                     (`.is_ok()`, `.is_ok_and(|m| m.is_file())`, `.map(|m| m.is_dir()).unwrap_or(false)`): this *is*
                     std's definition of `Path::exists / is_file / is_dir / is_symlink`, which issue the same stat and
                     are outside the property's operation list (open, write, mkdir, unlink, rmdir, rename, chmod).
"""
from .lib.guards import conditions_ctx
from .lib.paths import strip
from .lib.mir import op_place

RESULT = 'std::result::Result::<T, E>::'
OPTION = 'std::option::Option::<T>::'


# ------------------------------------------------------------------------------------------------ R2: helper cases

def _origin_defs(fn, local, seen=None):
    """definitions of `local`, looking through plain copies / moves of whole locals"""
    seen = set() if seen is None else seen
    if local in seen:
        return
    seen.add(local)
    for d in fn.whole_defs(local):
        if d[0] == 'stmt' and d[3]['r'] == 'use':
            pl = op_place(d[3]['o'])
            if pl and len(pl) == 1 and pl[0] > fn.argc and fn.whole_defs(pl[0]):
                for x in _origin_defs(fn, pl[0], seen):
                    yield x
                continue
        yield d


def _is_payload(p, in_val, variant):
    """p is the `variant` payload of the input result"""
    if in_val is None:
        return False
    if variant == 'Ok' and p[0] == 'unwrap' and strip(p[1]) == in_val:
        return True
    q = p
    while q[0] in ('unwrap', 'updated'):
        q = q[1]
    if q[0] == 'field' and q[2] in ('0', 0) and q[1][0] == 'variant' and q[1][2] == variant and strip(q[1][1]) == in_val:
        return True
    return False


class Case:
    def __init__(self, kind, fn, bb, ctx_err, value, where):
        self.kind = kind        # 'same' | 'err' | 'fresh_ok' | 'other'
        self.fn = fn
        self.bb = bb
        self.ctx_err = ctx_err  # the context already implies that the input is Err (inside `or_else`)
        self.value = value
        self.where = where


def helper_cases(prog, sl, f, depth=0, in_val='param', ctx_err=False):
    """decompose what `f` (Result<T, io::Error> -> Result<T, io::Error>) returns"""
    if in_val == 'param':
        in_val = ('paramidx', 1)
    if isinstance(in_val, tuple) and in_val and in_val[0] == 'paramidx':
        in_val = sl.local(f, in_val[1]) if f.argc >= in_val[1] else None
        in_val = strip(in_val) if in_val is not None else None
    out = []
    for d in _origin_defs(f, 0):
        bb = d[1]
        where = '%s:%d' % (f.file, f.line)
        if d[0] == 'stmt':
            v = sl._rvalue(f, d[3], set(), 0, None)
        elif d[0] == 'call':
            v = sl._call_value(f, d[3], set(), 0)
            where = d[3].where()
        else:
            out.append(Case('other', f, bb, ctx_err, ('const', '?'), where))
            continue
        out.extend(_classify(prog, sl, f, bb, v, in_val, ctx_err, where, depth))
    return out


def _classify(prog, sl, f, bb, v, in_val, ctx_err, where, depth):
    s = strip(v)
    if in_val is not None and s == in_val:
        return [Case('same', f, bb, ctx_err, v, where)]
    if s[0] == 'phi':
        out = []
        for a in s[1]:
            out.extend(_classify(prog, sl, f, bb, a, in_val, ctx_err, where, depth))
        return out
    if s[0] == 'agg' and (s[1] or '').endswith('result::Result'):
        payload = dict(s[3]).get('0', dict(s[3]).get(0))
        if s[2] == 'Err':
            return [Case('err', f, bb, ctx_err, v, where)]
        if s[2] == 'Ok':
            if payload is not None and _is_payload(payload, in_val, 'Ok'):
                return [Case('same', f, bb, ctx_err, v, where)]
            return [Case('fresh_ok', f, bb, ctx_err, v, where)]
    if s[0] == 'call' and s[1] == RESULT + 'or_else' and len(s[2]) == 2 and in_val is not None \
            and strip(s[2][0]) == in_val and depth < 3:
        # `input.or_else(h)`: Ok(v) is passed through untouched; on Err(e) the result is h(e)
        h = s[2][1]
        g = prog.fns.get(h[1]) if h[0] in ('closure', 'fnitem') else None
        if g is not None:
            return [Case('same', f, bb, ctx_err, v, where)] + \
                helper_cases(prog, sl, g, depth + 1, in_val=None, ctx_err=True)
    fw = _forwarded(prog, f, s, in_val) if depth < 4 else None
    if fw:
        # `helper(input)` — the input handed by value, unchanged, to workspace function(s) whose result is returned
        # (an extension-trait method / a thin wrapper delegating to the real helper): the cases are the callee's,
        # read on *its* parameter; 'same' there (its input returned unchanged) is 'same' here
        out = []
        for g, i in fw:
            out.extend(helper_cases(prog, sl, g, depth + 1, in_val=('paramidx', i), ctx_err=ctx_err))
        return out
    return [Case('other', f, bb, ctx_err, v, where)]


def _forwarded(prog, f, s, in_val):
    """s (a stripped value of `f`) is a direct call of workspace function(s) taking `in_val` by value in exactly one
    argument position and returning a Result: [(callee, 1-based parameter index)], else None"""
    if in_val is None or s[0] != 'call' or len(s) < 4 or not s[3] or s[3][0] != f.path:
        return None
    call = f.call_at(s[3][1])
    if call is None or call.indirect:
        return None
    idxs = [i for i, a in enumerate(s[2]) if strip(a) == in_val]
    if len(idxs) != 1:
        return None
    callees = prog.callee_fns(call)
    if not callees:
        return None
    out = []
    for g in callees:
        if g.kind == 'Closure' or g is f or idxs[0] >= g.argc or not g.ret.startswith('std::result::Result<'):
            return None
        out.append((g, idxs[0] + 1))
    return out


def helper_family(prog, sl, f, depth=0):
    """the NotFound-tolerating helper together with the workspace functions it merely forwards its input to
    (`impl IoResultExt for io::Result<T> { fn or_default(self) { default_on_not_found(self) } }`): R2 judges the cases
    of the whole chain, so every member *is* the helper as far as its call sites (R4) and its parameter (R5) go"""
    out = {f.path}
    if depth > 3 or f.argc < 1:
        return out
    in_val = strip(sl.local(f, 1))
    for d in _origin_defs(f, 0):
        if d[0] != 'call':
            continue
        s = strip(sl._call_value(f, d[3], set(), 0))
        for g, i in (_forwarded(prog, f, s, in_val) or ()):
            if i == 1:
                out |= helper_family(prog, sl, g, depth + 1)
    return out


def _is_kind_of_error(x):
    x = strip(x)
    return x[0] == 'call' and x[1] == 'std::io::Error::kind'


def _is_not_found(x):
    x = strip(x)
    return x[0] == 'agg' and x[2] == 'NotFound' and (x[1] or '').endswith('io::ErrorKind')


def _nf_select(val, oc):
    """the tested boolean `val` (a view of a guard, private boolean helpers inlined) is a per-variant table over
    `error.kind()` that has the outcome `oc` exactly for ErrorKind::NotFound: `matches!(e.kind(), NotFound)` however the
    predicate around it is named, or its negation tested for false"""
    if val[0] != 'select' or not _is_kind_of_error(val[1]) or not (val[2] or '').endswith('io::ErrorKind'):
        return False
    if not all(rv[0] == 'const' and isinstance(rv[1], bool) for _, rv in val[3]):
        return False
    return sorted(n for ns, rv in val[3] if rv[1] == oc for n in ns) == ['NotFound']


def inverse_predicate(sl, g):
    """`g(e: &io::Error) -> bool` written as one expression that is *false* exactly for ErrorKind::NotFound of its
    parameter (`!matches!(e.kind(), NotFound)`, `matches!(e.kind(), <everything else>)`)"""
    if g.ret != 'bool' or g.argc != 1:
        return False
    v, oc = strip(sl.local(g, 0)), True
    while v[0] == 'un' and v[1] == 'Not':
        v, oc = strip(v[2]), (not oc)
    if v[0] != 'select' or not _is_kind_of_error(v[1]) or strip(strip(v[1])[2][0])[0] != 'param':
        return False
    return _nf_select(v, not oc)


def fresh_ok_guard(prog, sl, case, pred_name):
    """(is_err, not_found, conds): the guards under which a fresh Ok is produced"""
    conds = conditions_ctx(prog, case.fn, case.bb, sl)
    is_err = case.ctx_err or any(c.kind == 'variant' and c.outcome == frozenset({'Err'}) for c in conds)
    nf = False
    for c in conds:
        if c.kind == 'bool':
            for val, oc in c.views():
                if _nf_select(val, oc):
                    nf = True
                if oc is not True:
                    continue
                if val[0] == 'call' and val[1] == pred_name:
                    nf = True
                elif val[0] == 'call' and val[1].endswith('::eq') and len(val[2]) == 2 and \
                        ((_is_kind_of_error(val[2][0]) and _is_not_found(val[2][1])) or
                         (_is_kind_of_error(val[2][1]) and _is_not_found(val[2][0]))):
                    nf = True
        elif c.kind == 'variant' and c.outcome == frozenset({'NotFound'}) and c.subject is not None \
                and _is_kind_of_error(c.subject):
            nf = True
    return is_err, nf, conds


# ------------------------------------------------------------------------------------------------ R1: stat predicates

STAT_QUERIES = ('std::fs::metadata', 'std::fs::symlink_metadata', 'std::path::Path::metadata',
                'std::path::Path::symlink_metadata')
EXISTS_QUERIES = ('std::path::Path::try_exists', 'std::fs::exists')
PURE_METADATA = ('std::fs::Metadata::is_file', 'std::fs::Metadata::is_dir', 'std::fs::Metadata::is_symlink',
                 'std::fs::Metadata::file_type', 'std::fs::FileType::is_file', 'std::fs::FileType::is_dir',
                 'std::fs::FileType::is_symlink')
FALSE = ('const', False)


def _pure_predicate(prog, h):
    """a closure / fn item `|m: Metadata| -> bool` that only asks the Metadata for the file type"""
    g = prog.fns.get(h[1]) if h[0] in ('closure', 'fnitem') else None
    if g is None:
        return h[0] == 'fnitem' and h[1] in PURE_METADATA
    if g.ret != 'bool':
        return False
    return all((not c.indirect) and c.name in PURE_METADATA for c in g.calls)


def _is_site(v, call, fpath):
    v = strip(v)
    while v[0] == 'call' and v[1] in (RESULT + 'as_ref',) and v[2]:
        v = strip(v[2][0])
    return v[0] == 'call' and len(v) > 3 and v[3] == (fpath, call.bb) and (v[1] == call.name or v[1] == call.decl)


def _predicate_shape(prog, v, call, fpath, exists):
    """v (a bool) is `stat.is_ok()` / `stat.is_ok_and(pure)` / `stat.map_or(false, pure)` /
    `stat.map(pure).unwrap_or(false)`; for try_exists: `.unwrap_or(false)` / `.is_ok_and(|b| b)`-free forms"""
    v = strip(v)
    if v[0] != 'call' or not v[1].startswith(RESULT):
        return False
    m, a = v[1][len(RESULT):], v[2]
    if not a:
        return False
    if exists:
        return m == 'unwrap_or' and len(a) == 2 and a[1] == FALSE and _is_site(a[0], call, fpath) or \
            m == 'unwrap_or_default' and _is_site(a[0], call, fpath)
    if m in ('is_ok', 'is_err'):
        return _is_site(a[0], call, fpath)
    if m == 'is_ok_and' and len(a) == 2:
        return _is_site(a[0], call, fpath) and _pure_predicate(prog, a[1])
    if m == 'map_or' and len(a) == 3:
        return _is_site(a[0], call, fpath) and a[1] == FALSE and _pure_predicate(prog, a[2])
    if m in ('unwrap_or', 'unwrap_or_default') and (m == 'unwrap_or_default' or (len(a) == 2 and a[1] == FALSE)):
        r = strip(a[0])
        return r[0] == 'call' and r[1] == RESULT + 'map' and len(r[2]) == 2 and _is_site(r[2][0], call, fpath) \
            and _pure_predicate(prog, r[2][1])
    return False


def stat_predicate(prog, sl, f, call, fates, _depth=0):
    """every fate of the stat query's Result is its consumption as a boolean path predicate"""
    name = call.name or ''
    if name in (RESULT + 'map', RESULT + 'as_ref') and _depth < 3:
        # a combinator applied to the stat query is a site of its own (`stat.map(pure)` is a Result<bool, io::Error>):
        # it inherits the reading of the query it transforms
        from .lib.discard import result_fates
        v = strip(sl._call_value(f, call, set(), 0))
        r = strip(v[2][0]) if v[0] == 'call' and v[2] else None
        if r is None or r[0] != 'call' or len(r) < 4 or not r[3] or r[3][0] != f.path:
            return False
        origin = f.call_at(r[3][1])
        if origin is None or origin is call:
            return False
        return stat_predicate(prog, sl, f, origin, result_fates(prog, f, origin), _depth + 1)
    exists = name in EXISTS_QUERIES
    if not (exists or name in STAT_QUERIES):
        return False
    if not fates:
        return False
    for x in fates:
        via = x.via
        if x.kind != 'discarded' or via is None or via.indirect or (via.dty or '') != 'bool':
            return False
        if not via.dest or len(via.dest) != 1:
            return False
        v = sl._call_value(f, via, set(), 0)
        if not _predicate_shape(prog, v, call, f.path, exists):
            return False
    return True


# ------------------------------------------------------------------------------------------------ R4: Err never ends in success
#
# R1 asks "is the error value dropped?".  R4 asks the property's own question: can the function (or closure) reach one of
# its *success* outcomes although this Result was Err?  `ok_on_success` decides the plain shapes (`?`, unwrap, returned,
# Ok-preserving combinators, match whose Err arms fail).  What remains is explained case by case:
#   * the value is handed to the NotFound-tolerating helper (R2) / to an inline `or_else` that produces Ok only under the
#     not-found predicate — accepted only for *deletes* (the property excludes not-found on best-effort deletes only);
#   * the value is matched and an Err arm continues: every CFG path from the Err arm to a success site must cross an
#     edge that confines the error to a variant carrying no I/O error (a TOML parse error) or to ErrorKind::NotFound.
# Everything else is a violation (a success path exists for an I/O failure) or unproven (shape not recognised).
#
# "Success outcome" is stated on what the function's result *means*, not on how it is spelt (`_chosen_outcomes`):
#   * `Result<..>`: every definition of the return value other than `Err(..)` / `from_residual`;
#   * an integer that is only ever the process exit status (`exit(run(..))`, `exit_code_fn`): every definition other than a
#     non-zero constant — `return CODE` inside `run` is `exit(CODE)` in place (mutants C12-r4-single-exit-status-*);
#   * `Option<Result<..>>` (element closures of `filter_map` / `map_while`): every definition other than `Some(Err(..))`;
#     `Some(result)` keeps the Result inside the carrier, whose consumer R5 judges (mutants C12-r4-process-dirs-closure-*);
#   * anything else: every return.

from .lib.mir import op_const, const_value
from .lib.value import walk

IO_CARRY = ('std::io::Error', 'TomlFileError', 'ReadLayerError', 'WriteLayerError', 'DeleteLayerError', 'LayerError',
            'WriteLayerMetadataError', 'ReplaceLayerSbomsError', 'ReplaceLayerExecdProgramsError',
            'LayerErrorOrBuildpackError', 'libcnb::error::Error')
DELETES = ('std::fs::remove_file', 'std::fs::remove_dir', 'std::fs::remove_dir_all')
TRY = 'std::ops::Try::branch'
EXIT = 'std::process::exit'
ORDER = {'ok': 0, 'tolerated': 1, 'unproven': 2, 'violated': 3}


def _nonzero(v):
    return isinstance(v, int) and not isinstance(v, bool) and v != 0


def worst(results):
    results = [r for r in results if r is not None]
    if not results:
        return ('ok', '')
    return max(results, key=lambda r: ORDER[r[0]])


def _base_name(n):
    return (n or '').split('::<')[0] if (n or '').startswith('std::fs::') else (n or '')


def _is_try(c):
    ns = c.names()
    return TRY in ns or any(n.endswith('as std::ops::Try>::branch') for n in ns)


class ErrFlow:
    def __init__(self, prog, sl, roles):
        self.prog, self.sl, self.roles = prog, sl, roles
        self.helper = roles.get('NOT_FOUND_HELPER') or 'libcnb::util::default_on_not_found'
        hf = prog.fns.get(self.helper)
        self.helpers = helper_family(prog, sl, hf) if hf is not None else {self.helper}
        self.pred = roles.get('NOT_FOUND_PRED') or 'libcnb::util::is_not_found_error_kind'
        self.remover = roles.get('REMOVER') or 'libcnb::util::remove_dir_recursively'
        self._memo = {}
        self._succ = {}
        self._deleters = {}
        self._errlocal = {}
        self._exitfn = {}

    # ---- success blocks of a function: where it commits to a non-error outcome
    def success_blocks(self, f):
        if f.path in self._succ:
            return self._succ[f.path]
        from .lib.effects import success_sites
        chosen = self._chosen_outcomes(f)
        if chosen is not None:
            # the function's return value *is* its outcome (an exit status / an Option<Result> element): it succeeds
            # where that value is chosen to be something other than a failure
            out = set(chosen)
        else:
            out = {s.bb for s in success_sites(f)}
            if not f.ret.startswith('std::result::Result<'):
                out |= set(f.return_blocks())
        for c in f.calls:
            if not c.indirect and c.is_(EXIT) and c.args:
                v = const_value(op_const(c.args[0])) if op_const(c.args[0]) else None
                if v is None:
                    sv = strip(self.sl.operand(f, c.args[0]))
                    v = sv[1] if sv[0] == 'const' else None
                if _nonzero(v):
                    continue
                # `let code = match r { Ok(c) => c, Err(e) => { on_error(e); 1 } }; exit(code)`: the process succeeds
                # where the exit code is *chosen* to be something other than a non-zero constant
                pl = op_place(c.args[0])
                chosen = self._status_choices(f, pl[0], c.bb) if pl and len(pl) == 1 else None
                out |= chosen if chosen is not None else {c.bb}
        self._succ[f.path] = out
        return out

    def _failing_status(self, f, d):
        """the definition `d` of an exit status is a failure: a non-zero constant, or
        `r.unwrap_or_else(|e| { on_error(e); NONZERO })` (decided at that call)"""
        if d[0] == 'stmt':
            v = strip(self.sl._rvalue(f, d[3], set(), 0, None))
            return v[0] == 'const' and _nonzero(v[1])
        return d[0] == 'call' and self._fallback_exit_code(f, d[3])

    def _status_choices(self, f, local, use_bb):
        """blocks in which the exit status held in `local` (consumed in `use_bb`: `exit(local)` / `return local`) is
        *chosen* to be something other than a failure; None: not decidable from its definitions.
        `let code = match r { Ok(c) => c, Err(e) => { on_error(e); 1 } }; exit(code)`: the process succeeds in the Ok arm.
        When no definition is a failure the consuming block itself is a success site too — the status may have been
        chosen before the Result was inspected (`let mut code = 0; if let Err(e) = r { log(e) } exit(code)`)."""
        defs = list(_origin_defs(f, local))
        if not defs or not all(d[0] in ('stmt', 'call') for d in defs):
            return None
        out = {d[1] for d in defs if not self._failing_status(f, d)}
        if len(out) == len({d[1] for d in defs}):
            out.add(use_bb)
        return out

    INT_TYPES = ('i8', 'i16', 'i32', 'i64', 'i128', 'isize', 'u8', 'u16', 'u32', 'u64', 'u128', 'usize')

    def exit_code_fn(self, g):
        """`fn run(..) -> i32` whose value is only ever the process exit status: a private function every call site of
        which hands the returned integer to `process::exit` (through moves, or by returning it from a function of the
        same kind).  `exit(run(..))` with `return CODE` inside `run` is `exit(CODE)` in place."""
        if g.path in self._exitfn:
            return self._exitfn[g.path]
        self._exitfn[g.path] = False
        ok = False
        if g.ret in self.INT_TYPES and g.kind != 'Closure' and g.vis != 'pub' and not g.derived:
            sites = self.prog.callers().get(g.path, ())
            ok = bool(sites)
            for c in sites:
                if c.indirect or not any(h is g for h in self.prog.callee_fns(c)) or not c.dest or len(c.dest) != 1:
                    ok = False      # handed on as a fn item / stored: the integer's meaning is not known
                    break
                if list(c.dest) == [0]:
                    if not (c.fn is not g and self.exit_code_fn(c.fn)):
                        ok = False
                        break
                elif not self.exit_code_local(c.fn, c.dest[0]):
                    ok = False
                    break
        self._exitfn[g.path] = ok
        return ok

    def _chosen_outcomes(self, f):
        """blocks in which `f` chooses a *success* value for a return value that is itself the outcome; None when the
        return value is not of that kind (the ordinary success sites apply).
        * an exit-code function (`exit_code_fn`): every definition of the returned integer other than a non-zero
          constant (and other than `r.unwrap_or_else(|e| {..; NONZERO})`, decided at that call);
        * a function / closure returning `Option<Result<_, E>>` (the element function of `filter_map` / `map_while`,
          a helper around `Iterator::next`): every definition other than `Some(Err(..))` — `None` (element skipped,
          end of stream) and `Some(Ok(..))` are successes, `Some(<a Result>)` passes that Result on (R5 checks the
          consumer of the carrier)."""
        if self.exit_code_fn(f):
            out = set()
            for d in f.whole_defs(0):
                if d[0] not in ('stmt', 'call'):
                    return None
                src = op_place(d[3]['o']) if d[0] == 'stmt' and d[3]['r'] == 'use' else None
                if src and len(src) == 1 and src[0] > f.argc and f.whole_defs(src[0]):
                    chosen = self._status_choices(f, src[0], d[1])      # `_0 = move code`
                    if chosen is None:
                        return None
                    out |= chosen
                elif not self._failing_status(f, d):
                    out.add(d[1])
            return out
        if f.ret.startswith('std::option::Option<std::result::Result<'):
            defs = list(f.whole_defs(0))
            if not defs or not all(d[0] in ('stmt', 'call') for d in defs):
                return None
            out = set()
            for d in defs:
                if d[0] == 'stmt':
                    v = strip(self.sl._rvalue(f, d[3], set(), 0, None))
                    if v[0] == 'agg' and v[2] == 'Some' and (v[1] or '').endswith('option::Option'):
                        payload = dict(v[3]).get('0', dict(v[3]).get(0))
                        p = strip(payload) if payload is not None else None
                        if p is not None and p[0] == 'agg' and p[2] == 'Err' and (p[1] or '').endswith('result::Result'):
                            continue
                out.add(d[1])
            return out
        return None

    MUTATING = ('std::fs::write', 'std::fs::create_dir', 'std::fs::create_dir_all', 'std::fs::set_permissions',
                'std::fs::rename', 'std::fs::copy', 'std::fs::hard_link', 'std::fs::File::create', 'std::fs::File::create_new',
                'std::fs::OpenOptions::open', 'std::os::unix::fs::symlink', 'std::io::Write::write_all',
                'std::io::Write::write', 'std::io::Write::flush', 'std::fs::File::set_permissions', 'std::fs::File::sync_all')

    def mutates(self, origin):
        """may the operation that produced the Result create / change (not merely read or delete) file-system state?
        NotFound is an expected answer only for reads of optional inputs and for deletes"""
        if origin is None or origin.indirect:
            return True
        if self.is_delete(origin):
            return False
        ns = {_base_name(n) for n in origin.names()}
        if ns & set(self.MUTATING):
            return True
        callees = self.prog.callee_fns(origin)
        if not callees:
            return not any(n.startswith(('std::fs::read', 'std::fs::metadata', 'std::fs::symlink_metadata', 'std::fs::File::open',
                                         'std::path::Path::', 'std::io::Read::', 'std::fs::DirEntry::', 'std::io::read_to_string'))
                           for n in ns)
        for g in self.prog.reach(callees).values():
            for c in g.calls:
                if not c.indirect and {_base_name(n) for n in c.names()} & set(self.MUTATING):
                    return True
        return False

    def exit_code_local(self, f, local, depth=0):
        """every use of the local is `process::exit(local)` (possibly through moves, or as the return value of a
        function whose value is only ever an exit status)"""
        if local == 0:
            return self.exit_code_fn(f)
        uses = [u for u in f.uses_of(local) if u[1] != 'drop']
        if not uses or depth > 4:
            return False
        for (bi, kind, idx, how, pl) in uses:
            if len(pl) != 1:
                return False
            if kind == 'arg':
                c = f.call_at(bi)
                if c is None or c.indirect or not c.is_(EXIT):
                    return False
            elif kind == 'stmt':
                st = f.blocks[bi]['s'][idx]
                if st[2]['r'] != 'use' or len(st[1]) != 1 or not self.exit_code_local(f, st[1][0], depth + 1):
                    return False
            else:
                return False
        return True

    def _fallback_exit_code(self, f, c2):
        """`result.unwrap_or_else(|e| { ..; NONZERO })` whose value is only ever the process exit code: on Err the
        process exits non-zero — a failure outcome, not a fallback value"""
        if c2.indirect or not c2.is_(RESULT + 'unwrap_or_else') or not c2.dest or len(c2.dest) != 1:
            return False
        v, g = self._closure_of(f, c2, 1)
        if g is None or not self.exit_code_local(f, c2.dest[0]):
            return False
        rv = strip(self.sl.local(g, 0))
        alts = rv[1] if rv[0] == 'phi' else (rv,)
        return bool(alts) and all(strip(a)[0] == 'const' and _nonzero(strip(a)[1]) for a in alts)

    def is_delete(self, origin):
        """origin: the Call that produced the Result (None: unknown): a std delete, or a workspace routine that only
        deletes (its reach contains deletes and — apart from chmod, needed to empty read-only directories — nothing
        that creates or changes files)"""
        if origin is None or origin.indirect:
            return False
        ns = {_base_name(n) for n in origin.names()}
        if ns & set(DELETES):
            return True
        callees = self.prog.callee_fns(origin)
        if not callees:
            return False
        key = tuple(sorted(g.path for g in callees))
        if key not in self._deleters:
            dels = muts = 0
            for g in self.prog.reach(callees).values():
                for c in g.calls:
                    if c.indirect:
                        continue
                    cn = {_base_name(n) for n in c.names()}
                    dels += bool(cn & set(DELETES))
                    muts += bool(cn & (set(self.MUTATING) - {'std::fs::set_permissions', 'std::fs::File::set_permissions'}))
            self._deleters[key] = dels > 0 and muts == 0
        return self._deleters[key]

    def overwritten(self, f, call):
        """the destination of the call is assigned again (another arm, the next loop iteration) on a path on which it
        has not been read in between: `let mut result = Ok(()); for x in xs { result = write(x); } result`"""
        if not call.dest or len(call.dest) != 1 or call.dest[0] == 0:
            return False
        return self.local_overwritten(f, call.dest[0], call.bb, None)

    def alias_overwritten(self, f, r, seen=None):
        """the Result is moved into a variable (`result = write(x)`) that is overwritten before it is inspected"""
        seen = set() if seen is None else seen
        if r in seen or len(seen) > 8:
            return False
        seen.add(r)
        for (bi, kind, idx, how, pl) in f.uses_of(r):
            if kind != 'stmt' or len(pl) != 1:
                continue
            st = f.blocks[bi]['s'][idx]
            if st[2]['r'] == 'use' and len(st[1]) == 1 and st[1][0] != 0:
                if self.local_overwritten(f, st[1][0], bi, idx) or self.alias_overwritten(f, st[1][0], seen):
                    return True
        return False

    def local_overwritten(self, f, r, def_bb, def_idx):
        """def_idx: statement index of the assignment inside def_bb (None: the block's terminating call)"""
        defs = {d[1] for d in f.whole_defs(r)}
        if len(defs) < 2 and not f.in_loop(def_bb):
            return False
        real = [u for u in f.uses_of(r) if u[1] != 'drop' and u[3] != 'discr']
        if def_idx is not None and any(u[0] == def_bb and (u[1] != 'stmt' or u[2] > def_idx) for u in real):
            return False      # read later in the defining block itself
        uses = {u[0] for u in real}
        seen, work = set(), list(self._err_succs(f, def_bb, r))
        while work:
            b = work.pop()
            if b in seen:
                continue
            seen.add(b)
            if b in uses:
                continue
            if b in defs:
                return True
            work.extend(self._err_succs(f, b, r))
        return False

    def _err_succs(self, f, b, r):
        """successors of b on which the Result in local r may still be Err (a switch on its discriminant: not the Ok edge)"""
        from .lib.guards import _discr_info
        t = f.blocks[b]['t']
        if t['t'] == 'switch':
            di = _discr_info(f, b, t['o'])
            if di and list(di[0]) == [r]:
                place, vmap, enum = di
                listed = [v for v, _ in t['targets']]
                out = [tb for v, tb in t['targets'] if vmap.get(v) not in ('Ok', 'Some')]
                if any(n not in ('Ok', 'Some') for v, n in vmap.items() if v not in listed):
                    out.append(t['else'])
                return out
            # a test of the error itself: an edge taken only for a variant that carries no I/O error / only for NotFound
            # is the *inspected* continuation that `_err_arms` judges (tolerated, or violated for NotFound on a mutating
            # operation) — the failure is not "lost unseen" along it; an edge that cannot be taken on Err is dead
            v = self.sl.local(f, r)
            roots = {v, strip(v)}
            out = []
            for tb, cond in self._edges(f, b):
                if self._classify_edge(cond, roots) in ('confine', 'confine-nf', 'dead'):
                    continue
                out.append(tb)
            return out
        return f.succs(b)

    # ---- the operation a Result comes from, looking through combinators that keep Err an Err
    RESULT_COMBINATORS = {RESULT + m for m in ('map', 'map_err', 'inspect_err', 'inspect', 'as_ref', 'as_mut')} | \
        {'std::result::Result::<&T, E>::cloned', 'std::result::Result::<&T, E>::copied', 'std::hint::must_use'}

    def origin_of(self, f, call):
        """`op(..).map(Some).map_err(wrap)` is still the Result *of op* as far as "which file operation failed" is
        concerned: the receiver chain of Err-preserving Result combinators is followed back to the call that produced
        the Result (one definition at every step; anything else keeps the combinator itself, which no tolerance accepts).
        `and_then` is not followed: its closure can fail with an error of a different operation"""
        seen = 0
        while call is not None and not call.indirect and call.names() & self.RESULT_COMBINATORS and call.args and seen < 12:
            seen += 1
            pl = op_place(call.args[0])
            if not pl or len(pl) != 1 or pl[0] <= f.argc:
                break
            defs = list(_origin_defs(f, pl[0]))
            if len(defs) != 1 or defs[0][0] != 'call' or defs[0][3].indirect:
                break
            call = defs[0][3]
        return call

    # ---- public: a call site
    def site(self, f, call, depth=0, origin=None):
        """origin: the operation whose Result reaches `call` as its receiver (only meaningful when `call` is an
        Err-preserving combinator); by default it is recovered from the receiver chain"""
        combinator = (not call.indirect) and bool(call.names() & self.RESULT_COMBINATORS)
        if not combinator:
            origin = call
        elif origin is None:
            origin = self.origin_of(f, call)
        key = (f.path, call.bb, (origin.fn.path, origin.bb) if origin is not None else None)
        if key in self._memo:
            return self._memo[key]
        if self.overwritten(f, call) or (call.dest and len(call.dest) == 1 and call.dest[0] != 0 and self.alias_overwritten(f, call.dest[0])):
            self._memo[key] = ('violated', 'the Result is overwritten by a later assignment before it is inspected: an '
                                           'earlier failure is lost')
            return self._memo[key]
        self._memo[key] = ('unproven', 'recursive')
        from .lib.discard import ok_on_success
        try:
            oks = ok_on_success(self.prog, f, call, self.success_blocks(f))
        except Exception as e:   # fail closed
            oks = False
        if oks:
            r = ('ok', 'reaching a success site implies Ok')
        elif call.dest is None or len(call.dest) != 1:
            r = ('unproven', 'the Result is written into a field / has no destination')
        else:
            r = self.place(f, list(call.dest), origin, depth)
        self._memo[key] = r
        return r

    # ---- the core: a place holding a Result<_, E>
    def place(self, f, root, origin, depth=0):
        if depth > 6:
            return ('unproven', 'nesting too deep')
        prog, sl = self.prog, self.sl
        from .lib.discard import PANICKING, OK_PRESERVING, DISCARDING, diverges
        aliases, work = [], [list(root)]
        results = []
        sinks = set()
        switches = []      # (switch bb, variants map, listed, else)
        while work:
            P = work.pop()
            if P in aliases:
                continue
            aliases.append(P)
            for (bi, kind, idx, how, pl) in f.uses_of(P[0]):
                pl = list(pl)
                if pl[:len(P)] != P or kind == 'drop':
                    continue
                rest = pl[len(P):]
                if kind == 'stmt':
                    st = f.blocks[bi]['s'][idx]
                    target, rv = st[1], st[2]
                    if how == 'discr':
                        if not rest:
                            switches.append((bi, target, dict(rv.get('variants') or ())))
                        continue
                    if rest and rest[0] in ('@Err', '@Ok'):
                        continue
                    if rest:
                        results.append(('unproven', 'projection %s of the Result is read' % ''.join(map(str, rest))))
                        continue
                    if rv['r'] in ('use', 'cast') and how in ('m', 'c'):
                        if list(target) == [0]:
                            sinks.add(bi)          # returned as the function's own result: Err stays Err
                        elif len(target) == 1:
                            if self.local_overwritten(f, target[0], bi, idx):
                                results.append(('violated', 'the Result is assigned to a variable that is overwritten (next loop '
                                                            'iteration / another assignment) before it is inspected: an earlier failure is lost'))
                            work.append([target[0]])
                        else:
                            results.append(('unproven', 'the Result is stored into %s' % (target,)))
                        continue
                    if rv['r'] == 'ref' and len(target) == 1:
                        results.append(self._ref_uses(f, target[0], origin, sinks, depth))
                        continue
                    if rv['r'] == 'agg' and (rv.get('adt') or '').endswith('option::Option') and rv.get('variant') == 'Some' \
                            and how in ('m', 'c') and len(target) == 1:
                        # `Some(result)`: the Result travels on inside an Option (the element of a `filter_map` /
                        # `map_while` closure, `Iterator::next` of a hand-written stream): Err stays Err inside the carrier
                        if list(target) == [0]:
                            sinks.add(bi)      # returned: the consumer of the carrier is a site of R5
                        else:
                            results.append(self.option(f, [target[0]], origin, depth + 1))
                        continue
                    results.append(('unproven', 'the Result is used in rvalue %s' % rv['r']))
                elif kind == 'arg':
                    c2 = f.call_at(bi)
                    results.append(self._arg(f, c2, idx, rest, origin, sinks, depth))
                else:
                    results.append(('unproven', 'the Result is used as %s' % kind))
        # explicit matches: the Err arms
        # a later re-inspection of the same Result (drop elaboration, a second `if let`) is reached on an Err path only
        # through the Err arm of the inspection that dominates it, whose exploration already covers it
        roots_sw = [x for x in switches if not any(y[0] != x[0] and f.dominates(y[0], x[0]) for y in switches)]
        for (db, dtarget, variants) in roots_sw:
            results.append(self._err_arms(f, db, dtarget, variants, aliases, sinks, origin))
        if not results and not sinks:
            return ('violated', 'the Result is never consumed')
        return worst(results)

    def _ref_uses(self, f, rl, origin, sinks, depth):
        """`&result` handed on: only read-only observation that cannot decide the outcome is accepted"""
        from .lib.discard import DISCARDING
        out = []
        for (bi, kind, idx, how, pl) in f.uses_of(rl):
            if kind == 'drop':
                continue
            if kind == 'arg':
                c2 = f.call_at(bi)
                if c2 is not None and not c2.indirect and c2.names() & DISCARDING:
                    out.append(('violated', 'only the success flag of the Result is consulted (%s)' % c2.name))
                    continue
                if c2 is not None and not c2.indirect and c2.is_('std::result::Result::<T, E>::as_ref', 'std::result::Result::<T, E>::as_mut') \
                        and c2.dest and len(c2.dest) == 1:
                    out.append(self.place(f, [c2.dest[0]], origin, depth + 1))
                    continue
            if kind == 'stmt':
                st = f.blocks[bi]['s'][idx]
                if st[2]['r'] in ('use', 'ref', 'cast') and len(st[1]) == 1 and len(pl) <= 2:
                    out.append(self._ref_uses(f, st[1][0], origin, sinks, depth + 1) if depth < 6 else ('unproven', 'deep'))
                    continue
            out.append(('unproven', 'a reference to the Result escapes (%s)' % kind))
        return worst(out) if out else ('ok', '')

    def _closure_of(self, f, c2, ai):
        if ai >= len(c2.args):
            return None, None
        v = strip(self.sl.operand(f, c2.args[ai]))
        if v[0] in ('closure', 'fnitem'):
            return v, self.prog.fns.get(v[1])
        return v, None

    def _arg(self, f, c2, idx, rest, origin, sinks, depth):
        from .lib.discard import PANICKING, OK_PRESERVING, DISCARDING, diverges
        if c2 is None or c2.indirect:
            return ('unproven', 'the Result is an argument of an indirect call')
        if rest:
            if rest[0] in ('@Err', '@Ok'):
                return None
            return ('unproven', 'a projection of the Result is an argument')
        names = c2.names()
        R = RESULT
        if _is_try(c2) or names & PANICKING:
            sinks.add(c2.bb)
            return ('ok', '')
        if idx == 0 and names & OK_PRESERVING:
            sinks.add(c2.bb)
            if c2.dest and list(c2.dest) == [0]:
                return ('ok', '')
            return self.site(f, c2, depth + 1, origin if names & self.RESULT_COMBINATORS else None)
        if idx == 0 and names & {R + 'unwrap_or_else'}:
            v, g = self._closure_of(f, c2, 1)
            if g is not None and diverges(g):
                sinks.add(c2.bb)
                return ('ok', '')
            if self._fallback_exit_code(f, c2):
                sinks.add(c2.bb)
                return ('ok', '')
            return ('violated', 'an Err is replaced by a fallback value in %s: the failure is not returned' % c2.name)
        if idx == 0 and names & {R + 'or_else'}:
            v, g = self._closure_of(f, c2, 1)
            if g is None:
                return ('unproven', 'or_else with an unknown handler')
            cases = helper_cases(self.prog, self.sl, g, 1, in_val=None, ctx_err=True)
            bad = []
            fresh = False
            io_free_only = None      # every fresh Ok is produced under a variant that carries no I/O error
            for cs in cases:
                if cs.kind == 'fresh_ok':
                    fresh = True
                    is_err, nf, conds = fresh_ok_guard(self.prog, self.sl, cs, self.pred)
                    if not nf and cs.fn is g and self._confined_param(g, conds):
                        # `Err(ParseError(_)) => Ok(..)` written as a handler: the same confinement to a variant that
                        # carries no I/O error which `_err_arms` accepts for a match on the Result
                        io_free_only = True if io_free_only is None else io_free_only
                        continue
                    io_free_only = False
                    if not nf:
                        bad.append('Ok(..) is produced for errors other than NotFound')
                elif cs.kind not in ('err', 'same'):
                    bad.append('unrecognised result %s' % (cs.kind,))
            if bad:
                kind = 'violated' if any('NotFound' in b for b in bad) else 'unproven'
                return (kind, 'the inline error handler of or_else: ' + '; '.join(bad))
            # the same tolerance as for a `match` whose Err arm continues under the NotFound guard (_err_arms): a delete,
            # or an operation that creates / changes nothing (the read of an optional input)
            if fresh and io_free_only:
                sinks.add(c2.bb)
                nxt = self.site(f, c2, depth + 1)
                return ('tolerated', 'the inline handler continues only for a variant that carries no I/O error') if nxt[0] == 'ok' else nxt
            if fresh and not self.is_delete(origin) and self.mutates(origin):
                return ('violated', 'NotFound is tolerated on %s, which is neither a delete nor a read of an optional input'
                        % (origin.name if origin else '?'))
            sinks.add(c2.bb)
            nxt = self.site(f, c2, depth + 1)
            if nxt[0] == 'ok' and fresh:
                return ('tolerated', 'only NotFound is turned into success (inline handler) on a %s'
                        % ('best-effort delete' if self.is_delete(origin) else 'read of an optional input'))
            return nxt
        if self.helpers & set(names):
            if idx != 0:
                return ('unproven', 'unexpected argument position of the NotFound helper')
            if not self.is_delete(origin):
                return ('violated', 'the NotFound-tolerating helper is applied to %s, which is not a delete: a failed '
                                    'operation is reported as success' % (origin.name if origin is not None else 'an unknown operation'))
            sinks.add(c2.bb)
            nxt = self.site(f, c2, depth + 1)
            if nxt[0] == 'ok':
                return ('tolerated', 'deliberate best-effort delete: NotFound only (R2), every other error propagates')
            return nxt
        if names & DISCARDING:
            return ('violated', 'the error is dropped by %s' % c2.name)
        # a workspace function taking the Result by value: it must not succeed on Err, and what it returns neither
        callees = self.prog.callee_fns(c2)
        if callees and all(idx < g.argc for g in callees):
            out = [self.place(g, [idx + 1], origin, depth + 1) for g in callees]
            if c2.dty and c2.dty.startswith('std::result::Result<') and c2.dest and len(c2.dest) == 1:
                out.append(self.site(f, c2, depth + 1))
            sinks.add(c2.bb)
            return worst(out)
        return ('unproven', 'the Result is handed to %s' % c2.name)

    # ---- per-edge decisions of one switch block (the logic of guards.conditions for a single switch)
    def _edges(self, f, sb):
        from .lib.guards import _discr_info, Cond
        t = f.blocks[sb]['t']
        if t['t'] != 'switch':
            return []
        by_target = {}
        for v, tb in t['targets']:
            by_target.setdefault(tb, []).append(v)
        by_target.setdefault(t['else'], []).append('else')
        listed = [v for v, _ in t['targets']]
        di = _discr_info(f, sb, t['o'])
        val = self.sl.operand(f, t['o'])
        out = []
        for tb, labels in by_target.items():
            if di:
                place, vmap, enum = di
                names = set()
                for lab in labels:
                    if lab == 'else':
                        names |= {n for v, n in vmap.items() if v not in listed}
                    else:
                        names.add(vmap.get(lab, str(lab)))
                out.append((tb, Cond(f, sb, tb, 'variant', frozenset(names), val, self.sl.place(f, place), enum)))
            elif t.get('oty') == 'bool':
                if labels == ['else'] and listed == [0]:
                    oc = True
                elif labels == [0]:
                    oc = False
                elif labels == [1]:
                    oc = True
                elif labels == ['else'] and listed == [1]:
                    oc = False
                else:
                    out.append((tb, None))
                    continue
                v2 = val
                while v2[0] == 'un' and v2[1] == 'Not':
                    v2, oc = v2[2], (not oc)
                if v2[0] == 'select' and all(rv[0] == 'const' and isinstance(rv[1], bool) for _, rv in v2[3]):
                    names = frozenset(n for ns, rv in v2[3] if rv[1] == oc for n in ns)
                    out.append((tb, Cond(f, sb, tb, 'variant', names, v2, v2[1], v2[2])))
                    continue
                cd = Cond(f, sb, tb, 'bool', oc, v2)
                cd._slicer = self.sl
                out.append((tb, cd))
            else:
                out.append((tb, None))
        return out

    def _io_free(self, enum, names):
        """every listed variant of `enum` carries no I/O-error payload (e.g. a TOML parse error)"""
        adt = self.prog.adts.get(enum) if enum else None
        if not adt or not names:
            return False
        by = {v['name']: v for v in adt.get('variants', ())}
        for n in names:
            v = by.get(n)
            if v is None:
                return False
            for fl in v.get('fields', ()):
                if any(k in fl.get('ty', '') for k in IO_CARRY) or 'dyn ' in fl.get('ty', '') or 'Box<' in fl.get('ty', ''):
                    return False
        return True

    def _mentions(self, v, roots):
        return any(w in roots for w in walk(v))

    def _classify_edge(self, cond, roots):
        """'confine' (only non-I/O / NotFound errors pass), 'dead' (cannot be taken while the Result is Err), or None"""
        if cond is None:
            return None
        from .lib.discard import OK_PRESERVING
        if cond.kind == 'variant':
            subj = cond.subject
            s = strip(subj) if subj is not None else None
            if s is not None and s[0] == 'call' and (s[1] == TRY or s[1].endswith('as std::ops::Try>::branch')) and s[2]:
                a = strip(s[2][0])
                while a[0] == 'call' and a[1] in OK_PRESERVING and a[2]:
                    a = strip(a[2][0])
                if a[0] == 'agg' and a[2] == 'Err' and (a[1] or '').endswith('result::Result') and cond.outcome == frozenset({'Continue'}):
                    return 'dead'
                return None
            if s is not None and self._mentions(subj, roots) and cond.outcome and 'Err' not in cond.outcome and 'Ok' not in cond.outcome:
                if cond.enum and not cond.enum.endswith('result::Result') and self._io_free(cond.enum, cond.outcome):
                    return 'confine'
                if (cond.enum or '').endswith('io::ErrorKind') and cond.outcome == frozenset({'NotFound'}) and _is_kind_of_error(subj):
                    return 'confine-nf'
            return None
        if cond.kind == 'bool':
            for val, oc in cond.views():
                if not self._mentions(val, roots):
                    continue
                if _nf_select(val, oc):
                    return 'confine-nf'
                if val[0] != 'call':
                    continue
                if val[1] == self.pred and oc is True:
                    return 'confine-nf'
                if len(val[2]) == 2 and (val[1].endswith('::eq') or val[1].endswith('::ne')):
                    a, b = val[2]
                    if (_is_kind_of_error(a) and _is_not_found(b)) or (_is_kind_of_error(b) and _is_not_found(a)):
                        if (val[1].endswith('::eq') and oc is True) or (val[1].endswith('::ne') and oc is False):
                            return 'confine-nf'
        return None

    def _confined_param(self, g, conds):
        """one of the guards confines the error parameter of the handler `g` to variants without an I/O payload"""
        i = 2 if g.kind == 'Closure' else 1
        if i > g.argc:
            return False
        v = self.sl.local(g, i)
        roots = {v, strip(v)}
        return any(c.fn is g and self._classify_edge(c, roots) == 'confine' for c in conds)

    def _assigns_propagated_err(self, f, b):
        """the block builds `Err(..)` into a local all of whose consumers end in failure when it is Err
        (`match r { .., Err(e) => Err(wrap(e)) }.map_err(..)?`): an Err path through this block cannot succeed"""
        for st in f.blocks[b]['s']:
            if st[0] != '=' or len(st[1]) != 1 or st[1][0] == 0:
                continue
            rv = st[2]
            if rv['r'] == 'agg' and rv.get('adt') == 'std::result::Result' and rv.get('variant') == 'Err':
                key = (f.path, st[1][0])
                if key not in self._errlocal:
                    self._errlocal[key] = ('unproven', 'recursive')
                    self._errlocal[key] = self.place(f, [st[1][0]], None, 1)
                if self._errlocal[key][0] == 'ok':
                    return True
        return False

    def _err_arms(self, f, db, dtarget, variants, aliases, sinks, origin):
        """CFG paths from the Err arm(s) of a match on the Result to a success site"""
        succ = self.success_blocks(f)
        roots = set()
        for P in aliases:
            v = self.sl.place(f, P) if len(P) > 1 else self.sl.local(f, P[0])
            roots.add(v)
            roots.add(strip(v))
        # the switch consuming the discriminant
        starts = []
        found = False
        for sb, blk in enumerate(f.blocks):
            t = blk['t']
            if t['t'] != 'switch':
                continue
            p = op_place(t['o'])
            if not p or list(p) != list(dtarget):
                continue
            found = True
            listed = [v for v, _ in t['targets']]
            for v, tb in t['targets']:
                if variants.get(v) not in ('Ok', 'Some'):
                    starts.append(tb)
            if any(n not in ('Ok', 'Some') for v, n in variants.items() if v not in listed):
                starts.append(t['else'])
        if not found:
            # discriminant read without a switch (drop elaboration flags): nothing decided here
            return None
        seen, work = set(), list(starts)
        confined = False
        while work:
            b = work.pop()
            if b in seen:
                continue
            seen.add(b)
            if b in sinks or self._assigns_propagated_err(f, b):
                continue
            if b in succ:
                return ('violated', 'an Err arm of the match on this Result reaches the success site bb%d of %s without the error '
                                    'being confined to NotFound / a non-I/O variant' % (b, f.path))
            t = f.blocks[b]['t']
            if t['t'] == 'switch':
                for tb, cond in self._edges(f, b):
                    k = self._classify_edge(cond, roots)
                    if k in ('confine', 'confine-nf'):
                        confined = 'nf' if (k == 'confine-nf' or confined == 'nf') else True
                        continue
                    if k == 'dead':
                        continue
                    work.append(tb)
            else:
                work.extend(f.succs(b))
        if confined == 'nf' and self.mutates(origin):
            return ('violated', 'NotFound is tolerated on %s, which is neither a delete nor a read of an optional input'
                    % (origin.name if origin is not None else 'an unknown operation'))
        if confined:
            return ('tolerated', 'an Err arm continues only for NotFound / for a variant that carries no I/O error')
        return ('ok', 'no Err arm reaches a success site')


# ------------------------------------------------------------------------------------------------ R5: carriers of Results
#
# Errors also travel inside other values: `Option<Result<..>>` (`Iterator::next` of a fallible stream such as
# `fs::read_dir`, `opt.map(fallible)`), iterators whose items are Results (ReadDir, `xs.iter().map(|x| fs::write(..))`)
# and Result-typed parameters of closures handed to adapters.  R1 only sees calls whose own type is `Result<..>`.

import re as _re

FALLIBLE_STREAMS = ('std::fs::ReadDir', 'std::io::Lines', 'std::io::Split', 'std::io::Bytes')
ITEM_OF_FIRST = ('std::iter::Peekable', 'std::iter::Fuse', 'std::iter::Rev', 'std::iter::Skip', 'std::iter::Take',
                 'std::iter::StepBy', 'std::iter::Filter', 'std::iter::Inspect', 'std::iter::SkipWhile',
                 'std::iter::TakeWhile', 'std::iter::Cycle', 'std::iter::Cloned', 'std::iter::Copied', 'std::boxed::Box')
CONTAINERS = ('std::vec::IntoIter', 'std::slice::Iter', 'std::slice::IterMut', 'std::iter::Once', 'std::option::IntoIter',
              'std::vec::Vec', 'std::vec::Drain', 'std::collections::VecDeque', 'std::collections::vec_deque::IntoIter',
              'std::array::IntoIter', 'std::option::Option')
_CLOSURE_RX = _re.compile(r'\{closure@([^:}]+):(\d+):\d+: \d+:\d+\}')


def strip_refs(t):
    t = t.strip()
    while t.startswith('&'):
        t = t[1:].lstrip()
        if t.startswith("'"):
            t = t.split(' ', 1)[1] if ' ' in t else ''
        if t.startswith('mut '):
            t = t[4:]
        t = t.strip()
    return t


def split_type(t):
    """'a::B<C, D<E>>' -> ('a::B', ['C', 'D<E>']); opaque types -> (t, [])"""
    t = t.strip()
    if not t or t[0] in '<{([' or t.startswith(('dyn ', 'impl ', 'fn(', 'for<')):
        return t, []
    i = t.find('<')
    if i < 0 or not t.endswith('>'):
        return t, []
    head, body = t[:i], t[i + 1:-1]
    args, depth, cur = [], 0, ''
    for ch in body:
        if ch in '<([{':
            depth += 1
        elif ch in '>)]}':
            depth -= 1
        if ch == ',' and depth == 0:
            args.append(cur.strip())
            cur = ''
        else:
            cur += ch
    if cur.strip():
        args.append(cur.strip())
    return head, [a for a in args if not a.startswith("'")]


class Carriers:
    def __init__(self, prog, err_rx):
        self.prog, self.err_rx = prog, err_rx
        self.closures = {}
        for g in prog.fns.values():
            if g.kind == 'Closure':
                self.closures.setdefault((g.file, g.line), []).append(g)

    def is_result(self, t):
        t = strip_refs(t)
        return t.startswith('std::result::Result<') and bool(self.err_rx.search(t))

    def is_opt_result(self, t):
        t = strip_refs(t)
        if not t.startswith('std::option::Option<'):
            return False
        h, a = split_type(t)
        return len(a) == 1 and self.is_result(a[0])

    def closure_fns(self, t):
        out = []
        for m in _CLOSURE_RX.finditer(t):
            out.extend(self.closures.get((m.group(1), int(m.group(2))), ()))
        return out

    @staticmethod
    def fn_ret(t):
        """return type of a fn-item / fn-pointer type `fn(A) -> R {path}`"""
        m = _re.match(r'^(?:unsafe )?(?:extern "[^"]*" )?fn\(.*\) -> (.*?)(?: \{.*\})?$', t.strip())
        return m.group(1) if m else None

    def hint(self, t):
        """cheap textual filter: could a value of this type carry a Result<_, E> of the subject?"""
        if any(s in t for s in FALLIBLE_STREAMS):
            return True
        if 'Result<' in t and self.err_rx.search(t):
            return True
        return any(self.is_result(g.ret) or self.is_opt_result(g.ret) for g in self.closure_fns(t))

    def item_type(self, t, depth=0):
        """the type of the items a value of type t yields when iterated, where it can be read off the type; else None"""
        t = strip_refs(t)
        if depth > 8:
            return None
        head, args = split_type(t)
        if head in CONTAINERS and args:
            return args[-1] if head != 'std::vec::Vec' else args[0]
        if head in ITEM_OF_FIRST and args:
            return self.item_type(args[0], depth + 1)
        if head == 'std::iter::Map' and len(args) == 2:
            rets = {g.ret for g in self.closure_fns(args[1])}
            if len(rets) == 1:
                return rets.pop()
            return self.fn_ret(args[1])
        if head in FALLIBLE_STREAMS:
            return 'std::result::Result<_, std::io::Error>'
        return None

    def item_result(self, t, depth=0):
        """True: iterating a value of type t yields Result<_, E> items; False: it does not; None: unknown"""
        t = strip_refs(t)
        if depth > 8:
            return None
        if not self.hint(t):
            return False
        head, args = split_type(t)
        if head in FALLIBLE_STREAMS:
            return True
        if head in ('std::iter::Map',) and len(args) == 2:
            gs = self.closure_fns(args[1])
            if gs:
                return True if any(self.is_result(g.ret) for g in gs) else False
            rt = self.fn_ret(args[1])
            return None if rt is None else self.is_result(rt)
        if head in ('std::iter::FilterMap', 'std::iter::MapWhile') and len(args) == 2:
            gs = self.closure_fns(args[1])
            if gs:
                return True if any(self.is_opt_result(g.ret) for g in gs) else False
            rt = self.fn_ret(args[1])
            return None if rt is None else self.is_opt_result(rt)
        if head == 'std::iter::Flatten' and len(args) == 1:
            # flattening Results yields their payloads (the flatten call itself is the reported consumer)
            inner = self.item_result(args[0], depth + 1)
            if inner is True:
                return False
            # flattening a stream whose items are themselves iterable (`Option<ReadDir>` / `Vec<ReadDir>` /
            # `Option<Result<..>>`): the items of the result are the items of the *item*
            it = self.item_type(args[0], depth + 1)
            if it is None:
                return None
            if self.is_opt_result(it):
                return True
            return self.item_result(it, depth + 1)
        if head == 'std::iter::FlatMap' and len(args) == 3:
            # FlatMap<I, U, F>: the items are those of U (what the closure returns, iterated)
            if self.is_result(args[1]):
                return False       # payloads; the flat_map call is the reported consumer of a closure returning Results
            if self.is_opt_result(args[1]):
                return True
            return self.item_result(args[1], depth + 1)
        if head in ITEM_OF_FIRST and args:
            return self.item_result(args[0], depth + 1)
        if head == 'std::iter::Chain' and len(args) == 2:
            a, b = self.item_result(args[0], depth + 1), self.item_result(args[1], depth + 1)
            return True if (a or b) else (None if (a is None or b is None) else False)
        if head in CONTAINERS and args:
            x = args[-1] if head != 'std::vec::Vec' else args[0]
            if self.is_result(x):
                return True
            # an element that merely *contains* a fallible stream (`Vec<(PathBuf, ReadDir)>`) is not a Result: the inner
            # stream is classified where it is consumed
            return None if ('Result<' in x and self.err_rx.search(x)) else False
        if head in ('std::result::Result', 'std::ops::ControlFlow'):
            return False
        # only iterator-like types are streams; closures, fn pointers, structs, tuples are not iterated by the consumers
        # classified here (a Result stored inside them is R1's / R4's "stored" case)
        if head.startswith('std::iter::') or 'Iterator' in t or 'IntoIter' in t:
            return None
        return False


ITER_PREFIX = ('std::iter::Iterator::', 'std::iter::IntoIterator::', 'std::iter::DoubleEndedIterator::',
               'std::iter::Extend::', 'std::iter::FromIterator::', 'std::iter::Peekable::<I>::')
PASS_ON = ('into_iter', 'by_ref', 'peekable', 'fuse', 'rev', 'chain', 'inspect', 'map', 'iter', 'iter_mut')
CLOSURE_CONSUMERS = {'for_each': 1, 'try_for_each': 1, 'filter_map': 1, 'flat_map': 1, 'filter': 1, 'find': 1, 'find_map': 1,
                     'any': 1, 'all': 1, 'position': 1, 'map_while': 1, 'take_while': 1, 'skip_while': 1, 'partition': 1,
                     'fold': 2, 'try_fold': 2, 'scan': 2}
DROPPING = ('flatten', 'count', 'last', 'nth')
COLLECTORS = ('collect', 'sum', 'product', 'from_iter', 'try_collect')


def stream_consumer(car, prog, sl, f, c, fns, helper_path):
    """classify a call that receives a fallible stream (an iterator of Result<_, E>) as its receiver:
    (status, why) with status in ok / violated / unproven"""
    from .lib.discard import DISCARDING, OK_PRESERVING
    names = c.names()
    decl = c.decl or c.name or ''
    short = decl.split('::')[-1]
    if not any(n.startswith(ITER_PREFIX) or ' as std::iter::' in n for n in names):
        callees = prog.callee_fns(c)
        if callees and all(g.path in fns for g in callees):
            return ('ok', 'handed to %s, which is analysed itself' % c.name)
        if c.is_('std::mem::drop'):
            return ('ok', 'dropping the (consumed or unconsumed) stream loses no element error that was produced')
        return ('unproven', 'a stream of Results is handed to %s' % c.name)
    dty = c.dty or ''
    if short in ('next', 'next_back', 'peek', 'next_if'):
        if car.is_opt_result(dty):
            return ('ok', 'element taken as Option<Result<..>> (decided by R5/option)')
        return ('unproven', '%s on a stream of Results yields %s' % (short, dty[:80]))
    if short in PASS_ON:
        return ('ok', 'adapter %s passes the Results on' % short)
    if short in COLLECTORS or (short in ('try_for_each', 'try_fold') and car.is_result(dty)):
        if car.is_result(dty):
            if short in CLOSURE_CONSUMERS:
                pass   # the closure's parameter is checked below as well
            else:
                return ('ok', 'collected into a Result: the first Err is returned (R1/R4 site)')
        else:
            return ('unproven', 'the Results are collected into %s without short-circuiting' % dty[:80])
    if short in CLOSURE_CONSUMERS:
        ai = CLOSURE_CONSUMERS[short]
        if ai >= len(c.args):
            return ('unproven', 'no callable argument')
        v = strip(sl.operand(f, c.args[ai]))
        if v[0] == 'fnitem' and v[1] not in prog.fns:
            if v[1] in OK_PRESERVING and short in ('filter_map', 'map_while', 'flat_map'):
                return ('ok', '%s(%s) keeps every Err as an element' % (short, v[1].split('::')[-1]))
            if v[1] in DISCARDING:
                return ('violated', 'every element error is dropped by %s(%s)' % (short, v[1].split('::')[-1]))
            return ('unproven', '%s(%s) over a stream of Results' % (short, v[1]))
        g = prog.fns.get(v[1]) if v[0] in ('closure', 'fnitem') else None
        if g is None:
            return ('unproven', 'unknown callable given to %s' % short)
        if g.path not in fns:
            return ('unproven', 'callable %s is outside the analysed scope' % g.path)
        return ('ok', 'the element Result is a parameter of %s (decided by R5/param)' % g.path)
    if short in DROPPING:
        return ('violated', '`%s` over a stream of Results drops the element errors' % short)
    return ('unproven', 'adapter %s over a stream of Results is not modelled' % short)


def _option_flow(self, f, root, origin=None, depth=0):
    """a place holding Option<Result<_, E>>: the Some payload must be a Result that cannot end in success when Err"""
    if depth > 6:
        return ('unproven', 'nesting too deep')
    results, aliases, work = [], [], [list(root)]
    payload_seen = returned = False
    while work:
        P = work.pop()
        if P in aliases:
            continue
        aliases.append(P)
        for (bi, kind, idx, how, pl) in f.uses_of(P[0]):
            pl = list(pl)
            if pl[:len(P)] != P or kind == 'drop':
                continue
            rest = pl[len(P):]
            if rest[:2] == ['@Some', '.0']:
                if not payload_seen:
                    payload_seen = True
                    results.append(self.place(f, P + ['@Some', '.0'], origin, depth + 1))
                continue
            if kind == 'stmt':
                st = f.blocks[bi]['s'][idx]
                target, rv = st[1], st[2]
                if how == 'discr':
                    continue
                if not rest and rv['r'] in ('use', 'cast') and how in ('m', 'c'):
                    if list(target) == [0]:
                        returned = True
                        continue     # returned: the caller's call site is a carrier of its own
                    if len(target) == 1:
                        work.append([target[0]])
                        continue
                results.append(('unproven', 'the Option<Result> is used in rvalue %s' % rv['r']))
            elif kind == 'arg':
                c2 = f.call_at(bi)
                if c2 is None or c2.indirect or rest:
                    results.append(('unproven', 'the Option<Result> escapes into a call'))
                    continue
                if idx == 0 and any(n.endswith('::transpose') and n.startswith('std::option::Option::<') for n in c2.names()):
                    results.append(self.site(f, c2, depth + 1))
                    continue
                if idx == 0 and c2.is_(OPTION + 'ok_or', OPTION + 'ok_or_else', OPTION + 'expect', OPTION + 'unwrap') \
                        and c2.dest and len(c2.dest) == 1:
                    results.append(self.place(f, [c2.dest[0]], origin, depth + 1))
                    continue
                results.append(('unproven', 'the Option<Result> is handed to %s' % c2.name))
            else:
                results.append(('unproven', 'the Option<Result> is used as %s' % kind))
    if not results and returned:
        return ('ok', 'the Option<Result> is returned: its consumer is a carrier site of its own')
    if not results:
        return ('violated', 'the Option<Result> is never inspected: an element error is dropped')
    return worst(results)


ErrFlow.option = _option_flow
