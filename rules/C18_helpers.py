"""C18 helpers — a spelling-independent model of "filter a collection, keep the best element".

The same selection can be written as
    coll.iter().filter(p).max_by_key(k)                  coll.iter().filter(p).fold(None, step)
    helper(self.matching(..), k)                         for x in &coll { if !p(x) { continue }  best = step(best, x) }
    coll.iter().filter(p).reduce(later)                  Candidates { inner: coll.iter(), .. }.max_by_key(k)
and the predicate p / the step can live in closures, in private helper functions, in `Option::is_none_or(..)`
combinators, in the loop body, in the hand-written `next` of a private iterator type / `from_fn` closure
(own_iterator), or behind std's binary selectors `std::cmp::max_by(a, b, cmp)` .. (value_cases).  `select_model(prog, sl, entry)` reduces all of them to one description

    Model.coll        value of the collection whose elements are visited (entry function's terms)
    Model.tpaths      the predicate: per predicate stage, the decision paths on which an element passes / fails,
                      each a list of literals (test name, normalised arguments, truth value)
    Model.init_none   the accumulator starts as None
    Model.kind        'max_by_key' | 'table' | 'unsupported:<consumer>'
    Model.spaths      the step: decision paths [(pick 'item'|'acc'|'?', [step atoms], [foreign literals])]
    Model.problems    what could not be interpreted (fail closed)

Decision paths are *CFG paths* (every switch decision on the way, not only the dominating ones), so "taken iff all its
decisions hold" is exact; boolean private helpers, closures and Option combinators inside a decision are expanded into
their own decision paths (a DNF) with the arguments substituted.  The accumulator of a loop is an opaque symbol ACC,
the visited element ITEM; `unwrap(ACC)` is the accumulator's payload in every spelling.

Also here: `text_parts` (format! / push_str / helper -> one list of text pieces) and `ResultPaths` / `result_paths`
(the Ok / Err outcomes of a fallible function as decision paths, independent of `?` / combinators / match / helpers).
"""
import re
from .lib.mir import op_place
from .lib.value import Slicer, subst, canon, walk, vstr
from .lib.paths import strip

IT = 'std::iter::Iterator::'
ITEM = ('item',)
ACC = ('acc',)
FN_CALLS = ('std::ops::Fn::call', 'std::ops::FnMut::call_mut', 'std::ops::FnOnce::call_once')
ORD = 'std::cmp::Ordering'
OPT = 'std::option::Option'
CMP = 'std::cmp::Ord::cmp'
PCMP = 'std::cmp::PartialOrd::partial_cmp'
FULL_T = frozenset(('Less', 'Equal', 'Greater'))
FULL_P = FULL_T | {'None'}
REL = {'gt': {'Greater'}, 'ge': {'Greater', 'Equal'}, 'lt': {'Less'}, 'le': {'Less', 'Equal'}}
FLIP = {'Less': 'Greater', 'Greater': 'Less', 'Equal': 'Equal', 'None': 'None'}
NONE_V = ('agg', OPT, 'None', ())
LEAF = ('const', 'param', 'fnitem', 'constitem', 'unknown', 'closure_env', 'upvar', 'item', 'acc', 'pathlocal')


class Giveup(Exception):
    pass


class OpaqueSlicer(Slicer):
    """a Slicer in which chosen locals are symbols (a loop-carried accumulator has no closed-form value)"""

    def __init__(self, prog, opaque):
        Slicer.__init__(self, prog)
        self.symbolic_upvars = True
        self.opaque = dict(opaque)

    def local(self, fn, local, _seen=None, _d=0):
        o = self.opaque.get((fn.path, local))
        if o is not None:
            return o
        return Slicer.local(self, fn, local, _seen, _d)


def _discr_info(fn, operand):
    pl = op_place(operand)
    if not pl or len(pl) != 1:
        return None
    for d in fn.whole_defs(pl[0]):
        if d[0] == 'stmt' and d[3]['r'] == 'discr' and 'variants' in d[3]:
            return d[3]['p'], {v: n for v, n in d[3]['variants']}, d[3].get('enum')
    return None


def is_call(v, *names):
    return isinstance(v, tuple) and len(v) >= 3 and v[0] == 'call' and v[1] in names


def mentions(v, marker):
    return any(x == marker for x in walk(v))


def show(v):
    if v == ITEM:
        return 'item'
    if v == ACC:
        return 'acc'
    return vstr(v)


class Model:
    def __init__(self, form):
        self.form = form
        self.coll = None
        self.stages = []        # [[(literals, passes?)]] one list of decision paths per predicate stage
        self.init_none = None
        self.kind = None
        self.key = None
        self.spaths = []
        self.problems = []
        self.fns = []


class Engine:
    def __init__(self, prog, sl):
        self.prog, self.sl = prog, sl
        self.S = Slicer(prog)
        self.S.symbolic_upvars = True

    # ---- values ---------------------------------------------------------------------------------------------
    def reduce(self, v, d=0):
        """beta-reduce `Fn::call(closure, (args))` (a key closure handed to a generic helper)"""
        if not isinstance(v, tuple) or not v or d > 8:
            return v
        if isinstance(v[0], str) and v[0] in LEAF:
            return v
        out = tuple(self.reduce(x, d) if isinstance(x, tuple) else x for x in v)
        if out[0] == 'call' and out[1] in FN_CALLS and len(out[2]) == 2 and out[2][0][0] in ('closure', 'fnitem') and out[2][1][0] == 'tuple':
            # a boolean closure that branches (`matches!(..)`, `if .. { true } else { false }`) has no closed-form
            # value (a phi of literals): it is kept as a call and expanded into its decision paths by expand_atom
            g = self.prog.fns.get(out[2][0][1])
            branching = g is not None and g.ret == 'bool' and any(b['t']['t'] == 'switch' for b in g.blocks)
            r = None if branching else self.sl.apply_closure(out[2][0], out[2][1][1])
            if r is not None:
                return self.reduce(r, d + 1)
        if out != v and out[0] == 'field':
            return self.sl._field(out[1], out[2])
        return out

    def sub(self, v, m):
        return self.reduce(subst(v, m, self.sl) if m else v)

    def sub_atom(self, a, m):
        if a[0] == 'variant':
            return ('variant', self.sub(a[1], m), a[2], a[3])
        return (a[0], self.sub(a[1], m), a[2])

    # ---- CFG paths ------------------------------------------------------------------------------------------
    def edge_atoms(self, fn, sb, S):
        """[(successor, decision taken on that edge | None)] for block sb"""
        t = fn.blocks[sb]['t']
        feas = fn.succs(sb)
        if t['t'] != 'switch':
            return [(s, None) for s in feas]
        by_target = {}
        for v, tb in t['targets']:
            by_target.setdefault(tb, []).append(v)
        by_target.setdefault(t['else'], []).append('else')
        listed = [v for v, _ in t['targets']]
        di = _discr_info(fn, t['o'])
        val = S.operand(fn, t['o'])
        out = []
        for tb, labels in by_target.items():
            if tb not in feas:
                continue
            if di:
                place, vmap, enum = di
                names = set()
                for lab in labels:
                    if lab == 'else':
                        names |= {n for v, n in vmap.items() if v not in listed}
                    else:
                        names.add(vmap.get(lab, str(lab)))
                if not names:
                    continue    # `else` of an exhaustive match: unreachable
                out.append((tb, ('variant', S.place(fn, place), enum, frozenset(names))))
            elif t.get('oty') == 'bool':
                if labels == ['else'] and listed == [0]:
                    oc = True
                elif labels == [0]:
                    oc = False
                elif labels == [1]:
                    oc = True
                elif labels == ['else'] and listed == [1]:
                    oc = False
                else:
                    out.append((tb, ('int', val, tuple(labels))))
                    continue
                v = val
                while v[0] == 'un' and v[1] == 'Not':
                    v, oc = v[2], (not oc)
                if v[0] == 'select' and all(rv[0] == 'const' and isinstance(rv[1], bool) for _, rv in v[3]):
                    names = frozenset(n for ns, rv in v[3] if rv[1] == oc for n in ns)
                    out.append((tb, ('variant', v[1], v[2], names)))
                else:
                    out.append((tb, ('bool', v, oc)))
            else:
                out.append((tb, ('int', val, tuple(labels))))
        return out

    def paths(self, fn, S, start, stops=(), cap=600):
        """acyclic CFG paths from `start` to a return or to (not into) a block in `stops`:
        [(blocks, decisions, 'ret' | 'stop' | 'cycle')]; paths that diverge (panic, unreachable) are dropped"""
        out = []
        stack = [(start, [start], [])]
        while stack:
            bb, blocks, atoms = stack.pop()
            if fn.blocks[bb]['t']['t'] == 'ret':
                out.append((blocks, atoms, 'ret'))
                continue
            known = None
            t = fn.blocks[bb]['t']
            if t['t'] == 'switch' and t.get('oty') == 'bool':
                # a flag assigned literals on the way here (drop flags, `let mut found = false`): its value on *this*
                # path is known, the other edge is infeasible
                pl = op_place(t['o'])
                if pl and len(pl) == 1 and len(fn.whole_defs(pl[0])) > 1 and (fn.path, pl[0]) not in getattr(S, 'opaque', {}):
                    pv = self.value_at(fn, S, blocks, pl[0])
                    if pv[0] == 'const' and isinstance(pv[1], bool):
                        known = pv[1]
            for tb, a in self.edge_atoms(fn, bb, S):
                if known is not None and a is not None and a[0] == 'bool':
                    if a[2] != known:
                        continue
                    a = None
                na = atoms + [a] if a is not None else atoms
                if tb in stops:
                    out.append((blocks, na, 'stop'))
                elif tb in blocks:
                    out.append((blocks, na, 'cycle'))
                else:
                    stack.append((tb, blocks + [tb], na))
            if len(out) + len(stack) > cap:
                raise Giveup('too many paths in ' + fn.path)
        return out

    @staticmethod
    def _last_def(fn, blocks, local, before=None):
        best = None
        for d in fn.whole_defs(local):
            if d[1] not in blocks:
                continue
            p = (blocks.index(d[1]), d[2] if d[0] == 'stmt' else 10 ** 6)
            if before is not None and p >= before:
                continue
            if best is None or p > best[0]:
                best = (p, d)
        return best

    def value_at(self, fn, S, blocks, local, before=None, depth=0):
        """value of `local` at the end of the path `blocks` (the definition executed last on that path)"""
        best = self._last_def(fn, blocks, local, before)
        if best is None:
            return S.local(fn, local)
        p, d = best
        if d[0] == 'call':
            return S._call_value(fn, d[3], set(), 0)
        rv = d[3]
        if rv['r'] == 'use' and depth < 8:
            pl = op_place(rv['o'])
            if pl and len(pl) == 1 and not (1 <= pl[0] <= fn.argc) and len(fn.whole_defs(pl[0])) > 1 \
                    and (fn.path, pl[0]) not in getattr(S, 'opaque', {}):
                return self.value_at(fn, S, blocks, pl[0], p, depth + 1)
        if rv['r'] == 'un' and rv.get('op') == 'Not' and depth < 8:
            # `!matches!(..)` / `!(flag)`: the negated temporary is assigned a literal per branch; on *this* path it
            # has the value of the branch taken
            pl = op_place(rv['o'])
            if pl and len(pl) == 1 and not (1 <= pl[0] <= fn.argc) and len(fn.whole_defs(pl[0])) > 1 \
                    and (fn.path, pl[0]) not in getattr(S, 'opaque', {}):
                inner = self.value_at(fn, S, blocks, pl[0], p, depth + 1)
                if inner[0] == 'const' and isinstance(inner[1], bool):
                    return ('const', not inner[1])
                return ('un', 'Not', inner)
        if depth < 8 and rv['r'] in ('agg', 'ref', 'cast', 'use'):
            # `Some(match .. { .. })`, `Some(if c { a } else { b })`: an operand that is assigned per branch has, on
            # *this* path, the value of the branch taken (not the phi of all branches)
            opaque = getattr(S, 'opaque', {})
            multi = sorted({pl[0] for pl, how in _rv_places(rv) if pl and self._path_dependent(fn, pl[0], opaque)})
            if multi:
                mp = {('pathlocal', l): self.value_at(fn, S, blocks, l, p, depth + 1) for l in multi}
                S2 = OpaqueSlicer(self.prog, list(opaque.items()) + [((fn.path, l), ('pathlocal', l)) for l in multi])
                return self._replace(S2._rvalue(fn, rv, set(), 0, None), mp)
        return S._rvalue(fn, rv, set(), 0, None)

    def _path_dependent(self, fn, l, opaque, depth=0):
        """the local is assigned on several branches, or is a plain copy / reference / aggregate of one that is"""
        if l == 0 or 1 <= l <= fn.argc or (fn.path, l) in opaque or fn.partial_defs(l) or depth > 6:
            return False
        ds = fn.whole_defs(l)
        if len(ds) > 1:
            return True
        if len(ds) == 1 and ds[0][0] == 'stmt' and ds[0][3]['r'] in ('use', 'ref', 'cast', 'agg'):
            return any(pl and self._path_dependent(fn, pl[0], opaque, depth + 1) for pl, how in _rv_places(ds[0][3]))
        return False

    def _replace(self, v, mp):
        if not isinstance(v, tuple) or not v:
            return v
        if v in mp:
            return mp[v]
        if isinstance(v[0], str) and v[0] in LEAF:
            return v
        out = tuple(self._replace(x, mp) if isinstance(x, tuple) else x for x in v)
        if out != v and out[0] == 'field':
            return self.sl._field(out[1], out[2])
        if out != v and out[0] == 'unwrap':
            return self.sl.mk_unwrap(out[1], 1)
        return out

    # ---- decisions ------------------------------------------------------------------------------------------
    def fn_vpaths(self, g, m, depth):
        """decision paths of g, entry to return, in the caller's terms: [(primitive decisions, returned value)]"""
        res = []
        for blocks, atoms, end in self.paths(g, self.S, 0):
            if end != 'ret':
                raise Giveup('loop inside ' + g.path)
            rv = self.sub(self.value_at(g, self.S, blocks, 0), m)
            for case in self.expand_case([self.sub_atom(a, m) for a in atoms], depth):
                res.append((case, rv))
        return res

    def bool_cases(self, g, m, want, depth):
        """DNF: the decision paths on which the boolean function / closure body g returns `want`"""
        out = []
        for case, rv in self.fn_vpaths(g, m, depth):
            w = want
            while rv[0] == 'un' and rv[1] == 'Not':
                rv, w = rv[2], (not w)
            if rv[0] == 'const' and isinstance(rv[1], bool):
                if rv[1] == w:
                    out.append(case)
            else:
                for extra in self.expand_atom(('bool', rv, w), depth):
                    out.append(case + extra)
        return out

    def callee_cases(self, clv, args, want, depth):
        if clv[0] == 'closure':
            g = self.prog.fns.get(clv[1])
            if g is None:
                raise Giveup('no body for ' + clv[1])
            m = {(g.path, 1 + i): a for i, a in enumerate(args)}
            for i, uv in enumerate(clv[2]):
                m[('upvar', g.path, i)] = uv
            return self.bool_cases(g, m, want, depth + 1)
        if clv[0] == 'fnitem':
            g = self.prog.fns.get(clv[1])
            if g is not None and not g.impl_trait:
                return self.bool_cases(g, {(g.path, i): a for i, a in enumerate(args)}, want, depth + 1)
            return [[('bool', ('call', clv[1], tuple(args), None), want)]]
        raise Giveup('predicate is not a closure: ' + vstr(clv)[:60])

    def expand_case(self, case, depth):
        res = [[]]
        for a in case:
            alts = self.expand_atom(a, depth)
            res = [r + x for r in res for x in alts]
            if len(res) > 200:
                raise Giveup('decision too wide')
        return res

    def expand_atom(self, a, depth):
        """a decision as a DNF of primitive decisions: private boolean helpers, closures handed to Option
        combinators and is_some/is_none are looked through"""
        if a[0] == 'variant':
            s = a[1]
            if s[0] == 'agg' and s[2] is not None and a[2] and (s[1] or '') == a[2]:
                return [[]] if s[2] in a[3] else []
            return [[a]]
        if a[0] != 'bool' or depth > 5:
            return [[a]]
        v, oc = a[1], a[2]
        if v[0] == 'const' and isinstance(v[1], bool):
            return [[]] if v[1] == oc else []
        if v[0] != 'call':
            return [[a]]
        name, args = v[1], v[2]
        if name in FN_CALLS and len(args) == 2 and args[0][0] in ('closure', 'fnitem') and args[1][0] == 'tuple':
            # a predicate handed in as a closure / function item (`supersedes(&best.version, &candidate.version)`)
            return self.callee_cases(args[0], tuple(args[1][1]), oc, depth)
        g = self.prog.fns.get(name)
        if g is not None and g.kind != 'Closure' and not g.impl_trait and g.blocks and g.ret == 'bool':
            return self.bool_cases(g, {(g.path, i): x for i, x in enumerate(args) if i < g.argc}, oc, depth + 1)
        if name.split('::')[-1] in ('eq', 'ne') and 'PartialEq' in name and len(args) == 2 and strip(args[0])[0] == 'tuple' and strip(args[1])[0] == 'tuple' \
                and len(strip(args[0])[1]) == len(strip(args[1])[1]) >= 1:
            # std's PartialEq for tuples: (a1, .., an) == (b1, .., bn) is a1 == b1 && .. && an == bn, left to right and
            # short-circuiting; `!=` is its negation.  So `(x.os, x.arch) == (os, arch)` (also with the right-hand tuple
            # hoisted into a local) is the same decision as `x.os == os && x.arch == arch`.
            comp = [('call', 'std::cmp::PartialEq::eq', (x, y), None) for x, y in zip(strip(args[0])[1], strip(args[1])[1])]
            if (name.split('::')[-1] == 'eq') == oc:
                cases = [[('bool', c, True) for c in comp]]
            else:
                cases = [[('bool', c, True) for c in comp[:i]] + [('bool', comp[i], False)] for i in range(len(comp))]
            return [r for case in cases for r in self.expand_case(case, depth + 1)]
        if name.startswith('std::option::Option::<') and args:
            meth = name.split('::')[-1]
            o = args[0]
            some, none = ('variant', o, OPT, frozenset(('Some',))), ('variant', o, OPT, frozenset(('None',)))
            if meth in ('is_none', 'is_some') and len(args) == 1:
                return [[none if (meth == 'is_none') == oc else some]]
            if meth in ('is_none_or', 'is_some_and') and len(args) == 2:
                inner = self.callee_cases(args[1], (self.sl.mk_unwrap(o),), oc, depth)
                cases = [[some] + c for c in inner]
                if (meth == 'is_none_or') == oc:
                    cases.insert(0, [none])
                return cases
        return [[a]]

    def norm_atom(self, a):
        """primitive decision -> ('acc', names) | ('ord', kind, left, right, outcomes) | ('test', name, args, truth)
        | ('raw', text)"""
        if a[0] == 'variant':
            _, s, enum, names = a
            if s == ACC and enum == OPT:
                return ('acc', names)
            if enum == OPT and is_call(s, PCMP):
                if names == {'Some'}:
                    return ('ord', 'partial', canon(s[2][0]), canon(s[2][1]), FULL_T)
                if names == {'None'}:
                    return ('ord', 'partial', canon(s[2][0]), canon(s[2][1]), frozenset(('None',)))
            if enum == ORD and s[0] == 'unwrap' and is_call(s[1], PCMP):
                return ('ord', 'partial', canon(s[1][2][0]), canon(s[1][2][1]), frozenset(names))
            if enum == ORD and is_call(s, CMP):
                return ('ord', 'total', canon(s[2][0]), canon(s[2][1]), frozenset(names))
            return ('raw', '%s is %s' % (show(s), '|'.join(sorted(names))))
        if a[0] == 'bool':
            _, v, oc = a
            if v[0] == 'call':
                last = v[1].split('::')[-1]
                args = v[2]
                if last in ('eq', 'ne') and len(args) == 2:
                    for x, y in ((args[0], args[1]), (args[1], args[0])):
                        y0 = strip(y) if y[0] != 'agg' else y
                        pos = (last == 'eq') == oc
                        if y0[0] == 'agg' and y0[1] == ORD and is_call(x, CMP):
                            st = frozenset((y0[2],))
                            return ('ord', 'total', canon(x[2][0]), canon(x[2][1]), st if pos else FULL_T - st)
                        if y0[0] == 'agg' and y0[1] == OPT and is_call(x, PCMP):
                            if y0[2] == 'Some' and y0[3] and y0[3][0][1][0] == 'agg' and y0[3][0][1][1] == ORD:
                                st = frozenset((y0[3][0][1][2],))
                            elif y0[2] == 'None':
                                st = frozenset(('None',))
                            else:
                                continue
                            return ('ord', 'partial', canon(x[2][0]), canon(x[2][1]), st if pos else FULL_P - st)
                if last in REL and v[1].startswith('std::cmp::PartialOrd::') and len(args) == 2:
                    st = frozenset(REL[last])
                    return ('ord', 'partial', canon(args[0]), canon(args[1]), st if oc else FULL_P - st)
                if last == 'ne':
                    last, oc = 'eq', (not oc)
                return ('test', last, tuple(canon(x) for x in args), oc)
            return ('raw', '%s is %s' % (show(v), oc))
        return ('raw', str(a)[:80])

    # ---- values a step returns ---------------------------------------------------------------------------------
    def apply_cases(self, f, args, depth):
        """[(decisions, returned value)] of calling the closure / function item f with `args`"""
        f = strip(f)
        g = self.prog.fns.get(f[1]) if f[0] in ('closure', 'fnitem') else None
        if f[0] == 'fnitem' and (g is None or g.impl_trait or not g.blocks):
            n = f[1]
            if n.endswith(' as std::cmp::Ord>::cmp'):
                n = CMP
            elif n.endswith(' as std::cmp::PartialOrd>::partial_cmp'):
                n = PCMP
            return [([], ('call', n, tuple(args), None))]
        if g is None or not g.blocks:
            raise Giveup('cannot look into ' + vstr(f)[:60])
        off = 1 if f[0] == 'closure' else 0
        m = {(g.path, off + i): a for i, a in enumerate(args)}
        if f[0] == 'closure':
            for i, uv in enumerate(f[2]):
                m[('upvar', g.path, i)] = uv
        return self.fn_vpaths(g, m, depth + 1)

    def _by_ordering(self, rows, keep_first, a, b, depth):
        """std::cmp::{max_by, min_by}(a, b, compare): rows = [(decisions, Ordering returned by compare(&a, &b))];
        max_by returns a only when that is Greater, min_by returns b only when it is Greater"""
        out = []
        for case, ov in rows:
            for outs in (('Greater',), ('Less', 'Equal')):
                first = (outs == ('Greater',)) == keep_first
                for extra in self.expand_atom(('variant', strip(ov), ORD, frozenset(outs)), depth):
                    out.append((case + extra, a if first else b))
        return out

    def _key(self, k, x):
        k = strip(k)
        r = self.sl.apply_closure(k, (x,)) if k[0] in ('closure', 'fnitem') else None
        return self.reduce(r if r is not None else ('call', FN_CALLS[0], (k, ('tuple', (x,))), None))

    def value_cases(self, v, depth=0):
        """[(decisions, value)]: what a selection step evaluates to, with the private functions / closures it
        returns through and std's binary selectors expanded into the decisions they take:
            std::cmp::max_by(a, b, cmp)      = a if cmp(&a, &b) is Greater, otherwise b       (min_by: b if Greater)
            std::cmp::max_by_key(a, b, key)  = max_by(a, b, |x, y| key(x).cmp(key(y)))         (min_by_key alike)
            Ord::max(a, b)                   = max_by(a, b, Ord::cmp)                           (Ord::min alike)
            Option::map_or(o, d, f)          = d if o is None, f(payload) otherwise             (map_or_else alike)
            Some(<any of these>)             distributes
        so `reduce(later)` with `fn later(a, b) { std::cmp::max_by(a, b, |x, y| x.k.cmp(&y.k)) }`, a closure doing the
        same, and a hand-written `match a.k.cmp(&b.k)` have one table"""
        if depth > 6 or not isinstance(v, tuple) or not v:
            return [([], v)]
        if v[0] == 'agg' and (v[1] or '') == OPT and v[2] == 'Some' and len(v[3]) == 1 and v[3][0][1][0] == 'call':
            return [(c, ('agg', v[1], v[2], ((v[3][0][0], x),))) for c, x in self.value_cases(v[3][0][1], depth + 1)]
        if v[0] != 'call' or not (mentions(v, ITEM) or mentions(v, ACC)):
            return [([], v)]
        name, args = v[1], v[2]
        rows = None
        if name in ('std::cmp::max_by', 'std::cmp::min_by') and len(args) == 3:
            rows = self._by_ordering(self.apply_cases(args[2], (args[0], args[1]), depth), name.endswith('max_by'), args[0], args[1], depth)
        elif name in ('std::cmp::max_by_key', 'std::cmp::min_by_key') and len(args) == 3:
            ov = ('call', CMP, (self._key(args[2], args[0]), self._key(args[2], args[1])), None)
            rows = self._by_ordering([([], ov)], name.endswith('max_by_key'), args[0], args[1], depth)
        elif name in ('std::cmp::Ord::max', 'std::cmp::Ord::min', 'std::cmp::max', 'std::cmp::min') and len(args) == 2:
            rows = self._by_ordering([([], ('call', CMP, (args[0], args[1]), None))], name.endswith('max'), args[0], args[1], depth)
        elif name.startswith('std::option::Option::<') and name.endswith(('::map_or', '::map_or_else')) and len(args) == 3:
            o = args[0]
            some, none = ('variant', o, OPT, frozenset(('Some',))), ('variant', o, OPT, frozenset(('None',)))
            dflt = [([], args[1])] if name.endswith('::map_or') else self.apply_cases(args[1], (), depth)
            rows = [([none] + c, x) for c, x in dflt] + [([some] + c, x) for c, x in self.apply_cases(args[2], (self.sl.mk_unwrap(o),), depth)]
        elif name.startswith('std::option::Option::<') and name.endswith('::filter') and len(args) == 2:
            # Option::filter(o, p) = o when o is Some(x) and p(&x), otherwise None
            rows = []
            for case, ov, st in self._opt_rows(args[0], depth):
                if st == 'none':
                    rows.append((case, NONE_V))
                    continue
                x = self.sl.mk_unwrap(ov)
                rows += [(case + c, ov) for c in self.callee_cases(strip(args[1]), (x,), True, depth)]
                rows += [(case + c, NONE_V) for c in self.callee_cases(strip(args[1]), (x,), False, depth)]
        elif name.startswith('std::option::Option::<') and name.endswith(('::or', '::or_else')) and len(args) == 2:
            # Option::or(o, d) = o when o is Some, otherwise d   (or_else: d() evaluated only then)
            rows = []
            for case, ov, st in self._opt_rows(args[0], depth):
                if st == 'some':
                    rows.append((case, ov))
                elif name.endswith('::or'):
                    rows.append((case, args[1]))
                else:
                    rows += [(case + c, x) for c, x in self.apply_cases(args[1], (), depth)]
        elif name in FN_CALLS and len(args) == 2 and strip(args[0])[0] in ('closure', 'fnitem') and args[1][0] == 'tuple':
            rows = self.apply_cases(args[0], tuple(args[1][1]), depth)
        else:
            g = self.prog.fns.get(name)
            if g is not None and g.kind != 'Closure' and not g.impl_trait and g.blocks and g.ret != 'bool':
                rows = self.fn_vpaths(g, {(g.path, i): x for i, x in enumerate(args) if i < g.argc}, depth + 1)
        if rows is None:
            return [([], v)]
        out = []
        for case, x in rows:
            for extra, y in self.value_cases(x, depth + 1):
                out.append((case + extra, y))
            if len(out) > 200:
                raise Giveup('step too wide')
        return out

    def _opt_rows(self, o, depth):
        """[(decisions, value, 'some' | 'none')]: the Option-valued expression o case by case, each case knowing
        whether the value is Some or None there (from a literal, from a decision already taken, or by splitting)"""
        out = []
        for case, ov in self.value_cases(o, depth + 1):
            sv = strip(ov) if ov[0] != 'agg' else ov
            if sv[0] == 'agg' and (sv[1] or '') == OPT and sv[2] in ('Some', 'None'):
                out.append((case, ov, sv[2].lower()))
                continue
            known = {frozenset(a[3]) for a in case if a[0] == 'variant' and a[2] == OPT and canon(a[1]) == canon(ov)}
            if frozenset(('Some',)) in known or frozenset(('None',)) in known:
                if len(known) == 1:         # (contradictory decisions: the case cannot happen)
                    out.append((case, ov, 'some' if frozenset(('Some',)) in known else 'none'))
                continue
            for n in ('Some', 'None'):
                for extra in self.expand_atom(('variant', ov, OPT, frozenset((n,))), depth):
                    out.append((case + extra, ov, n.lower()))
        return out

    # ---- the selection model --------------------------------------------------------------------------------
    def pipeline(self, v):
        """(collection, [filter closure values]) of an iterator expression made of iter()/into_iter()/filter(..);
        anything else (map, skip, rev, ..) would change which elements are seen or their order -> None"""
        filters = []
        v = strip(v)
        for _ in range(12):
            if is_call(v, IT + 'filter') and len(v[2]) == 2:
                filters.append(v[2][1])
                v = strip(v[2][0])
                continue
            if v[0] == 'call' and len(v[2]) == 1 and not v[1].startswith(IT) and v[1].endswith(('::iter', '::into_iter')):
                v = strip(v[2][0])
                continue
            if is_call(v, IT + 'by_ref') and len(v[2]) == 1:
                v = strip(v[2][0])
                continue
            if v[0] == 'call' and v[1] in self.prog.fns:
                # a private helper that only builds the iterator (`self.matching(os, arch, requirement)`)
                iv = self.sl.inline_deep(v)
                if iv != v:
                    v = strip(iv)
                    continue
            if (v[0] == 'agg' and v[1] in self.prog.adts) or (is_call(v, 'std::iter::from_fn') and len(v[2]) == 1):
                # a private iterator type with a hand-written `next` (or a from_fn closure) that filters one inner iterator
                ci = self.own_iterator(v) if v[0] == 'agg' else self.from_fn_iterator(v[2][0])
                if ci is None:
                    return None
                filters.append(ci[1])
                v = strip(ci[0])
                continue
            break
        if v[0] == 'call' and (v[1].startswith(IT) or v[1].startswith('std::iter::')):
            return None
        filters.reverse()
        return v, filters

    def own_iterator(self, selfv):
        """(inner iterator value, predicate stage) when `selfv` is a literal of a workspace type whose own
        `Iterator::next` yields, in order, exactly the elements of one inner iterator (a field) that pass a test:
            loop { let x = self.inner.next()?; if !p(x) { continue }  return Some(x) }     (`while let` / `for` alike)
            self.inner.find(|x| p(x))                  self.inner.by_ref().filter(|x| p(x)).next()
        The default methods of Iterator (fold, reduce, max_by_key, ..) call `next` until it returns None, so such a
        type is `inner.filter(p)`: None is returned only when the inner iterator is exhausted, a rejected element
        only leads to the next one, nothing else of `self` changes.  The stage is ('rows', decision paths, fn) with
        the fields of `self` replaced by what the literal holds.  Anything else -> None (fail closed)."""
        import re
        adt = selfv[1]
        rx = re.compile('^<' + re.escape(adt) + r'(<.*>)? as std::iter::Iterator>::(\w+)$')
        own = {}
        for f in self.prog.fns.values():
            if f.impl_trait == 'std::iter::Iterator' and f.kind != 'Closure':
                mm = rx.match(f.path)
                if mm:
                    own[mm.group(2)] = f
        g = own.get('next')
        # an overridden fold / max_by_key / .. would be what a generic consumer really runs
        if g is None or not g.blocks or set(own) - {'next', 'size_hint'}:
            return None
        return self._next_model(g, {(g.path, 0): selfv}, lambda x: strip(x)[0] == 'field' and is_param(strip(x)[1], g, 0))

    def from_fn_iterator(self, clv):
        """the same for `std::iter::from_fn(move || ..)`: the closure is the `next`, its captured variables the state"""
        clv = strip(clv)
        g = self.prog.fns.get(clv[1]) if clv[0] == 'closure' else None
        if g is None or not g.blocks or g.argc != 1:
            return None
        m = {('upvar', g.path, i): uv for i, uv in enumerate(clv[2])}
        return self._next_model(g, m, lambda x: strip(x)[0] == 'upvar' and strip(x)[1] == g.path)

    def _next_model(self, g, m, field_of_self):
        S = self.S
        m = dict(m)
        # `self` is only read, except for the one inner iterator that is advanced
        if g.partial_defs(1) or any(u[1] in ('arg', 'callee', 'drop') for u in g.uses_of(1)):
            return None
        muts = [u for u in g.uses_of(1) if u[1] == 'stmt' and u[3] in ('refmut', 'rawptr', 'm')]
        nxt = [c for c in g.calls if not c.indirect and c.decl == IT + 'next']
        if not nxt:
            # no loop of its own: `self.inner.find(p)` or `<pipeline over self.inner>.next()`
            if len(muts) != 1 or any(b['t']['t'] == 'switch' for b in g.blocks):
                return None
            rv = strip(S.local(g, 0))
            if is_call(rv, IT + 'find') and len(rv[2]) == 2 and field_of_self(rv[2][0]):
                return self.sub(rv[2][0], m), self.sub(rv[2][1], m)
            return None
        if len(nxt) != 1 or nxt[0].target is None or len(muts) != 1:
            return None
        c = nxt[0]
        h, sw = c.bb, c.target
        recv = S.operand(g, c.args[0])
        if is_call(strip(recv), IT + 'by_ref') and len(strip(recv)[2]) == 1:
            recv = strip(recv)[2][0]
        if not field_of_self(recv):
            # `<pipeline over self.inner>.next()`, once, outside any loop
            if g.in_loop(h) or any(b['t']['t'] == 'switch' for b in g.blocks):
                return None
            pl = self.pipeline(recv)
            if pl is None or not field_of_self(pl[0]) or len(pl[1]) != 1 or strip(S.local(g, 0)) != strip(S._call_value(g, c, set(), 0)):
                return None
            return self.sub(pl[0], m), self.sub(pl[1][0], m)
        callv = S._call_value(g, c, set(), 0)
        nextv = canon(callv)
        m['__repl__'] = [(canon(('unwrap', callv)), ITEM)]
        for blocks, atoms, end in self.paths(g, S, 0, stops=(h,)):
            if end != 'stop' or atoms:
                return None         # something is decided (or returned) before the inner iterator is asked
        def next_state(a):
            if a[0] != 'variant':
                return None
            s, names = a[1], frozenset(a[3])
            if is_call(s, BRANCH) and len(s[2]) == 1 and canon(s[2][0]) == nextv:
                return 'Some' if names == {'Continue'} else ('None' if names == {'Break'} else '?')
            if canon(s) == nextv:
                return 'Some' if names == {'Some'} else ('None' if names == {'None'} else '?')
            return None
        rows = []
        for blocks, atoms, end in self.paths(g, S, sw, stops=(h,)):
            el = [next_state(a) for a in atoms if next_state(a) is not None]
            rest = [self.sub_atom(a, m) for a in atoms if next_state(a) is None]
            if len(el) != 1 or el[0] == '?':
                return None
            if el[0] == 'None':
                # the inner iterator is exhausted: None, unconditionally
                rv = strip(self.value_at(g, S, blocks, 0)) if end == 'ret' else None
                none = rv is not None and ((rv[0] == 'agg' and rv[2] == 'None' and (rv[1] or '') == OPT) or canon(rv) == nextv or
                                           (rv[0] == 'call' and rv[1].endswith('FromResidual::from_residual') and len(rv[2]) == 1 and rv[2][0][0] == 'residual' and canon(rv[2][0][1]) == nextv))
                if not none or rest:
                    return None
                continue
            if end == 'stop':
                passes = False      # back to the loop head: the element is skipped
            elif end == 'ret' and self._pick(self.sub(self.value_at(g, S, blocks, 0), m)) == 'item':
                passes = True
            else:
                return None         # returns None / something else although the inner iterator had an element
            for case in self.expand_case(rest, 0):
                rows.append(([self.norm_atom(a) for a in case], passes))
        return self.sub(recv, m), ('rows', rows, g)

    def _pred_stage(self, model, clv):
        """decision paths of one predicate stage applied to ITEM: [(literals, passes?)]"""
        if clv[0] == 'rows':
            model.stages.append(clv[1])
            model.fns.append(clv[2])
            return
        rows = []
        for want in (True, False):
            for case in self.callee_cases(clv, (ITEM,), want, 0):
                rows.append(([self.norm_atom(a) for a in case], want))
        model.stages.append(rows)
        if clv[0] in ('closure', 'fnitem') and clv[1] in self.prog.fns:
            model.fns.append(self.prog.fns[clv[1]])

    def _pick(self, v):
        v0 = v
        if v0 == ACC:
            return 'acc'
        if v0[0] == 'agg' and v0[2] == 'Some' and (v0[1] or '') == OPT and len(v0[3]) == 1:
            x = v0[3][0][1]
            if x == ITEM:
                return 'item'
            if x == ('unwrap', ACC):
                return 'acc'
        if v0[0] == 'agg' and v0[2] == 'None':
            return 'none'
        return '?'

    def _split(self, case):
        """(step atoms, other literals) of a list of primitive decisions"""
        step, other = [], []
        for a in case:
            n = self.norm_atom(a)
            if n[0] in ('acc', 'ord'):
                step.append(n)
            else:
                other.append(n)
        return step, other

    def model_adapter(self, entry):
        """`<pipeline>.max_by_key(k)` / `<pipeline>.fold(None, step)` / `<pipeline>.reduce(step)`, directly or behind
        private helpers (inline_deep normal form)"""
        v = strip(self.sl.inline_deep(strip(self.sl.local(entry, 0))))
        if v[0] != 'call' or not v[2]:
            return None
        name, args = v[1], v[2]
        if not name.startswith(IT):
            return None
        md = Model('adapter')
        md.consumer = name[len(IT):]
        pl = self.pipeline(args[0])
        if pl is None:
            md.problems.append('iterator expression not understood: ' + vstr(args[0])[:100])
        else:
            md.coll = pl[0]
            for clv in pl[1]:
                self._pred_stage(md, clv)
        if name == IT + 'max_by_key' and len(args) == 2:
            md.kind = 'max_by_key'
            md.init_none = True
            k = self.sl.apply_closure(strip(args[1]), (ITEM,))
            md.key = self.reduce(k) if k is not None else None
        elif name in (IT + 'max_by', IT + 'fold', IT + 'reduce') and len(args) == (3 if name == IT + 'fold' else 2):
            # fold(None, step) / reduce(step) / max_by(compare), the step or comparator being a closure or a named
            # private function; std: reduce(step) = fold(None) seeded by the first element, max_by(compare) =
            # reduce(|acc, item| std::cmp::max_by(acc, item, compare)).  The step's decision paths, with the private
            # helpers and std's binary selectors it returns through expanded (value_cases), become the step table.
            md.kind = 'table'
            clv = strip(args[-1])
            if name == IT + 'fold':
                i0 = strip(args[1])
                md.init_none = i0[0] == 'agg' and i0[2] == 'None' and (i0[1] or '') == OPT
                accv = ACC
            else:
                md.init_none = True
                accv = ('unwrap', ACC)
            g = self.prog.fns.get(clv[1]) if clv[0] in ('closure', 'fnitem') else None
            if g is None or not g.blocks or (clv[0] == 'fnitem' and g.impl_trait):
                md.problems.append('%s is not a closure or private function' % ('comparator' if name == IT + 'max_by' else 'step'))
            else:
                md.fns.append(g)
                if name == IT + 'max_by':
                    rows = self.value_cases(('call', 'std::cmp::max_by', (accv, ITEM, clv), None), 0)
                else:
                    rows = [(case + extra, rv2) for case, rv in self.apply_cases(clv, (accv, ITEM), 0) for extra, rv2 in self.value_cases(rv, 0)]
                for case, rv in rows:
                    step, other = self._split(case)
                    if name == IT + 'fold':
                        pick = self._pick(rv)
                    else:
                        pick = 'item' if rv == ITEM else ('acc' if rv == accv else '?')
                        step = [('acc', frozenset(('Some',)))] + step
                    md.spaths.append((pick, step, other))
                if name != IT + 'fold':
                    md.spaths.append(('item', [('acc', frozenset(('None',)))], []))
        else:
            md.kind = 'unsupported:' + md.consumer
        return md

    def model_loop(self, entry, args=None):
        """`let mut best = None; for x in <pipeline> { <guards>; best = .. } best`; `args` = values of the
        function's parameters when it is a private helper called by the resolver (generic `best_by_key(iter, key)`)"""
        nxt = [c for c in entry.calls if not c.indirect and c.decl == IT + 'next']
        if len(nxt) != 1 or nxt[0].target is None:
            return None
        h = nxt[0].bb
        d0 = entry.whole_defs(0)
        if len(d0) != 1 or d0[0][0] != 'stmt' or d0[0][3]['r'] != 'use':
            return None
        from .lib.tables import phi_local_of
        acc = phi_local_of(entry, d0[0][3]['o'])
        if acc is None or 1 <= acc <= entry.argc:
            return None
        md = Model('loop')
        if entry.partial_defs(acc) or any(u[3] == 'refmut' for u in entry.uses_of(acc)):
            md.problems.append('the accumulator is modified in place')
        S = OpaqueSlicer(self.prog, {(entry.path, acc): ACC})
        itv = self.sub(S.operand(entry, nxt[0].args[0]), args)
        pl = self.pipeline(itv)
        elem = ('unwrap', S._call_value(entry, nxt[0], set(), 0))
        m = dict(args or {})
        m['__repl__'] = [(canon(elem), ITEM)]
        if pl is None:
            md.problems.append('iterated expression not understood: ' + vstr(itv)[:100])
        else:
            md.coll = pl[0]
            for clv in pl[1]:
                self._pred_stage(md, clv)
        nextv = canon(elem[1])
        sw = nxt[0].target
        # before the loop: the accumulator is None on every way into the loop, and nothing returns early
        init = []
        for blocks, atoms, end in self.paths(entry, S, 0, stops=(h,)):
            if end != 'stop':
                md.problems.append('a path leaves before the loop')
                continue
            bd = self._last_def(entry, blocks, acc)
            init.append(strip(S._rvalue(entry, bd[1][3], set(), 0, None)) if bd and bd[1][0] == 'stmt' else ('unknown', 'init'))
        md.init_none = bool(init) and all(x[0] == 'agg' and x[2] == 'None' and (x[1] or '') == OPT for x in init)
        # one iteration: from the `next()` result back to the loop head, or out of the loop
        body, pred = [], []
        uses = entry.uses_of(acc)
        for blocks, atoms, end in self.paths(entry, S, sw, stops=(h,)):
            is_next = lambda a: a[0] == 'variant' and canon(a[1]) == nextv
            el = [a for a in atoms if is_next(a)]
            rest = [self.sub_atom(a, m) for a in atoms if not is_next(a)]
            if len(el) != 1:
                md.problems.append('loop structure not understood')
                continue
            if el[0][3] == {'None'}:
                # loop exit: the function returns the accumulator, untouched
                rv = self.value_at(entry, S, blocks, 0) if end == 'ret' else None
                if end != 'ret' or rv is None or strip(rv) != ACC or self._last_def(entry, blocks, acc) is not None or rest:
                    md.problems.append('after the loop something other than the accumulator is returned')
                continue
            if end != 'stop':
                md.problems.append('an iteration can leave the loop early (%s)' % end)
                continue
            bd = self._last_def(entry, blocks, acc)
            if bd is None:
                picks = [([], 'acc')]
            else:
                p, d = bd
                # the assigned value, with the private selector functions / std selectors it is computed by expanded
                picks = [(extra, self._pick(v2)) for extra, v2 in self.value_cases(self.sub(self.value_at(entry, S, blocks, acc), m), 0)]
                if len([1 for dd in entry.whole_defs(acc) if dd[1] in blocks]) > 1:
                    picks = [([], '?')]
                for u in uses:
                    if u[0] in blocks and (blocks.index(u[0]), u[2] if u[1] == 'stmt' else 10 ** 6) > p:
                        picks = [([], '?')]      # the updated accumulator is read again in the same iteration
            for case in self.expand_case(rest, 0):
                for extra, pick in picks:
                    step, other = self._split(case + extra)
                    body.append((pick, bd is not None, step, other))
        # split the iteration's decisions into predicate (about the element) and step (about the accumulator)
        for pick, assigned, step, other in body:
            md.spaths.append((pick, step, other))
        md.kind = 'table'
        md.loop_body = body
        return md


def select_model(prog, sl, entry):
    eng = Engine(prog, sl)
    try:
        md = eng.model_adapter(entry)
        if md is None:
            md = eng.model_loop(entry)
        # the resolver only hands its pipeline (and key) to a private helper that loops: the helper's loop, with the
        # call's arguments substituted for its parameters
        v, args = strip(sl.local(entry, 0)), None
        for _ in range(4):
            if md is not None or v[0] != 'call':
                break
            g = prog.fns.get(v[1])
            if g is None or g.kind == 'Closure' or g.impl_trait or g.vis == 'pub':
                break
            args = {(g.path, i): eng.sub(a, args) for i, a in enumerate(v[2]) if i < g.argc}
            md = eng.model_loop(g, args)
            if md is not None:
                md.fns.append(g)
            v = strip(sl.local(g, 0))
        return md
    except Giveup as e:
        md = Model('unknown')
        md.problems.append(str(e))
        md.kind = 'unsupported:?'
        return md


# ---- reading a model -------------------------------------------------------------------------------------------
def describe(entry):
    """argument renderer: fields of the visited element -> 'artifact.<f>', parameters of the entry function -> '$<i>'"""
    def d(a):
        a = strip(a)
        if a[0] == 'field' and strip(a[1]) == ITEM:
            return 'artifact.' + a[2]
        if a[0] == 'param' and a[1] == entry.path:
            return '$%d' % a[2]
        return show(a)[:40]
    return d


def predicate_of(md, entry):
    """(tests, problems): the set of (name, sorted args) that are all true exactly when an element is passed on to
    the step; every deciding path must agree (a path that rejects must falsify one of them, a path that accepts must
    have established all of them and nothing else)"""
    d = describe(entry)
    problems = []

    def lit(n):
        if n[0] != 'test':
            return None
        return ((n[1],) + tuple(sorted(d(x) for x in n[2])), n[3])

    tests = set()
    for rows in md.stages:
        ts = None
        for lits, passes in rows:
            if not passes:
                continue
            ls = [lit(n) for n in lits]
            if any(x is None or x[1] is not True for x in ls):
                problems.append('accepts under %s' % [n[1:] for n in lits])
                continue
            s = frozenset(x[0] for x in ls)
            if ts is None:
                ts = s
            elif ts != s:
                problems.append('accepting paths disagree: %s vs %s' % (sorted(ts), sorted(s)))
        if ts is None:
            problems.append('a predicate stage never accepts')
            continue
        for lits, passes in rows:
            if passes:
                continue
            ls = [lit(n) for n in lits]
            if not any(x is not None and x[1] is False and x[0] in ts for x in ls):
                problems.append('rejects although %s may all hold' % sorted(ts))
        tests |= ts
    body = getattr(md, 'loop_body', None)
    if body is not None:
        ts = None
        for pick, assigned, step, other in body:
            if not assigned:
                continue
            ls = [lit(n) for n in other]
            if any(x is None or x[1] is not True for x in ls):
                problems.append('the accumulator is assigned under %s' % [n[1:] for n in other])
                continue
            s = frozenset(x[0] for x in ls)
            if ts is None:
                ts = s
            elif ts != s:
                problems.append('assignments are guarded differently: %s vs %s' % (sorted(ts), sorted(s)))
        ts = ts or frozenset()
        keep = []
        for row in body:
            pick, assigned, step, other = row
            ls = [lit(n) for n in other]
            if not assigned and any(x is not None and x[1] is False and x[0] in ts for x in ls):
                continue        # the element is skipped: it fails one of the tests
            if any(x is None or x[1] is not True or x[0] not in ts for x in ls):
                problems.append('an element is skipped or kept under %s' % [n[1:] for n in other])
            keep.append((pick, step, []))
        md.spaths = keep
        tests |= ts
    return tests, problems


def eval_table(md, universe):
    """({(acc state, comparison outcome): set of picks}, orientations, problems); the comparison outcome is that of
    key(item) compared with key(acc) — a comparison written the other way round is mirrored"""
    key_item, key_acc = ('field', ITEM, 'version'), ('field', ('unwrap', ACC), 'version')
    problems, orient, rows = [], set(), []
    for pick, step, other in md.spaths:
        ats = []
        if other:
            problems.append('step also depends on %s' % [n[1:] for n in other])
        for n in step:
            if n[0] == 'acc':
                ats.append(('acc', n[1]))
                continue
            _, kind, l, r, st = n
            if (l, r) == (key_item, key_acc):
                orient.add((kind, 'item-left'))
                ats.append(('ord', frozenset(st)))
            elif (l, r) == (key_acc, key_item):
                orient.add((kind, 'acc-left'))
                ats.append(('ord', frozenset(FLIP[x] for x in st)))
            else:
                problems.append('compares %s with %s' % (show(l), show(r)))
        rows.append((pick, ats))
    table = {}
    for a in ('None', 'Some'):
        for o in universe:
            table[(a, o)] = {pick for pick, ats in rows if all((a if k == 'acc' else o) in st for k, st in ats)}
    return table, orient, problems


def expected_table(universe, equal_keeps_acc=False):
    t = {}
    for o in universe:
        t[('None', o)] = {'item'}
        t[('Some', o)] = {'item'} if o == 'Greater' or (o == 'Equal' and not equal_keeps_acc) else {'acc'}
    return t


def table_str(t):
    return ', '.join('%s/%s->%s' % (a, o, '|'.join(sorted(p)) or '-') for (a, o), p in sorted(t.items()))


# ---- text normal form ------------------------------------------------------------------------------------------
def text_parts(sl, v, depth=0):
    """the pieces a string value is put together from, in order: literal text as str (adjacent literals merged),
    everything else as a value.  `format!("{}:{}", a, b)`, `String::new()` + push_str / push, and a private helper
    doing either (inline_deep) give the same list; a value that is not a concatenation is the single piece [v]"""
    from .lib.value import concat_parts
    v = strip(v)
    raw = [v]
    if depth <= 4:
        if v[0] == 'fmt':
            raw = []
            for p in v[1]:
                raw.extend([p] if isinstance(p, str) else text_parts(sl, p, depth + 1))
        elif v[0] == 'concat':
            raw = []
            for p in concat_parts(v):
                raw.extend(text_parts(sl, p, depth + 1))
    out = []
    for p in raw:
        if isinstance(p, tuple) and p[0] == 'const' and isinstance(p[1], str):
            p = p[1]
        if isinstance(p, str) and out and isinstance(out[-1], str):
            out[-1] += p
        elif p != '':
            out.append(p)
    return out


# ---- result paths ----------------------------------------------------------------------------------------------
RES = 'std::result::Result'
BRANCH = 'std::ops::Try::branch'


class ResultPaths(Engine):
    """The outcomes of a Result / Option valued function as decision paths in the entry function's terms:
        [(decisions, 'ok' | 'err', payload)]
    The same list is obtained whether the function is written with `?`, with and_then / map / map_err / ok_or
    combinators and closures, with `match` / let-else, or split into private helpers that are tail-called, called
    under `?` or handed to a combinator: every such step is expanded into the decisions taken inside it with the
    arguments substituted.  A result that cannot be looked into (std / foreign call, trait method) is a primitive
    decision ('res', value, 'ok' | 'err') with payload unwrap(value) / unwrap_err(value)."""

    def opaque(self, v):
        c = canon(v)
        return [([('res', c, 'ok', v)], 'ok', self.sl.mk_unwrap(v)), ([('res', c, 'err', v)], 'err', ('unwrap_err', v))]

    def expand_result(self, v, depth=0):
        r = self._expand_result(v, depth) if depth <= 8 else None
        return self.opaque(v) if r is None else r

    def _expand_result(self, v, depth):
        while v[0] == 'updated':
            v = v[1]
        if v[0] == 'agg' and (v[1] or '') in (RES, OPT):
            if v[2] in ('Ok', 'Some') and len(v[3]) == 1:
                p = v[3][0][1]
                if p[0] == 'unwrap':
                    # Ok(helper(..)?): the helper's own successful outcomes
                    inner = self._expand_result(p[1], depth + 1)
                    if inner is not None:
                        return [(a, k, q) for a, k, q in inner if k == 'ok']
                return [([], 'ok', p)]
            if v[2] in ('Err', 'None'):
                return [([], 'err', v[3][0][1] if v[3] else None)]
            return None
        if v[0] != 'call':
            return None
        name, args = v[1], v[2]
        if name.endswith('FromResidual::from_residual') and len(args) == 1 and args[0][0] == 'residual':
            return [r for r in self.expand_result(args[0][1], depth + 1) if r[1] == 'err']
        isres, isopt = name.startswith('std::result::Result::<'), name.startswith('std::option::Option::<')
        if (isres or isopt) and args:
            meth = name.rsplit('::', 1)[-1]
            if meth == 'and_then' and len(args) == 2:
                out = []
                for a, k, p in self.expand_result(args[0], depth + 1):
                    if k == 'err':
                        out.append((a, k, p))
                        continue
                    for a2, k2, p2 in self.apply_r(args[1], p, depth + 1):
                        out.append((a + a2, k2, p2))
                return out
            if meth == 'map' and len(args) == 2:
                return [(a, k, self.apply_v(args[1], (p,)) if k == 'ok' else p) for a, k, p in self.expand_result(args[0], depth + 1)]
            if meth == 'map_err' and isres and len(args) == 2:
                return [(a, k, self.apply_v(args[1], (p,)) if k == 'err' else p) for a, k, p in self.expand_result(args[0], depth + 1)]
            if meth == 'ok_or' and isopt and len(args) == 2:
                return [(a, k, p if k == 'ok' else args[1]) for a, k, p in self.expand_result(args[0], depth + 1)]
            if meth == 'ok_or_else' and isopt and len(args) == 2:
                return [(a, k, p if k == 'ok' else self.apply_v(args[1], ())) for a, k, p in self.expand_result(args[0], depth + 1)]
            if meth in ('inspect', 'inspect_err') and len(args) == 2:
                return self.expand_result(args[0], depth + 1)
            return None
        g = self.prog.fns.get(name)
        if g is not None and g.kind != 'Closure' and not g.impl_trait and g.blocks and g.ret.startswith((RES + '<', OPT + '<')):
            return self.rpaths(g, {(g.path, i): x for i, x in enumerate(args) if i < g.argc}, depth + 1)
        return None

    def apply_r(self, f, p, depth):
        """outcomes of calling the Result-valued closure / function item f with the payload p"""
        g = self.prog.fns.get(f[1]) if f[0] in ('closure', 'fnitem') else None
        if g is not None and f[0] == 'closure':
            m = {(g.path, 1): p}
            for i, uv in enumerate(f[2]):
                m[('upvar', g.path, i)] = uv
            return self.rpaths(g, m, depth)
        if g is not None and not g.impl_trait and g.blocks:
            return self.rpaths(g, {(g.path, 0): p}, depth)
        return self.opaque(('call', FN_CALLS[2], (f, ('tuple', (p,))), None))

    def apply_v(self, f, args):
        r = self.sl.apply_closure(f, tuple(args)) if f[0] in ('closure', 'fnitem') else None
        if r is None:
            return ('call', FN_CALLS[2], (f, ('tuple', tuple(args))), None)
        return self.reduce(r)

    def expand_atom_r(self, a, depth):
        if a[0] == 'variant':
            s, enum, names = a[1], a[2], frozenset(a[3])
            want = None
            if is_call(s, BRANCH) and len(s[2]) == 1:
                want = 'ok' if names == {'Continue'} else ('err' if names == {'Break'} else None)
                s = s[2][0]
            elif enum in (RES, OPT) and names:
                want = 'ok' if names <= {'Ok', 'Some'} else ('err' if names <= {'Err', 'None'} else None)
            if want and depth <= 8:
                return [at for at, k, p in self.expand_result(s, depth + 1) if k == want]
        return self.expand_atom(a, depth)

    @staticmethod
    def consistent(atoms):
        """the decisions without repetitions, or None when two of them contradict each other; only decisions about
        the very same evaluation (same call sites) are compared, two calls that merely look alike may differ"""
        seen, out = {}, []
        for a in atoms:
            if a[0] == 'res':
                key, val = ('res', a[3]), frozenset((a[2],))
            elif a[0] == 'variant':
                key, val = ('variant', a[1], a[2]), frozenset(a[3])
            elif a[0] == 'bool':
                key, val = ('bool', a[1]), frozenset((a[2],))
            else:
                key, val = ('other', repr(a)), None
            if key in seen:
                if val is not None:
                    seen[key] &= val
                    if not seen[key]:
                        return None
                continue
            seen[key] = val
            out.append(a)
        return out

    def rpaths(self, fn, m, depth=0):
        if depth > 8:
            raise Giveup('result paths too deep at ' + fn.path)
        out = []
        for blocks, atoms, end in self.paths(fn, self.S, 0):
            if end != 'ret':
                raise Giveup('loop inside ' + fn.path)
            rv = self.sub(self.value_at(fn, self.S, blocks, 0), m)
            cases = [[]]
            for a in atoms:
                alts = self.expand_atom_r(self.sub_atom(a, m), depth)
                cases = [c + x for c in cases for x in alts]
                if len(cases) > 200:
                    raise Giveup('decision too wide')
            outs = self.expand_result(rv, depth)
            for case in cases:
                for a2, k, p in outs:
                    c = self.consistent(case + a2)
                    if c is not None:
                        out.append((c, k, p))
            if len(out) > 400:
                raise Giveup('too many result paths in ' + fn.path)
        return out


def result_paths(prog, sl, fn):
    """[(decisions, 'ok' | 'err', payload)] of fn (see ResultPaths); raises Giveup"""
    _PROG[0], _PROG[1] = prog, sl
    return ResultPaths(prog, sl).rpaths(fn, {}, 0)


def atom_str(a):
    if a[0] == 'res':
        return '%s is %s' % (vstr(a[1])[:70], a[2])
    if a[0] == 'variant':
        return '%s is %s' % (vstr(a[1])[:70], '|'.join(sorted(a[3])))
    if a[0] == 'bool':
        return '%s == %s' % (vstr(a[1])[:70], a[2])
    return str(a)[:80]


# ---- deepening round: data flow of the codec functions, serde schema symmetry, adapters ------------------------
SPLIT = 'core::str::<impl str>::split_once'
HEXDEC = 'hex::decode'


def is_param(v, fn, i):
    v = strip(v)
    return v[0] == 'param' and v[1] == fn.path and v[2] == i


# "the text before / after the first occurrence of a pattern" has one normal form, the parts of `s.split_once(P)`.
# std defines split_once(P) as: find the first match of P at [i, j) and return (&s[..i], &s[j..]); for a literal
# pattern j = i + len_utf8(P).  So, given that s.find(P) found something,
#     s[..s.find(P)?]  (also s[0..i])                     ==  s.split_once(P)?.0
#     s[s.find(P)? + len(P)..]  (also s[i + len(P)..s.len()])  ==  s.split_once(P)?.1
#     s.find(P) is Some / None                            <=>  s.split_once(P) is Some / None
# norm_split rewrites the left-hand spellings into the right-hand one (anything else done with the index - another
# offset, rfind, a different string sliced than searched - is left as it is and fails the obligations as before).
FIND = 'core::str::<impl str>::find'
SPLIT_AT = 'core::str::<impl str>::split_at'
STR_GET = 'core::str::<impl str>::get'


def _str_index(v):
    return v[0] == 'call' and len(v[2]) == 2 and v[1].endswith('::index') and 'ops::Index<' in v[1] and v[1].endswith((' for str>::index', ' for std::string::String>::index'))


def _found(v):
    """(string, pattern, site) when v is the payload of `string.find(<literal pattern>)`"""
    if v[0] == 'unwrap' and is_call(v[1], FIND) and len(v[1][2]) == 2 and v[1][2][1][0] == 'const' and isinstance(v[1][2][1][1], str) and v[1][2][1][1]:
        return v[1][2][0], v[1][2][1], (v[1][3] if len(v[1]) > 3 else None)
    return None


def _found_plus(v):
    """(string, pattern, site) when v is `string.find(P)? + len_utf8(P)`"""
    if v[0] == 'field' and str(v[2]) == '0' and v[1][0] == 'bin' and v[1][1] == 'AddWithOverflow':
        v = ('bin', 'Add', v[1][2], v[1][3])
    if v[0] == 'bin' and v[1] in ('Add', 'AddUnchecked') and len(v) == 4:
        for x, n in ((v[2], v[3]), (v[3], v[2])):
            f = _found(x)
            if f is not None and n[0] == 'const' and not isinstance(n[1], bool) and n[1] == len(f[1][1].encode('utf-8')):
                return f
    return None


# round 5: two more spellings of the same primitives
#   * `<Vec<u8> as hex::FromHex>::from_hex(x)` is what hex 0.4 defines `hex::decode(x)` to be (same errors)
#   * `let mut it = s.splitn(2, P); it.next().zip(it.next())`: a SplitN limited to 2 pieces yields first the text
#     before the first match of P (or all of s when there is none; always Some) and then, iff P occurs, the text after
#     that match; so zip(1st next, 2nd next) is Some((before, after)) exactly when P occurs == s.split_once(P).
#     Which `next` is the first / second is read off the CFG (the call sites are totally ordered by dominance, none in
#     a loop) and the iterator must not be handed to anything but these `next` calls (_splitn_ordinal).
FROM_HEX_VEC = '<std::vec::Vec<u8> as hex::FromHex>::from_hex'
SPLITN = 'core::str::<impl str>::splitn'
ZIP = 'std::option::Option::<T>::zip'
_PROG = [None, None]
_ORD_CACHE = {}


def _site(v):
    return v[3] if v[0] == 'call' and len(v) > 3 and isinstance(v[3], tuple) and len(v[3]) == 2 else None


def _splitn_ordinal(nx):
    """(k, total) when the value nx = Iterator::next(<splitn call>) is the k-th of `total` advances of that SplitN (1-based)"""
    prog = _PROG[0]
    if prog is None or not (is_call(nx, IT + 'next') and len(nx[2]) == 1 and is_call(strip(nx[2][0]), SPLITN)):
        return None
    it, s_nx, s_it = strip(nx[2][0]), _site(nx), _site(strip(nx[2][0]))
    if s_nx is None or s_it is None or s_nx[0] != s_it[0] or s_it[0] not in prog.fns:
        return None
    key = (s_it, id(prog))
    if key not in _ORD_CACHE:
        fn = prog.fns[s_it[0]]
        sl = _PROG[1]
        order = None
        if sl is not None:
            users, bad = [], False
            for g in [fn] + list(prog.closures_of(fn)):
                for c in g.calls:
                    for a in c.args:
                        try:
                            av = strip(sl.operand(g, a))
                        except Exception:
                            continue
                        if is_call(av, SPLITN) and _site(av) == s_it:
                            if g is fn and not c.indirect and (c.decl or '').endswith('Iterator::next') and not fn.in_loop(c.bb):
                                users.append(c.bb)
                            else:
                                bad = True
            # (a closure capturing the iterator shows up as an upvar of that closure, not as a call argument)
            for g in prog.closures_of(fn):
                for x in walk(sl.local(g, 0)):
                    if is_call(x, SPLITN):
                        bad = True
            if not bad and users and len(set(users)) == len(users):
                users.sort(key=lambda b: sum(1 for o in users if o != b and fn.dominates(o, b)))
                if all(fn.dominates(users[i], users[i + 1]) for i in range(len(users) - 1)):
                    order = users
        _ORD_CACHE[key] = order
    order = _ORD_CACHE[key]
    if not order or s_nx[1] not in order:
        return None
    return order.index(s_nx[1]) + 1, len(order)


def _splitn2(nx):
    """(k, splitn call, equivalent split_once call) when nx is the k-th `next()` of `s.splitn(2, <literal>)`"""
    o = _splitn_ordinal(nx)
    if o is None:
        return None
    it = strip(nx[2][0])
    if len(it[2]) == 3 and strip(it[2][1]) == ('const', 2) and strip(it[2][2])[0] == 'const' and isinstance(strip(it[2][2])[1], str) and strip(it[2][2])[1]:
        return o[0], it, ('call', SPLIT, (it[2][0], strip(it[2][2])), _site(it))
    return None


def _second_pieces(v):
    """sites of the splitn(2, P) iterators whose second piece is used in v (so, where v is evaluated, P was found)"""
    out = set()
    for x in walk(v):
        if isinstance(x, tuple) and x and x[0] == 'unwrap' and isinstance(x[1], tuple):
            k = _splitn2(x[1])
            if k is not None and k[0] == 2:
                out.add(_site(k[1]))
    return out


def _rw_splitn(v, some2):
    """the pieces of `let mut it = s.splitn(2, P)` taken one `next()` at a time, in split_once terms: the payload of the
    2nd next() is the text after the first P; where a 2nd piece exists (some2), the payload of the 1st next() is the
    text before it (without a 2nd piece the 1st is all of s: left as it is)"""
    if not isinstance(v, tuple) or not v or (isinstance(v[0], str) and v[0] in LEAF):
        return v
    if v[0] == 'unwrap' and len(v) == 2 and isinstance(v[1], tuple):
        k = _splitn2(v[1])
        if k is not None and k[0] == 2:
            return ('field', ('unwrap', k[2]), '1')
        if k is not None and k[0] == 1 and _site(k[1]) in some2:
            return ('field', ('unwrap', k[2]), '0')
    return tuple(_rw_splitn(x, some2) if isinstance(x, tuple) else x for x in v)


def norm_split(v, some2=None):
    if _PROG[0] is not None and isinstance(v, tuple) and any(is_call(x, SPLITN) for x in walk(v)):
        v = _rw_splitn(v, _second_pieces(v) | (some2 or set()))
    return _norm_split(v)


def _norm_split(v):
    if not isinstance(v, tuple) or not v or (isinstance(v[0], str) and v[0] in LEAF):
        return v
    out = tuple(_norm_split(x) if isinstance(x, tuple) else x for x in v)
    if is_call(out, FROM_HEX_VEC) and len(out[2]) == 1:
        return ('call', HEXDEC) + out[2:]
    if is_call(out, ZIP) and len(out[2]) == 2:
        a, b = strip(out[2][0]), strip(out[2][1])
        oa, ob = _splitn_ordinal(a), _splitn_ordinal(b)
        if oa is not None and ob is not None and oa[0] == 1 and ob[0] == 2 and canon(strip(a[2][0])) == canon(strip(b[2][0])):
            it = strip(a[2][0])
            if len(it[2]) == 3 and strip(it[2][1]) == ('const', 2) and strip(it[2][2])[0] == 'const' and isinstance(strip(it[2][2])[1], str) and strip(it[2][2])[1]:
                return ('call', SPLIT, (it[2][0], strip(it[2][2]))) + out[3:]
    # s.split_at(s.find(P)?) = (text before the match, the match and what follows it)
    if out[0] == 'field' and str(out[2]) == '0' and is_call(out[1], SPLIT_AT) and len(out[1][2]) == 2:
        f = _found(out[1][2][1])
        if f is not None and canon(strip(f[0])) == canon(strip(out[1][2][0])):
            return ('field', ('unwrap', ('call', SPLIT, (out[1][2][0], f[1]), f[2])), '0')
    sliced = out[2] if _str_index(out) else (out[1][2] if out[0] == 'unwrap' and is_call(out[1], STR_GET) and len(out[1][2]) == 2 else None)
    if sliced is not None:
        s, r = sliced
        if r[0] == 'agg' and r[2] == 'RangeFrom' and s[0] == 'field' and str(s[2]) == '1' and is_call(s[1], SPLIT_AT) and len(s[1][2]) == 2:
            f = _found(s[1][2][1])
            st = dict(r[3]).get('start', ('unknown',))
            if f is not None and canon(strip(f[0])) == canon(strip(s[1][2][0])) and st[0] == 'const' and not isinstance(st[1], bool) and st[1] == len(f[1][1].encode('utf-8')):
                return ('field', ('unwrap', ('call', SPLIT, (s[1][2][0], f[1]), f[2])), '1')
        rng = dict(r[3]) if r[0] == 'agg' and (r[1] or '').startswith('std::ops::Range') else None
        part = None
        if rng is not None and r[2] == 'RangeTo' and set(rng) == {'end'}:
            part = (_found(rng['end']), '0')
        elif rng is not None and r[2] == 'Range' and set(rng) == {'start', 'end'} and rng['start'] == ('const', 0):
            part = (_found(rng['end']), '0')
        elif rng is not None and r[2] == 'RangeFrom' and set(rng) == {'start'}:
            part = (_found_plus(rng['start']), '1')
        elif rng is not None and r[2] == 'Range' and set(rng) == {'start', 'end'} and rng['end'][0] == 'call' and rng['end'][1].endswith(('str>::len', 'String::len')) \
                and len(rng['end'][2]) == 1 and canon(strip(rng['end'][2][0])) == canon(strip(s)):
            part = (_found_plus(rng['start']), '1')
        if part is not None and part[0] is not None and canon(strip(part[0][0])) == canon(strip(s)):
            return ('field', ('unwrap', ('call', SPLIT, (s, part[0][1]), part[0][2])), part[1])
    return out


def norm_split_paths(rp):
    """result paths with the text-splitting normal form applied to decisions and payloads"""
    out = []
    for atoms, k, p in rp:
        na = []
        # pieces of a splitn(2, P) taken one next() at a time: on a path where the 2nd next() gave Some (or whose
        # payload uses that piece) P was found; "2nd next() is Some / None" is "split_once(P) is Some / None", and
        # "1st next() is Some" always holds (a SplitN yields at least one piece, also for the empty string)
        some2 = _second_pieces(p) if p is not None and _PROG[0] is not None else set()
        pre = []
        for a in atoms:
            sv = a[3] if a[0] == 'res' else (a[1] if a[0] == 'variant' and a[2] == OPT else None)
            k2 = _splitn2(sv) if sv is not None and _PROG[0] is not None else None
            if k2 is not None and k2[0] == 2:
                if (a[0] == 'res' and a[2] == 'ok') or (a[0] == 'variant' and frozenset(a[3]) == {'Some'}):
                    some2.add(_site(k2[1]))
                a = ('res', canon(k2[2]), a[2], k2[2]) if a[0] == 'res' else ('variant', k2[2], a[2], a[3])
            elif k2 is not None and k2[0] == 1 and ((a[0] == 'res' and a[2] == 'ok') or (a[0] == 'variant' and frozenset(a[3]) == {'Some'})):
                continue
            pre.append(a)
        for a in pre:
            if a[0] == 'res':
                v = norm_split(a[3], some2)
                if is_call(v, FIND) and len(v[2]) == 2 and v[2][1][0] == 'const' and isinstance(v[2][1][1], str) and v[2][1][1]:
                    v = ('call', SPLIT, v[2], v[3] if len(v) > 3 else None)
                na.append(('res', canon(v), a[2], v))
            elif a[0] == 'variant':
                v = norm_split(a[1], some2)
                if is_call(v, FIND) and a[2] == OPT and len(v[2]) == 2 and v[2][1][0] == 'const' and isinstance(v[2][1][1], str) and v[2][1][1]:
                    v = ('call', SPLIT, v[2], v[3] if len(v) > 3 else None)
                na.append(('variant', v, a[2], a[3]))
            elif a[0] == 'bool':
                na.append(('bool', norm_split(a[1], some2), a[2]))
            else:
                na.append(a)
        out.append((na, k, norm_split(p, some2) if p is not None else None))
    return out


def split_part(v, fn, i):
    """v is exactly the i-th component of `<param 0 of fn>.split_once(':')` (identity conversions such as
    String::from / to_owned / to_string / clone are transparent in the value normal form; trim, case folding,
    slicing, .. are not)"""
    v = strip(v)
    if v[0] != 'field' or str(v[2]) != str(i):
        return False
    b = strip(v[1])
    return b[0] == 'call' and b[1] == SPLIT and len(b[2]) == 2 and is_param(b[2][0], fn, 0) and strip(b[2][1]) == ('const', ':')


def acceptor_parts(sl, fs, oks):
    """problems with the parts an accepted checksum is made of, for every Ok outcome (decisions, payload) of from_str:
    name = part 0 of split_once(':'), value = payload of hex::decode(part 1), and the two compatibility tests look at
    that name and at the length of that value"""
    probs = []
    for atoms, p in oks:
        ck = norm_split(strip(sl.inline_deep(p)))
        fl = dict(ck[3]) if ck[0] == 'agg' else {}
        name_v, val_v = fl.get('name', ('unknown',)), strip(fl.get('value', ('unknown',)))
        if not split_part(name_v, fs, 0):
            probs.append('name is %s, not the text before the first colon' % vstr(name_v)[:80])
        if not (val_v[0] == 'call' and val_v[1] == HEXDEC and len(val_v[2]) == 1 and split_part(val_v[2][0], fs, 1)):
            probs.append('value is %s, not hex::decode(text after the first colon)' % vstr(val_v)[:80])
        for a in atoms:
            if a[0] != 'bool' or a[1][0] != 'call':
                continue
            n, args = a[1][1], a[1][2]
            if n.endswith('Digest::name_compatible') and not (len(args) == 1 and canon(strip(args[0])) == canon(strip(name_v))):
                probs.append('name_compatible looks at %s' % vstr(args[0])[:60] if args else 'name_compatible()')
            if n.endswith('Digest::length_compatible'):
                l = strip(args[0]) if args else ('unknown',)
                if not (l[0] == 'call' and l[1].endswith('::len') and len(l[2]) == 1 and canon(strip(l[2][0])) == canon(val_v)):
                    probs.append('length_compatible looks at %s' % vstr(l)[:60])
    return probs


def acceptor_extra_conditions(fs, oks, sl=None):
    """decisions on the way to an Ok outcome other than: split_once(':') found a colon, hex::decode succeeded,
    name_compatible, length_compatible.  from_str is deterministic, so when the accepting paths depend on these four
    only, every rejecting path differs from an accepting one in one of them: accepted <=> all four hold"""
    extra = []
    for atoms, p in oks:
        # the split / decode that is tested is the one whose results the accepted checksum is made of
        used = set()
        if sl is not None and p is not None:
            used = {x for q in (p, norm_split(sl.inline_deep(p))) for x in walk(canon(q)) if isinstance(x, tuple) and x and x[0] == 'call'}
        mine = lambda c: sl is None or canon(c) in used
        for a in atoms:
            if a[0] == 'res' and a[2] == 'ok' and a[1][0] == 'call' and a[1][1] in (SPLIT, HEXDEC) and mine(a[1]):
                continue
            if a[0] == 'variant' and a[1][0] == 'call' and a[1][1] in (SPLIT, HEXDEC) and frozenset(a[3]) <= {'Some', 'Ok'} and mine(a[1]):
                continue
            if a[0] == 'bool' and a[2] is True and a[1][0] == 'call' and a[1][1].endswith(('Digest::name_compatible', 'Digest::length_compatible')):
                continue
            extra.append(atom_str(a))
    return extra


def flow_through(prog, sl, fn, inner, arg_ok):
    """(ok?, why) — the fallible function fn succeeds exactly with the success payload of the call `inner(..)` whose
    arguments satisfy arg_ok, and fails whenever that call fails (Ok outcomes of result_paths)"""
    try:
        rp = result_paths(prog, sl, fn)
    except Giveup as e:
        return None, 'outcomes not understood: %s' % e
    oks = [(a, p) for a, k, p in rp if k == 'ok']
    if not oks:
        return False, 'no successful outcome'
    for atoms, p in oks:
        v = strip(sl.inline_deep(p)) if p is not None else ('unknown',)
        if not (v[0] == 'call' and inner(v[1]) and arg_ok(v[2])):
            return False, 'succeeds with %s' % vstr(v)[:120]
        for a in atoms:
            if a[0] == 'res' and a[2] == 'err' and a[1][0] == 'call' and inner(a[1][1]):
                return False, 'succeeds although %s failed' % vstr(a[1])[:80]
    return True, ''


def schema_problems(prog, sl, ty):
    """(problems, unknowns) for the round trip of a derived Serialize / Deserialize pair of a workspace struct or
    unit-variant enum, read off the generated code (lib.serde_schema): every field is written under a key the
    reader maps back to the same field; a field may be left out only under a predicate whose 'left out' value is the
    reader's default; every variant is written under a name the reader maps back to the same variant"""
    from .lib import serde_schema as SS
    adt = prog.adts.get(ty)
    de, se = SS.deser_struct(prog, sl, ty), SS.ser_struct(prog, sl, ty)
    if adt is None or de is None or se is None:
        return [], ['no derived Serialize / Deserialize pair found for %s' % ty]
    probs, unk = [], list(de['problems']) + list(se['problems'])
    if adt['kind'] == 'enum':
        if de['kind'] != 'enum' or se['kind'] != 'enum':
            return [], unk + ['%s is not (de)serialised as a unit-variant enum' % ty]
        for i, var in enumerate(adt['variants']):
            s = se['variants'].get(var['name'])
            if s is None:
                probs.append('variant %s is not serialised' % var['name'])
                continue
            k = de['keys'].get(s)
            if k is None:
                probs.append('%s is written as "%s", which the reader does not know (it knows %s)' % (var['name'], s, sorted(de['keys'])))
            elif k.index != i:
                probs.append('"%s" is written for %s but read as %s' % (s, var['name'], adt['variants'][k.index]['name'] if k.index < len(adt['variants']) else k.index))
        return probs, unk
    fields = adt['variants'][0]['fields']
    names = [f['name'] for f in fields]
    fty = {f['name']: f['ty'] for f in fields}
    written = {}
    for key, k in se['keys'].items():
        if not k.ser:
            probs.append('key "%s" is never written (%s)' % (key, k.skip_pred))
            continue
        if k.field not in names:
            unk.append('key "%s" is written from %s' % (key, k.field))
            continue
        written[k.field] = key
        d = de['keys'].get(key)
        if d is None or d.field != k.field:
            probs.append('field %s is written as "%s", read back into %s' % (k.field, key, d.field if d else 'nothing'))
            continue
        if k.skip_pred is not None:
            empty = k.skip_pred.endswith('::is_empty') and (d.default or '').endswith(('Default::default', 'Default>::default', 'Vec::<T>::new', 'String::new'))
            none = k.skip_pred.endswith('::is_none') and d.default == 'None'
            if d.required:
                probs.append('field %s is left out when %s, but the reader requires "%s"' % (k.field, k.skip_pred, key))
            elif not (empty or none):
                unk.append('field %s is left out when %s and read back as %s' % (k.field, k.skip_pred, d.default))
    for n in names:
        if n not in written:
            probs.append('field %s is not serialised' % n)
    # the values go through the field types' own Serialize / Deserialize (no serialize_with / deserialize_with)
    sf = next((f for f in (prog.fns.get(p) for p in se['fns']) if f is not None), None)
    got = sorted(c.ga[1] for c in (sf.calls if sf else ()) if c.decl and c.decl.endswith('::serialize_field') and c.ga and len(c.ga) > 1)
    if got != sorted(fty[n] for n in written):
        unk.append('serialised value types %s differ from the field types' % got)
    vm = next((f for f in (prog.fns.get(p) for p in de['fns']) if f is not None and f.path.endswith('::visit_map')), None)
    got = sorted(c.ga[1] for c in (vm.calls if vm else ()) if c.decl and c.decl.endswith('MapAccess::next_value') and c.ga and len(c.ga) > 1 and not c.ga[1].endswith('IgnoredAny'))
    if got != sorted(fty[n] for n in names):
        unk.append('deserialised value types %s differ from the field types' % got)
    return probs, unk


# in-place mutation: the value normal form follows what is *assigned*; a `&mut self` method applied to a local
# (`inventory.artifacts.dedup_by(..)`, `text.make_ascii_lowercase()`, `bytes.truncate(n)`) changes the data without a
# new definition.  The data-flow obligations above are only meaningful when nothing of that kind happens in the
# functions they read, so those are listed here (fail closed).  Mutators the normal form does model are exempt.
MODELLED_MUT = ('std::string::String::push_str', 'std::string::String::push', 'std::iter::Iterator::next', 'std::fmt::Write::write_fmt', 'std::fmt::Write::write_str',
                'std::fmt::Write::write_char')


def _code_of(prog, fn, depth=0, seen=None):
    """fn, its closures and the private workspace functions it calls (what inline_deep / result_paths look through)"""
    seen = seen if seen is not None else {}
    if fn.path in seen or depth > 6:
        return seen
    seen[fn.path] = fn
    for g in prog.closures_of(fn):
        _code_of(prog, g, depth + 1, seen)
    for c in fn.calls:
        g = prog.fns.get(c.name) if c.name else None
        if g is not None and g.crate == fn.crate and g.kind != 'Closure' and not g.impl_trait and g.vis != 'pub' and g.blocks:
            _code_of(prog, g, depth + 1, seen)
    return seen


def inplace_mutations(prog, fn, ignore_ty=('std::fmt::Formatter',)):
    """['<local> is changed in place by <callee> in <fn>'] for every `&mut` borrow of a local that is handed to a call
    outside MODELLED_MUT, and every assignment to a part of a local"""
    out = []
    for g in _code_of(prog, fn).values():
        for li in range(len(g.locals)):
            ty = g.local_ty(li) or ''
            if any(t in ty for t in ignore_ty):
                continue
            nm = g.local_name(li) or '_%d' % li
            if li != 0 and g.partial_defs(li) and g.local_name(li):
                out.append('a part of %s is assigned in %s' % (nm, g.path.split('::')[-1]))
            for u in g.uses_of(li):
                if u[1] != 'stmt' or u[3] != 'refmut':
                    continue
                st = g.blocks[u[0]]['s'][u[2]]
                dest = st[1] if isinstance(st[1], (list, tuple)) else None
                dl = dest[0] if dest else None
                users = [c for c in g.calls if dl is not None and any((op_place(a) or [None])[0] == dl for a in c.args)]
                if not users:
                    # the borrow is stored / re-borrowed: follow one level of re-borrow, otherwise report it
                    users = [c for c in g.calls for a in c.args for d in g.whole_defs((op_place(a) or [None])[0] or -1)
                             if d[0] == 'stmt' and d[3].get('r') in ('ref', 'use', 'cast') and any(pl[0] == dl for pl, _ in _rv_places(d[3]))] if dl is not None else []
                    if not users:
                        out.append('%s is borrowed mutably in %s' % (nm, g.path.split('::')[-1]))
                for c in users:
                    cn = c.decl or c.name or '?'
                    if cn in MODELLED_MUT or (c.name or '') in MODELLED_MUT or cn.startswith("std::fmt::Formatter::<'a>::"):
                        continue
                    out.append('%s is changed in place by %s' % (nm, (c.name or cn)))
    return sorted(set(out))


def _rv_places(rv):
    from .lib.mir import _rvalue_places
    return list(_rvalue_places(rv))


# ---- round 5: spelling-independent readings for R5 (digest descriptors) ------------------------------------------
def str_eq_const(v):
    """(subject, literal) when the boolean v is byte-wise equality of a string with a literal:
    `s == "lit"` / `"lit" == s` / `s.eq("lit")` (PartialEq::eq on str / String / &str, symmetric),
    `matches!(s, "lit")` / `match s { "lit" => true, _ => false }` (a select over a str scrutinee whose only true arm
    is the one literal and whose wildcard arm is false).  Anything else (several literals, a negated table, a
    prefix / case-folding test) is None."""
    v = strip(v)
    if v[0] == 'call' and v[1].endswith('::eq') and 'PartialEq' in v[1] and len(v[2]) == 2:
        for a, b in ((v[2][0], v[2][1]), (v[2][1], v[2][0])):
            if strip(b)[0] == 'const' and isinstance(strip(b)[1], str):
                return a, strip(b)[1]
        return None
    if v[0] == 'select' and v[2] in ('str', '&str', 'std::string::String'):
        arms = [(tuple(pats), strip(val)) for pats, val in v[3]]
        true = [p for p, val in arms if val == ('const', True)]
        false = [p for p, val in arms if val == ('const', False)]
        if len(arms) == 2 and len(true) == 1 and len(false) == 1 and false[0] == ('*',) and len(true[0]) == 1 and true[0][0] != '*':
            return v[1], true[0][0]
    return None


def size_self_types(prog, fn, env=None, depth=0):
    """The Self types of every `OutputSizeUser::output_size()` call that fn's result can come from, looking through
    private generic helpers with the call site's generic arguments substituted for the helper's type parameter
    (`output_len::<Sha256>()` -> `<Sha256 as OutputSizeUser>::output_size`).  None in the list = a type that could
    not be resolved."""
    out = []
    if depth > 4:
        return [None]
    for c in fn.calls:
        n = c.decl or c.name or ''
        if n.endswith('::output_size'):
            m = re.match(r'^<(.*) as [^<>]*(?:<.*>)?>::output_size$', c.full or '')
            t = (c.ga[0] if c.ga else None) or (m.group(1) if m else None)
            if t is not None and re.match(r'^\w+$', t):          # a bare type parameter of the enclosing helper
                t = env
            out.append(t)
        elif not c.indirect and c.name in prog.fns and prog.fns[c.name].crate == fn.crate:
            g = prog.fns[c.name]
            ga = [(env if re.match(r'^\w+$', x) and x not in ('usize', 'str', 'bool') else x) for x in (c.ga or [])]
            out.extend(size_self_types(prog, g, ga[0] if len(ga) == 1 else None, depth + 1))
    return out
