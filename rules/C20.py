"""C20 — identical inputs give byte-identical layer and phase outputs.

Decided structurally:
  R1 ordered types     no hash-ordered container in the field-type closure of the types serialised into the
                       build plan, launch.toml, store.toml and layer content metadata (toml::Table positions are
                       ordered maps in toml 0.8 for every feature set)
  R2 hash iterations   every iteration over a HashMap / HashSet in libcnb, libcnb-data, libcnb-common is listed
                       with the reason its order cannot reach the bytes of an output; a new site fails the check
                       until it is triaged
  R3 no nondeterminism no clock / pid / temp-dir / PRNG call is reachable from the output writers (layer API, env
                       writer, runtime phases, TOML helpers)
  R4 no env leakage    the data written by those writers does not derive from environment reads (env::var,
                       current_dir, args)
Not decided: determinism of user callbacks and of toml's formatter (a pure function of its input value).

Deepening round (helpers in C20_helpers.py):
  R1 sinks             the roots of R1 are not only the four spec types: every type handed to a serialiser (toml::to_string,
                       Value::try_from, write_toml_file — generic arguments followed to the workspace callers) is checked
                       the same way; a hash container serialised directly is reported at the sink
  R2 implicit uses     a hash container handed as a whole to code that can observe its order (extend / from_iter / chain /
                       Debug formatting / a serialiser / a generic workspace function) is an iteration site like `.iter()`;
                       workspace functions returning a hash iterator (Env::iter) are iteration sources for their callers
  R2 shape             an iteration over a triaged container may only be consumed element-wise and completely: adapters
                       and consumers that select by position (take_while, map_while, skip, step_by, nth, last, zip, a lone
                       next) make the set of handled elements depend on the hash order
  R3 families          clocks also through `elapsed`, file time stamps / inode numbers, parent pid, RandomState, random
                       names, addresses; and the same for every library function (builders, conversions in libcnb-data),
                       not only what is reachable from the writers; threads in that code are reported as not decided
Generalisation round 5:
  R2 triage owner      a triage is stated for a public function and a container in its terms; private functions only that
                       function can reach (thin generic wrapper + non-generic body, phases) are its code: their iteration
                       sites are judged with the container lifted to the owner's terms, and the completeness / shape /
                       element-wise obligations range over that whole scope (C20_helpers.triage_scope, lift_to)
  R2 keyed transfer    an untriaged hash iteration is discharged semantically when its order cannot be observed: a complete
                       loop directly over the distinct keys / entries whose body only inserts something computed from the
                       element under the element's own key into a keyed container, carries no state between iterations and
                       does not read the target (C20_helpers.order_free_transfer); anything else stays VIOLATED
"""
import re
from .lib import serde_schema as S
from .lib.effects import Effects, MUTATING
from .lib.value import vstr, walk
from . import C12

ROOTS = ['libcnb_data::build_plan::BuildPlan', 'libcnb_data::launch::Launch', 'libcnb_data::store::Store',
         'libcnb_data::layer_content_metadata::LayerContentMetadata', 'libcnb_data::layer_content_metadata::LayerTypes']
HASHY = re.compile(r'\b(HashMap|HashSet|hashbrown|IndexMap|IndexSet|FxHashMap|AHashMap)\b')
ITER_RX = re.compile(r"(hash_map::(Iter|IterMut|IntoIter|Keys|Values|ValuesMut|IntoKeys|IntoValues|Drain)|hash_set::(Iter|IntoIter|Drain|Union|Intersection|Difference))")
ITER_METHODS = re.compile(r'std::collections::(HashMap|HashSet)::<[^>]*>::(iter|iter_mut|keys|values|values_mut|into_keys|into_values|drain|retain|extract_if)$')
# triaged iteration sites: function -> reason the iteration order cannot reach output bytes
TRIAGED = {
    'libcnb::layer_env::LayerEnv::write_to_layer_dir': 'process scopes: each element is written to its own directory env.launch/<key>; order only affects the sequence of independent files',
    'libcnb::layer::shared::replace_layer_exec_d_programs': 'exec.d programs: each element is copied to its own file exec.d/<key>',
    'libcnb::env::Env::iter': 'in-memory API handed to the buildpack author; nothing is written by libcnb from it',
    "<&'a libcnb::env::Env as std::iter::IntoIterator>::into_iter": 'forwards Env::iter (the same in-memory API); a library function that consumes it is an iteration site of its own',
}
# serialisers whose output is not one of the property's files
SINK_TRIAGED = {
    'libcnb::exec_d::write_exec_d_program_output': 'the exec.d output protocol: written to file descriptor 3 by a running exec.d program at launch, not by detect/build',
}
# what was triaged per function is *which* hash container is iterated (not how the loop is spelled): a predicate
# on the symbolic source of the iteration, in the function's own terms
def _self_field(name):
    return lambda f, v: v[0] == 'field' and v[2] == name and v[1][0] == 'param' and v[1][2] == 0 and v[1][1] == f.path


TRIAGED_SOURCE = {
    'libcnb::layer_env::LayerEnv::write_to_layer_dir': ('self.process', _self_field('process')),
    'libcnb::layer::shared::replace_layer_exec_d_programs': ('the exec_d_programs parameter', lambda f, v: v[0] == 'param' and v[2] == 2 and v[1] == f.path),
    'libcnb::env::Env::iter': ('self.inner', _self_field('inner')),
    "<&'a libcnb::env::Env as std::iter::IntoIterator>::into_iter": ('self / self.inner', lambda f, v: (v[0] == 'param' and v[2] == 0 and v[1] == f.path) or _self_field('inner')(f, v)),
}


def _uses_whole(f, v, pred, depth=0):
    """does value v depend on the container (pred) other than through single elements `next(container)`"""
    from .lib.paths import strip
    if not isinstance(v, tuple) or not v or depth > 40:
        return False
    if v[0] == 'call' and v[1] == 'std::iter::Iterator::next' and v[2]:
        src = v[2][0]
        for _ in range(8):
            src = strip(src)
            if pred(f, src):
                return False
            if src[0] == 'call' and src[2] and not src[1].startswith('std::iter::Iterator::collect'):
                src = src[2][0]
                continue
            break
    if v[0] in ('field', 'param') and pred(f, strip(v)):
        return True
    return any(_uses_whole(f, x, pred, depth + 1) for x in v if isinstance(x, tuple))


def iteration_sources(sl, f, c, arg=0):
    """the collections behind an iteration call (adapters, borrows and `.iter()` peeled; `chain` gives both sides;
    literal arrays / once(..) are ordered by construction and are left out)"""
    from .lib import iters
    from .lib.paths import strip
    if not c.args or arg >= len(c.args):
        return [('unknown', 'no receiver')]
    return iteration_sources_v(sl.operand(f, c.args[arg]))


def iteration_sources_v(v0):
    from .lib import iters
    from .lib.paths import strip
    out = []
    work = [strip(v0)]
    n = 0
    while work and n < 40:
        n += 1
        v = strip(work.pop())
        if v[0] in ('array', 'tuple'):
            continue
        if v[0] == 'phi':
            work.extend(v[1])
            continue
        if v[0] == 'call' and v[2]:
            if v[1] == iters.IT + 'chain' and len(v[2]) == 2:
                work.extend(v[2])
                continue
            if v[1] == 'std::iter::once':
                continue
            if v[1] in iters.SAME or v[1] in iters.FEWER or v[1] in iters.LAZY_WITH_CLOSURE or iters._is_source(v[1]) \
                    or v[1] == iters.IT + 'enumerate' or v[1] in iters.COLLECTING:
                work.append(v[2][0])
                continue
        out.append(v)
    return out


NONDET_NAMES = {'std::time::SystemTime::now', 'std::time::Instant::now', 'std::process::id', 'std::env::temp_dir', 'std::thread::current',
                'fastrand::u64', 'fastrand::lowercase', 'fastrand::alphanumeric', 'rand::random', 'rand::thread_rng', 'rand::rng'}
ENV_NAMES = {'std::env::var', 'std::env::var_os', 'std::env::vars', 'std::env::vars_os', 'std::env::current_dir', 'std::env::args', 'std::env::args_os', 'std::env::current_exe'}


def walk_own(prog, v):
    """sub-values computed by the library itself: the result of a user callback (a workspace trait method
    dispatched to the buildpack author's implementation, e.g. Buildpack::build) is opaque user data — what the
    author derives from the context handed to them is outside this property's subject"""
    if isinstance(v, tuple):
        if v and isinstance(v[0], str):
            yield v
            if v[0] == 'call' and v[1] in prog.traits_methods() and v[1].split('::')[0] in ('libcnb', 'libcnb_data'):
                return
        for x in v:
            if isinstance(x, tuple):
                yield from walk_own(prog, x)


def walk_own_deep(prog, sl, v, depth=0):
    """walk_own, with the results of private workspace functions looked into as well: data rendered by a helper
    (`fs::write(p, render(x))`) derives from whatever the helper's result derives from"""
    for x in walk_own(prog, v):
        yield x
        if x[0] == 'call' and depth < 4 and x[1] in prog.fns and prog.fns[x[1]].kind != 'Closure' and x[1] not in prog.traits_methods():
            iv = sl.inline_call(x)
            if iv is not None:
                yield from walk_own_deep(prog, sl, iv, depth + 1)


def run(ctx, rep):
    prog, sl = ctx.prog, ctx.slicer
    for r, d in (('R1', 'no hash-ordered container inside serialised output types'), ('R2', 'every hash-container iteration is triaged'),
                 ('R3', 'no clock / pid / temp-dir / PRNG reachable from the output writers'), ('R4', 'written data does not derive from environment reads')):
        rep.rule(r, d)
    rep.not_decided = ['determinism of user callbacks', 'toml\'s formatter being a pure function of the value (trusted)',
                       'the order in which fs::read_dir lists a directory (every reader inserts into a keyed container)']
    from . import C20_helpers as H
    # ---- R1 --------------------------------------------------------------------------------------------
    closure = S.field_type_closure(prog, ROOTS)
    n = 0
    for t in closure:
        a = prog.adts[t]
        if not t.startswith(('libcnb_data::', 'libcnb::')):
            continue
        for v in a['variants']:
            for f in v['fields']:
                n += 1
                bad = HASHY.search(f['ty'])
                rep.check(not bad, 'R1', '%s.%s' % (t, f['name']), '%s:%s' % (a['file'], a['line']), '%s: %s' % (f['name'], f['ty'][:60]),
                          'output type %s has field %s: %s — its serialisation order differs between processes' % (t, f['name'], f['ty']))
    rep.floor('R1', 'fields', n)
    # R1 continued: what is actually handed to a serialiser (not only the four spec types)
    rows = H.serialised_types(prog, sl, lambda v: walk_own(prog, v))
    per_fn, roots2, user = {}, [], 0
    for sink, wf_, ty in rows:
        # the triage is about where the serialised text goes (fd 3), not about which function spells the call: a
        # private phase helper / closure that only the triaged function can reach is that function's code
        sfn = H.sink_owner(prog, sink.fn, SINK_TRIAGED) or sink.fn.path
        if sfn in SINK_TRIAGED:
            per_fn.setdefault(('triaged', sfn), [sink, []])
            continue
        if wf_ is None:
            user += 1       # the type is chosen by the caller of a public generic function: user data
            continue
        ent = per_fn.setdefault(('checked', wf_.path), [sink, []])
        if HASHY.search(ty) and ty[:200] not in ent[1]:
            ent[1].append(ty[:200])
        for m in H.ADT_PATH.findall(ty):
            if m in prog.adts and m not in roots2:
                roots2.append(m)
    for (kind, fp), (sink, bad) in sorted(per_fn.items()):
        if kind == 'triaged':
            rep.holds('R1', 'sink/' + fp, sink.where(), 'serialiser outside the property\'s subject: ' + SINK_TRIAGED[fp], nontrivial=False)
        else:
            rep.check(not bad, 'R1', 'sink/' + fp, sink.where(), 'no hash-ordered container is serialised directly',
                      'a hash-ordered container is handed to a serialiser (%s): the order of its entries in the written text differs between processes' % bad)
    # (a literal minimum: build plan, launch.toml, store.toml and the three writers of layer content metadata)
    n_checked = len([k for k in per_fn if k[0] == 'checked'])
    if n_checked < 5 or len(roots2) < 4:
        rep.unproven('R1', 'sinks', '-', 'only %d serialising functions with %d workspace types were found (>= 5 / >= 4 write the build plan, launch.toml, '
                     'store.toml and layer content metadata today): the types that reach the output files are not known' % (n_checked, len(roots2)))
    else:
        rep.holds('R1', 'sinks', '-', '%d serialising functions hand %d workspace types to a serialiser (%d generic sinks take user types)' % (n_checked, len(roots2), user))
    for t in S.field_type_closure(prog, roots2):
        if t in closure or not t.startswith(('libcnb_data::', 'libcnb::', 'libcnb_common::')):
            continue
        a = prog.adts[t]
        for v in a['variants']:
            for f in v['fields']:
                bad = HASHY.search(f['ty'])
                rep.check(not bad, 'R1', '%s.%s' % (t, f['name']), '%s:%s' % (a['file'], a['line']), '%s: %s' % (f['name'], f['ty'][:60]),
                          'serialised type %s has field %s: %s — its serialisation order differs between processes' % (t, f['name'], f['ty']))
    # ---- R2 --------------------------------------------------------------------------------------------
    # values are read with a slicer that also knows what a Vec grown in place holds (see C20_helpers.VecSlicer)
    sl = H.vec_slicer(prog)
    sites = {}
    site_arg = {}       # id(Call) -> index of the argument that is the hash container (implicit uses)
    ws_iters = H.workspace_hash_iterators(prog)
    for f in prog.fns.values():
        if f.crate not in ('libcnb', 'libcnb_data', 'libcnb_common') or f.derived:
            continue
        for c in f.calls:
            full = c.full or ''
            nm = c.name or ''
            hit = ITER_RX.search(full) or ITER_METHODS.search(nm) or \
                (nm.endswith('IntoIterator>::into_iter') and HASHY.search(nm)) or \
                (c.decl == 'std::iter::IntoIterator::into_iter' and c.args and HASHY.search(f.locals[(c.args[0].get('m') or c.args[0].get('c') or [0])[0]]['ty'] if isinstance(c.args[0], dict) and ('m' in c.args[0] or 'c' in c.args[0]) else ''))
            # a workspace function handing out a hash iterator (Env::iter, <&Env as IntoIterator>) is the same source
            hit = hit or (not c.indirect and bool(c.names() & ws_iters))
            if hit:
                sites.setdefault(f.path, []).append(c)
        # the container handed as a whole to code that can observe its order (extend, from_iter, chain, Debug, serialisers)
        for c, i in H.implicit_hash_uses(prog, f, sites.get(f.path, [])):
            sites.setdefault(f.path, []).append(c)
            site_arg[id(c)] = i
    from . import layer_roles
    ROLES = layer_roles.roles(prog, sl)
    alias = {ROLES['REPLACE_EXECD']: 'libcnb::layer::shared::replace_layer_exec_d_programs'} if ROLES.get('REPLACE_EXECD') else {}
    # a triage is stated for a public function and is about *which container* is iterated: it covers the private
    # bodies / phases the function was split into (nobody else can reach them — C20_helpers.sink_owner), with the
    # iterated container re-expressed in the public function's terms at the call sites (C20_helpers.lift_to)
    triaged_here = {p: 1 for p in prog.fns if alias.get(p, p) in TRIAGED}
    E = Effects(prog, sl)
    for fp, cs in sorted(sites.items()):
        rep.sites(len(cs))
        rep.analysed(prog.fns[fp])
        g = prog.fns[fp]
        ofp = fp if fp in triaged_here else (H.sink_owner(prog, g, triaged_here) if g.kind != 'Closure' else None)
        tfp = alias.get(ofp, ofp) if ofp else fp
        reason = TRIAGED.get(tfp)
        if reason:
            what, pred = TRIAGED_SOURCE[tfp]
            top = prog.fns[ofp]
            srcs, lost = [], []
            for c in cs:
                for v in iteration_sources(sl, g, c, site_arg.get(id(c), 0)):
                    lv = H.lift_to(prog, sl, g, v, ofp)
                    if lv is None:
                        lost.append(vstr(v)[:60])
                    else:
                        srcs.extend(x for y in lv for x in iteration_sources_v(y))
            bad = [vstr(v)[:60] for v in srcs if not pred(top, v)]
            if lost and not bad:
                rep.unproven('R2', fp, cs[0].where(), 'a private part of the triaged function %s iterates a hash container (%s) that could not be '
                             're-expressed in that function\'s terms: whether it is %s is not decided' % (ofp, lost[:3], what))
                continue
            rep.check(not bad, 'R2', fp if not bad else fp + '/new-iteration', cs[0].where(), 'hash iteration over %s only — triaged%s: %s' % (what, '' if ofp == fp else ' for ' + ofp, reason),
                      'a triaged function iterates a further hash container (%s; triaged: %s): re-triage whether its order can reach output bytes' % (bad, what))
        else:
            # not triaged by name: an iteration whose order cannot be observed afterwards needs no triage — a complete loop
            # that only inserts each entry under its own key into a keyed container (C20_helpers.order_free_transfer)
            ok, why = H.order_free_transfer(prog, sl, E, g, [c for c in cs if id(c) not in site_arg], [c for c in cs if id(c) in site_arg])
            if ok:
                rep.holds('R2', fp, cs[0].where(), 'hash iteration is a keyed transfer: a complete loop that only inserts every entry under its own key into a keyed '
                          'container — the result is the same for every iteration order')
                continue
            rep.violated('R2', fp, cs[0].where(), 'untriaged iteration over a hash-ordered container (%s): if its order can reach the bytes of an output file, '
                         'two runs on identical inputs differ (not an order-free keyed transfer: %s)'
                         % (sorted({(c.name or '?') + (' <- the container as argument %d' % site_arg[id(c)] if id(c) in site_arg else '') for c in cs}), why))
    for fp in TRIAGED:
        if fp not in sites and fp in prog.fns:
            rep.holds('R2', 'stale-triage/' + fp, '-', 'triaged site no longer iterates a hash container', nontrivial=False)
    # the two triaged writers really write one file per key (path contains the key, data the value).  Stated on the
    # writers' *effects* with a slicer that knows what an in-place grown Vec holds (C20_helpers.VecSlicer): a table of
    # (dir, delta) pairs extended by the process scopes and then looped over is the same sequence of writes
    from . import layer_env_common as L
    wf, wt, wcalls = L.writer_scope_table(prog, sl)
    # the same obligation on which *data* a write ranges over (the delta of one element of self.process, however it
    # reaches the write: `.entries` read in place, or the delta handed to a private helper that plans the files first):
    # every such write goes to env.launch/<key of the same element>, and there is at least one
    ppred = TRIAGED_SOURCE['libcnb::layer_env::LayerEnv::write_to_layer_dir'][1]
    prows = H.process_scope_rows(prog, E, wf, lambda v: ppred(wf, v), L.param_pred(wf, 1))
    pbad = ['%s at %s: %s' % (e.kind, e.where(), why) for e, dirs, why in prows if dirs != ('env.launch', '<key>')]
    by_table = wt.get('process[*]') == ('env.launch', '<key>')
    by_data = bool(prows) and not pbad
    # (a scope the table finds in two places / in a non-literal directory is `None` there: that is a finding of its own)
    table_contradicts = 'process[*]' in wt and not by_table
    rep.check((by_table or by_data) and not pbad and not table_contradicts, 'R2', 'triage-basis/process-scopes', '%s:%d' % (wf.file, wf.line),
              'each process scope goes to its own directory named by the key',
              'process scopes are no longer written one directory per key' + (' (%s)' % '; '.join(pbad[:3]) if pbad else ''))
    rx = prog.fn(ROLES['REPLACE_EXECD'] or 'libcnb::layer::shared::replace_layer_exec_d_programs')
    xpred = TRIAGED_SOURCE['libcnb::layer::shared::replace_layer_exec_d_programs'][1]
    xrows = H.exec_d_rows(prog, E, rx, lambda v: xpred(rx, v))
    xbad = ['%s at %s: %s' % (e.kind, e.where(), why) for e, good, why in xrows if not good]
    rep.check(bool(xrows) and not xbad, 'R2', 'triage-basis/exec-d', '%s:%d' % (rx.file, rx.line), 'each exec.d program goes to its own file exec.d/<key>',
              'exec.d programs are no longer written one file per key (%s)' % ('; '.join(xbad[:3]) if xbad else 'no file write effect'))
    # the triage argument ("order only affects the sequence of independent files") holds only if every effect of the
    # triaged writers uses the hash container element by element: a value computed from the container as a whole
    # (an index file listing the keys, a joined string) would carry the iteration order into output bytes
    for tfp, top in (('libcnb::layer_env::LayerEnv::write_to_layer_dir', wf), ('libcnb::layer::shared::replace_layer_exec_d_programs', rx)):
        what, pred = TRIAGED_SOURCE[tfp]
        whole = []
        for e in E.expand(top, 'may'):
            if e.kind not in MUTATING:
                continue
            for v in ((e.path,) if e.path is not None else ()) + tuple(e.args or ()):
                if _uses_whole(top, v, pred):
                    whole.append('%s at %s uses %s as a whole: %s' % (e.kind, e.where(), what, vstr(v)[:100]))
        # ... and only if every element is visited whenever the writer reports success: leaving the loop early on an
        # element-dependent condition makes the set of files written depend on the iteration order
        from .lib.guards import edge_dominates
        from .lib.paths import strip as _st
        partial = []
        scope = []
        for g in H.triage_scope(prog, top):
            # values of a closure are read in the terms of the function it is written in (upvars resolved)
            home = prog.fns.get(g.parent, g) if g.kind == 'Closure' else g

            def is_cont_g(v, home=home, top=top, pred=pred):
                if home.path == top.path:
                    return pred(top, v)
                lv = H.lift_to(prog, sl, home, v, top.path)
                return bool(lv) and all(pred(top, _st(x)) for x in lv)
            scope.append((g, is_cont_g))
        for g, is_cont_g in scope:
            for lp in E.loops(g):
                srcs = iteration_sources(sl, g, lp.next_call)
                if not any(is_cont_g(_st(v)) for v in srcs):
                    continue
                ex = getattr(lp, 'exhaust', None)
                early = [(b, t) for b in lp.body for t in g.succs(b) if t not in lp.body and (b, t) != ex]
                for st in E.sites(g):
                    if ex is None or st.bb in lp.body or any(st.bb == t or st.bb in g.reachable(t) for _, t in early):
                        partial.append('%s:%d' % (g.file, g.line))
        positional, undecided = H.hash_iteration_shape(prog, sl, E, top, lambda v, top=top, pred=pred: pred(top, v), scope=scope)
        rep.check(not partial and not positional, 'R2', 'triage-basis/complete/' + tfp.split('::')[-1], '%s:%d' % (top.file, top.line),
                  'every element of %s is visited on every success path' % what,
                  ('the loop over %s can be left early with success: which elements were handled depends on the iteration order' % what) if partial else
                  ('the iteration over %s is consumed by position — %s: which elements are handled depends on the iteration order' % (what, '; '.join(positional[:3]))))
        if undecided:
            rep.unproven('R2', 'triage-basis/shape/' + tfp.split('::')[-1], '%s:%d' % (top.file, top.line),
                         'an iterator over %s is consumed in a way not known to visit every element independently of the order: %s' % (what, '; '.join(undecided[:3])))
        rep.check(not whole, 'R2', 'triage-basis/element-wise/' + tfp.split('::')[-1], '%s:%d' % (top.file, top.line),
                  'every file effect uses %s element by element' % what, 'iteration order of %s can reach output bytes: %s' % (what, whole[:3]))
    # ---- R3 / R4 ---------------------------------------------------------------------------------------
    roots, fns = C12.scope(prog)
    bad = []
    for path, f in sorted(fns.items()):
        rep.analysed(f)
        for c in f.calls:
            if c.name in NONDET_NAMES or (c.name or '').startswith(('fastrand::', 'rand::', 'uuid::')):
                bad.append('%s in %s (%s)' % (c.name, path, c.where()))
            elif any(H.nondet_family(n_) for n_ in c.names()):
                bad.append('%s [%s] in %s (%s)' % (c.name, next(H.nondet_family(n_) for n_ in sorted(c.names()) if H.nondet_family(n_)), path, c.where()))
    rep.check(not bad, 'R3', 'writers', '-', 'no nondeterminism source in %d writer-reachable functions' % len(fns), 'nondeterminism sources reachable from output writers: %s' % bad)
    rep.floor('R3', 'writer_functions', len(fns))
    # the library code between the author's logic and the bytes (builders, conversions, trait impls in libcnb-data and
    # libcnb) is as much part of "the same logic on identical inputs" as the writers are
    lib = H.library_fns(prog, C12.OUT_OF_SUBJECT)
    lbad = []
    for path, f in sorted(lib.items()):
        if path in fns:
            continue
        for c in f.calls:
            fam = next((H.nondet_family(n_) for n_ in sorted(c.names()) if H.nondet_family(n_)), None)
            if c.name in NONDET_NAMES or fam:
                lbad.append('%s [%s] in %s (%s)' % (c.name, fam or 'listed', path, c.where()))
    rep.check(not lbad and len(lib) >= 200, 'R3', 'library', '-', 'no nondeterminism source in the %d functions of libcnb / libcnb-data / libcnb-common' % len(lib),
              'nondeterminism sources in library code whose results are handed to the writers: %s' % lbad[:4] if lbad else 'only %d library functions found' % len(lib))
    sched = ['%s in %s (%s)' % (c.name, path, c.where()) for path, f in sorted(lib.items()) for c in f.calls if any(H.SCHEDULE_RX.search(n_) for n_ in c.names())]
    if sched:
        rep.unproven('R3', 'schedule', '-', 'library code runs on several threads (%s): whether the scheduler can influence output bytes is not decided' % sched[:3])
    # a file is filled with data by `fs::write(p, data)` or — the same thing, std defines the former as the latter — by
    # `File::create(p)` + `write_all(data)` on that handle (lib/effects.py attaches that data as a second argument).  Other
    # shapes (several writes, a closure run on the creation result, write!/to_writer) are read by C20_helpers.created_file_data;
    # a handle that leaves the creating function is not decided.
    leaks = []
    blind = []
    nw = 0
    for r in roots:
        if r.path.endswith('libcnb_runtime'):
            continue
        for e in E.expand(r, 'may'):
            if e.kind != 'WRITE' or e.call is None:
                continue
            if e.call.is_('std::fs::File::create', 'std::fs::File::create_new') and len(e.args) < 2:
                # not the one-handle-one-write_all shape: everything that is handed to a call together with the handle
                data, why = H.created_file_data(prog, E, e)
                if why:
                    blind.append('%s: %s at %s (%s)' % (r.path.split('::')[-1], e.call.name, e.where(), why))
                    continue
            elif e.call.is_('std::fs::write', 'std::fs::File::create', 'std::fs::File::create_new') and len(e.args) >= 2:
                data = [e.args[1]]
            else:
                continue
            nw += 1
            for x in (x for d in data for x in walk_own_deep(prog, sl, d)):
                if x[0] == 'call' and x[1] in ENV_NAMES:
                    leaks.append('%s written at %s derives from %s' % (r.path.split('::')[-1], e.where(), x[1]))
    rep.check(not leaks, 'R4', 'written-data', '-', '%d write effects, none of whose data derives from an environment read' % nw, 'environment leaks into written data: %s' % sorted(set(leaks))[:4])
    if blind:
        rep.unproven('R4', 'written-data/unknown', '-', 'files are created whose written data is not a single known value (%s): whether it derives from '
                     'an environment read is not decided' % '; '.join(sorted(set(blind))[:3]))
    rep.floor('R4', 'write_effects', nw)
