"""C19 — child output streamed fully without deadlock; writers chunking-independent.

Decided structurally, on interprocedural effects (arguments substituted into the terms of the PUBLIC entry
CommandExt::spawn_and_write_streams: the spawned child, its two writer parameters — whichever private function does the
copying and whatever its signature is), value normal forms and success dependencies — not on one spelling of the code:
  R1 spawn-before-join  inside the scoped-thread closure every call through which a ScopedJoinHandle::join effect is
                        reached is dominated by every call through which a Scope::spawn effect is reached (otherwise the
                        undrained pipe can fill up and the child blocks forever)
  R2 wait-after-drain   Child::wait is only called on a child that exists as a success payload only if the stream-copy
                        function returned Ok (it is that function's payload, or the spawned child handed on under that
                        condition); nothing reachable from the entry waits
  R3 copy completeness  each spawned thread's result is Ok only if io::copy(child stream, that stream's writer) to EOF was;
                        success of the scope closure depends on the joined result of both copiers (an error of either is
                        returned: `a.and(b)`, `a?; b?`, a loop over the handles with `?` or with a first-error accumulator
                        that is found empty — in the scope closure itself or in a private function the joining is
                        delegated to: a dependency that is such a function's result stands for what every success
                        alternative of its body depends on); the entry returns the spawned child, and only if the copier succeeded;
                        the panic payload of every joined thread (and of a scope that hands one out: crossbeam's; std's
                        scope re-raises by itself) is re-raised; both pipes are piped; the returned Output carries the
                        buffers tee'd with the caller's writers at the (one) call of the entry that output_and_write_streams
                        reaches — directly or through private functions, the buffers in locals or inside a private struct
  R4 tee                success of TeeWrite::write depends on write_all(buf) on both inner writers with the whole input
                        slice and yields Ok(buf.len()); flush flushes both (two statements or a loop over a table of both)
  R5 mapped writer      write appends every part of an in-order partition of the input (its bytes / its marker-terminated
                        segments; visited by a loop or by the closure of try_for_each / for_each / try_fold / fold on the
                        same iterator; or the parts cut off after each first marker by a cursor loop — position + split_at,
                        in write itself or in a private function that returns them with the marker-free rest, which is then
                        appended once, unconditionally, after the last part) to the buffer field and flushes exactly when
                        the part ends with the marker (parts that do by construction need no test); returns
                        Ok(buf.len()); the buffer is a field (state survives across write calls); everything written to
                        the inner writer is mapping_fn(take(buffer)); Drop and unwrap flush the remainder, unwrap takes
                        the inner writer afterwards (no double flush), and the remainder flush is guarded by a non-empty
                        buffer
Deepened (second pass; each is a necessary condition of a clause, stated on effects / guards / statement-level data flow):
  R1 eager-spawn        a spawn / join reached through the closure of a LAZY iterator adapter happens where the iterator is
                        consumed: the position used for spawn-before-join is the eager consumer (collect, fold, ..) of that
                        adapter; pulled by a `for` loop or a later lazy stage it is spawn, join, spawn, join
  R3 copier-reader      what io::copy reads is the child's pipe itself (BufReader / by_ref aside), not Read::take / chain / an
                        unknown adapter
  R4/R5 overrides       provided io::Write methods overridden by the impls are entry points of their own (io::copy calls
                        write_all): a TeeWrite::write_all override carries the obligations of write, anything else is UNPROVEN
  R5 entry-points       only write / Drop::drop / unwrap (not flush, not any other public function of the module) reach a
                        write on the inner writer
  R5 flush-guards/<fn>  at every level of the call chain the flush is gated by nothing but: the part ends with the marker
                        (write only), the buffer is non-empty, the inner writer is present
  R5 mapped-verbatim    statement-level: the value taken from the buffer reaches mapping_fn, and mapping_fn's result reaches
                        write_all, without being re-assigned, partially written or mutably borrowed on the way
  R5 buffer-frame       nothing in the module changes the buffer field except the append in write and the take in the flush
Generalised (round 5; every obligation above is kept, only how it is recognised changed):
  R2/R3 entries         output_and_write_streams may reach the copier through the public entry or by itself (own pipe
                        configuration / spawn helper / copier call): `piped` is stated on Command::stdout / stderr effects of
                        BOTH public functions (wherever the calls are spelled); output-buffers on what the copier threads
                        write to, in output_and_write_streams' terms (io::copy(child.<stream>, tee(<buffer>, <its writer>)) and
                        Output.<stream> == that buffer); wait-after-copy also accepts a wait that is control-dependent on the
                        Ok of a copier call that was handed the spawned child (`copy(&mut child, ..)?; child.wait()`);
                        new: output-copier (the thread scope reached is the analysed one), output-after-copy
  R5 field paths        the pending bytes / the marker are found by type (the one Vec<u8> / u8 field of MappedWrite or of a
                        private struct stored in it) and named by their field path from `self`; the append may happen in a
                        private function the per-part statements call (append effect in write's terms, exactly once per call:
                        no condition and no loop inside the helper); the marker test may be a boolean helper (Cond.views) or
                        a test of the buffer's last byte right after the append; the taken bytes may come out of a private
                        function (`take() -> Vec`, `take_non_empty() -> Option<Vec>` built from literal Some / None or
                        `cond.then(|| take)`): Some exactly when the buffer is non-empty counts as the non-empty guard;
                        mapped-verbatim follows the value into such functions; buffer-frame scans every field of the path,
                        `&mut <carrier struct>` borrows may only go to functions of the module, which may not assign through /
                        hand on the borrow as a whole
  verdict quality       shapes that are not understood (a write to the inner writer whose bytes are not recognised, a remainder
                        flush behind a decision that is not understood) are UNPROVEN with what was not understood, not VIOLATED
Not decided: scheduling and timing, kernel pipe behaviour, that io::copy delivers bytes in order.
"""
from .lib.guards import conditions
from .lib.paths import strip
from .lib.value import vstr, walk, canon
from .lib.effects import Effects, guards_of
from .lib.discard import result_fates, verdict
from . import C19_helpers as H
from .lib import iters
import re

MW = 'libherokubuildpack::write::MappedWrite::<W>::'
SPAWN = {"crossbeam_utils::thread::Scope::<'env>::spawn", 'std::thread::scope::Scope::spawn', "std::thread::Scope::<'scope, 'env>::spawn"}
JOIN = {"crossbeam_utils::thread::ScopedJoinHandle::<'_, T>::join", "std::thread::ScopedJoinHandle::<'scope, T>::join"}
SCOPE = {'crossbeam_utils::thread::scope', 'std::thread::scope', 'std::thread::scoped::scope'}
STD_SCOPE = {'std::thread::scope', 'std::thread::scoped::scope'}
WAITS = ('std::process::Child::wait', 'std::process::Child::wait_with_output', 'std::process::Child::try_wait')
TAKES = ('std::option::Option::<T>::take', 'std::mem::take', 'std::mem::replace')
OPT_VIEWS = ('std::option::Option::<T>::as_mut', 'std::option::Option::<T>::as_ref', 'std::option::Option::<T>::as_deref_mut', 'std::option::Option::<T>::as_deref')
# std readers that deliver exactly the bytes of the reader they wrap, in order: name -> index of the wrapped reader
READ_WRAP = {'std::io::BufReader::<R>::new': 0, 'std::io::BufReader::<R>::with_capacity': 1, 'std::io::Read::by_ref': 0}
CAPACITY_ONLY = ('reserve', 'reserve_exact', 'shrink_to_fit', 'shrink_to', 'try_reserve', 'try_reserve_exact')
WRITE_VOCAB = {'std::io::Write::write_all': ('WRITE_ALL', 0), 'std::io::Write::write': ('WRITE_SOME', 0), 'std::io::Write::write_vectored': ('WRITE_SOME', 0),
               'std::io::Write::write_all_vectored': ('WRITE_SOME', 0), 'std::io::Write::write_fmt': ('WRITE_SOME', 0)}


def has_field(v, name, base=None):
    """v mentions `<base>.name` (base: predicate on the stripped base value)"""
    return any(x[0] == 'field' and len(x) == 3 and x[2] == name and (base is None or base(strip(x[1]))) for x in walk(v))


def run(ctx, rep):
    prog, sl = ctx.prog, ctx.slicer
    for r, d in (('R1', 'both copier threads are spawned before either is joined'), ('R2', 'the child is waited for only after its streams were drained'),
                 ('R3', 'copy to EOF, joined results, first error wins, panics re-raised'), ('R4', 'tee writes the whole slice to both targets'),
                 ('R5', 'marker-splitting writer: push every byte, flush on marker, remainder on drop/unwrap if non-empty')):
        rep.rule(r, d)
    rep.not_decided = ['scheduling / timing, kernel pipe behaviour', 'chunking independence as a value-level statement', 'io::copy ordering (std)']
    w = lambda f: '%s:%d' % (f.file, f.line)
    nf = lambda v, keep=(): H.nf(sl, v, keep)
    # the public entry: every value below is expressed in ITS terms (the spawned child, its stdout / stderr writer parameters),
    # whichever private function the copying is delegated to and whatever that function's signature is
    sp = prog.find_one(r'^<std::process::Command as libherokubuildpack::command::CommandExt>::spawn_and_write_streams$')
    rep.analysed(sp)
    is_child = lambda x: x[0] == 'call' and x[1] == 'std::process::Command::spawn'      # (payload of) Command::spawn(..)
    is_writer = lambda x, idx: x[0] == 'param' and x[1] == sp.path and x[2] == idx

    # ---- the scoped-thread closure: the closure handed to thread::scope (wherever that call is spelled) ----------------
    Es = Effects(prog, sl, vocab={n: ('TSCOPE', 0) for n in SCOPE})
    scopes = [e for e in Es.expand(sp, 'may') if e.kind == 'TSCOPE']
    sc = None
    if len(scopes) == 1:
        clv = strip(scopes[0].args[0]) if scopes[0].args else ('unknown',)
        sc = prog.fns.get(clv[1]) if clv[0] == 'closure' else None
    if sc is None:
        rep.unproven('R1', 'scope-closure', w(sp), 'scoped-thread closure not found')
        return
    scope_call = scopes[0].call
    rep.analysed(sc)
    # the (private) stream copier: the function that opens the thread scope
    wc = scope_call.fn
    while wc.kind == 'Closure' and prog.fns.get(wc.parent) is not None:
        wc = prog.fns[wc.parent]
    rep.analysed(wc)
    M = dict(scopes[0].mapping or {})
    to_sp = lambda v: Es.subst(v, M)        # a value in the copier's terms, in the terms of the public entry
    is_copier_call = lambda v: v[0] == 'call' and (v[1] == wc.path or v[1] in SCOPE)
    thru = lambda name: name != wc.path

    # ---- R1 ------------------------------------------------------------------------------------------------------------
    voc = {n: ('TSPAWN', 1) for n in SPAWN}
    voc.update({n: ('TJOIN', 0) for n in JOIN})
    voc.update({n: ('WAIT', 0) for n in WAITS})
    voc['std::panic::resume_unwind'] = ('REPANIC', 0)
    Et = Effects(prog, sl, vocab=voc)
    teffs = Et.expand(sp, 'may')
    spawns = [e for e in teffs if e.kind == 'TSPAWN' and H.top_call(e, sc) is not None]
    joins = [e for e in teffs if e.kind == 'TJOIN' and H.top_call(e, sc) is not None]
    stray = [e for e in teffs if e.kind in ('TSPAWN', 'TJOIN') and H.top_call(e, sc) is None]
    rep.check(len(spawns) == 2 and len(joins) == 2 and not stray, 'R1', 'sites', w(sc), '2 spawn and 2 join effects inside the scope closure',
              '%d spawn / %d join effects inside the scope closure, %d outside' % (len(spawns), len(joins), len(stray)))
    # a spawn / join reached through the closure of a LAZY iterator adapter (`.map(|s| scope.spawn(..))`) does not happen
    # where the adapter is called but where the iterator is consumed: an eager consumer of that adapter's result
    # (collect, fold, for_each, ..) in the same function is the position; pulled by a `for` loop or by a later lazy stage,
    # every element is spawned only when the loop gets to it (spawn, join, spawn, join)
    LAZY = set(iters.LAZY_WITH_CLOSURE) | H.LAZY_MORE
    EAGER = set(iters.CONSUME_ALL) | set(iters.CONSUME_EACH) | set(iters.COLLECTING)

    def position(e):
        """block of the scope closure in which effect e happens, None when that cannot be told"""
        calls = [l.call for l in e.chain] + [e.call]
        pos = H.top_call(e, sc).bb
        for a in calls:
            if not a.names() & LAZY:
                continue
            g = a.fn
            ks = [k for k in g.calls if k.args and k.names() & EAGER
                  and any(x[0] == 'call' and len(x) == 4 and x[3] == (g.path, a.bb) for x in walk(sl.operand(g, k.args[0])))]
            if len(ks) != 1:
                return None
            if g is sc:
                pos = ks[0].bb
        return pos
    lazy = [e for e in spawns + joins if position(e) is None]
    rep.check(not lazy, 'R1', 'eager-spawn', w(sc), 'no copier is spawned or joined from inside a lazy iterator stage that is pulled later',
              '%s: when each copier starts depends on where the iterator is consumed — pulled one element at a time, the second copier is only '
              'spawned after the first was joined' % ', '.join(sorted({'%s reached through a lazy iterator adapter (%s)' % (e.kind[1:].lower(), H.top_call(e, sc).where()) for e in lazy})))
    for i, j in enumerate(joins):
        jb = position(j)
        ok = jb is not None and all(position(s) is not None and sc.dominates(position(s), jb) and position(s) != jb for s in spawns)
        rep.check(ok, 'R1', 'join#%d' % i, H.top_call(j, sc).where(), 'join happens after both spawns on every path',
                  'a copier thread is joined before the other stream\'s copier is spawned: a child filling the other pipe deadlocks')

    def pipe_itself(v, fld):
        """v is the payload of the spawned child's `fld` pipe (taken out of the Child or borrowed from it), possibly inside
        std wrappers that hand on every byte in order"""
        v = strip(v)
        while v[0] == 'call' and v[1] in READ_WRAP and len(v[2]) > READ_WRAP[v[1]]:
            v = strip(v[2][READ_WRAP[v[1]]])
        while v[0] == 'call' and v[2] and v[1] in TAKES + OPT_VIEWS:
            v = strip(v[2][0])
        return v[0] == 'field' and len(v) == 3 and v[2] == fld and is_child(strip(v[1]))

    # ---- R3: what every spawned thread computes (closure value with its captures in the terms of wc) ---------------------
    Ec = Effects(prog, sl, vocab={'std::io::copy': ('COPY', 0)})
    copies = [e for e in Ec.expand(sp, 'may') if e.kind == 'COPY']
    def thread_streams(spawn_effs):
        """fld -> (reader, writer, canonical closure value, thread result, spawn effect) for the copier threads spawned by
        the given Scope::spawn effects, in the terms of the function those effects were expanded from"""
        out = {}
        for s in spawn_effs:
            clv = nf(s.args[1]) if len(s.args) > 1 else ('unknown',)
            res = sl.apply_closure(strip(clv), (('unknown', 'scope'),)) if strip(clv)[0] in ('closure', 'fnitem') else None
            res = nf(res) if res is not None else ('unknown', 'thread body')
            cp = [x for x in walk(res) if x[0] == 'call' and x[1] == 'std::io::copy' and len(x[2]) == 2]
            fld = None
            if len(cp) == 1:
                fld = next((f for f in ('stdout', 'stderr') if has_field(cp[0][2][0], f, is_child)), None)
            if fld is not None and fld not in out:
                out[fld] = (cp[0][2][0], cp[0][2][1], canon(strip(clv)), res, s)
            else:
                out[None] = None
        return out
    streams = thread_streams(spawns)
    rep.extra['copiers'] = {k: [vstr(v[0]), vstr(v[1])] for k, v in streams.items() if k}
    if set(streams) == {'stdout', 'stderr'} and len(copies) == 2:
        for fld, idx in (('stdout', 1), ('stderr', 2)):
            rv, wv, _, res, s = streams[fld]
            good_w = any(is_writer(x, idx) for x in walk(wv)) and not any(is_writer(x, 3 - idx) for x in walk(wv))
            rep.check(good_w, 'R3', 'copier/' + fld, s.where(), 'io::copy(child.%s, %s writer)' % (fld, fld), 'the %s copier copies %s into %s' % (fld, vstr(rv)[:60], vstr(wv)[:60]))
            # what is copied is the pipe itself — not a truncated / extended / filtered view of it
            direct = pipe_itself(rv, fld)
            if direct:
                rep.holds('R3', 'copier-reader/' + fld, s.where(), 'the reader handed to io::copy is the child\'s %s pipe itself (buffering wrappers aside)' % fld)
            elif any(x[0] == 'call' and x[1] in ('std::io::Read::take', 'std::io::Read::chain') for x in walk(rv)):
                rep.violated('R3', 'copier-reader/' + fld, s.where(), 'the %s copier reads a limited / extended view of the pipe (%s): bytes beyond the limit never reach the writer' % (fld, vstr(rv)[:80]))
            else:
                rep.unproven('R3', 'copier-reader/' + fld, s.where(), 'the %s copier reads through an adapter that is not known to hand on every byte: %s' % (fld, vstr(rv)[:80]))
            # the thread's result is Ok only if the copy was, whatever becomes of the byte count
            ralts = H.value_alts(sl, res)
            is_copy = lambda x: x[0] == 'call' and x[1] == 'std::io::copy'
            rep.check(bool(ralts) and all(any(is_copy(strip(nf(d))) for d in ds) for _, ds in ralts), 'R3', 'copier-result/' + fld, s.where(), 'the copy result is the thread result', 'the copy result is not returned from the thread')
    else:
        rep.violated('R3', 'copiers', w(sc), 'copier threads for %s, %d io::copy effects (expected one each for stdout and stderr)' % (sorted(k for k in streams if k), len(copies)))

    def joined_streams(v):
        """streams whose joined copy result value v is: every alternative of v is either the literal Ok(..) standing for a
        pipe that does not exist, or payload(join(<handle>)) — the io::Result the copier thread returned — where the handle
        is what Scope::spawn returned for that stream's closure"""
        out = set()
        n = nf(to_sp(v))
        for a in (n[1] if n[0] == 'phi' else (n,)):
            if a[0] == 'agg' and a[1] == 'std::result::Result' and a[2] == 'Ok':
                continue
            if not (a[0] == 'unwrap' and a[1][0] == 'call' and a[1][1] in JOIN and a[1][2]):
                return set()
            h = strip(nf(a[1][2][0]))
            if not (h[0] == 'call' and h[1] in SPAWN and len(h[2]) > 1):
                return set()
            cv = canon(strip(nf(h[2][1])))
            out.update(f for f, sv in streams.items() if f and sv[2] == cv)
        return out

    # success of the scope closure depends on both joined copy results; the copier returns the scope's result; the entry
    # hands back the spawned child, and only if the copier succeeded (the child may be carried through the copier or kept by
    # the caller)
    # optional: a stream without a pipe has no copier to join; thru: a private function the joining / combining is delegated
    # to (`handles.join()`) succeeds the ways its body does, its parameters bound to the arguments
    alts = H.fn_alts(sl, sl, sc, optional=True, thru=lambda name: True)
    ok = bool(alts)
    detail = []
    def needed_streams(dv, depth=0):
        """streams whose joined copy result must have been Ok for value dv to be Ok: dv is such a result itself, or a
        combination of them (`a.and(b)`, the result of a private function that `?`s them, ..): what every one of its
        success alternatives depends on"""
        got = joined_streams(dv)
        if got or depth > 4:
            return got
        xalts = H.value_alts(sl, dv, thru=lambda name: True)
        if not xalts or any(canon(d) == canon(dv) for _, ds in xalts for d in ds):
            return set()
        per = []
        for _, ds in xalts:
            g = set()
            for d in ds:
                g |= needed_streams(d, depth + 1)
            per.append(g)
        return set.intersection(*per)

    for payload, deps in alts:
        got = set()
        for dv in deps:
            got |= needed_streams(dv)
        detail.append('Ok(%s) needs %s' % (vstr(payload)[:30], sorted(got)))
        ok = ok and got >= {'stdout', 'stderr'}
    ok = ok and any(x[0] == 'call' and x[1] in SCOPE for x in walk(nf(sl.local(wc, 0))))
    keepw = (wc.path,)
    ealts = H.fn_alts(sl, sl, sp, thru=thru) if wc is not sp else [(to_sp(p), [scopes[0].args[0]]) for p, _ in alts]
    ok = ok and bool(ealts)
    for payload, deps in ealts:
        pv = strip(nf(payload, keep=keepw))
        if is_copier_call(pv):      # the copier's own payload: the child travels through the scope closure
            good = all(any(is_child(strip(x)) for x in walk(nf(to_sp(p)))) for p, _ in alts)
        else:
            good = is_child(pv) and any(is_copier_call(strip(nf(d, keep=keepw))) for d in deps)
        if not good:
            detail.append('entry: Ok(%s)' % vstr(pv)[:40])
        ok = ok and good
    rep.check(ok, 'R3', 'combine', w(sc), 'Ok(child) only if the joined stdout and stderr copy results are both Ok: an error of either copier is returned',
              'copier results are not combined with and(): success does not depend on both joined copy results (%s)' % '; '.join(detail)[:160])

    # the panic payload of every joined thread, and of the scope itself, is resumed
    repanics = [strip(e.path) for e in teffs if e.kind == 'REPANIC' and e.path is not None]
    repanics = [strip(p[1]) for p in repanics if p[0] == 'unwrap_err']

    def reraised(call, args):
        if call.names() & STD_SCOPE:
            return True     # std::thread::scope re-raises a panic of its closure, and panics itself for a panicked thread nobody joined
        if not (call.dty or '').startswith('std::result::Result<'):
            return True     # no panic payload is handed out
        return any(p[0] == 'call' and len(p) == 4 and p[3] == (call.fn.path, call.bb) and (args is None or canon(p[2]) == canon(tuple(args))) for p in repanics)
    ok = len(joins) > 0 and all(reraised(j.call, j.args) for j in joins) and reraised(scope_call, None)
    rep.check(ok, 'R3', 'panic-reraised', w(wc), 'a panicked copier thread re-raises in the caller', 'copier panics are swallowed')

    ow = prog.find_one(r'^<std::process::Command as libherokubuildpack::command::CommandExt>::output_and_write_streams$')
    rep.analysed(ow)
    # both pipes are requested on every public way to the copier: by the entry itself, by a private function it configures /
    # spawns the command in, and — when output_and_write_streams does not go through the entry — on its own way as well
    Ep = Effects(prog, sl, vocab={'std::process::Command::stdout': ('PIPE', 1), 'std::process::Command::stderr': ('PIPE', 1)})

    def piped_from(entry):
        return sorted({e.call.name.split('::')[-1] for e in Ep.expand(entry, 'may') if e.kind == 'PIPE' and len(e.args) > 1
                       and strip(nf(e.args[1]))[0] == 'call' and strip(nf(e.args[1]))[1] == 'std::process::Stdio::piped'})
    piped = {g.path.split('::')[-1]: piped_from(g) for g in (sp, ow)}
    rep.check(all(v == ['stderr', 'stdout'] for v in piped.values()), 'R3', 'piped', w(sp), 'both streams are piped', 'piped streams: %s' % piped[sp.path.split('::')[-1]])
    # the returned Output carries the buffers that were tee'd with the caller's writers, stream by stream
    # the call of spawn_and_write_streams — made by output_and_write_streams itself or by a private function it delegates to —
    # with its arguments in the terms of output_and_write_streams, helpers and private structs / tuples the buffers travel in
    # made transparent by the normal form
    SW = '<std::process::Command as libherokubuildpack::command::CommandExt>::spawn_and_write_streams'
    Eo = Effects(prog, sl, vocab={SW: ('STREAMS', 0)})
    spc = [e for e in Eo.expand(ow, 'may') if e.kind == 'STREAMS']
    ok = len(spc) == 1 and len(spc[0].args) >= 3

    def tee_parts(v, norm):
        """(capture buffer, user writer) of a tee writer value: `tee(a, b)` / `TeeWrite { inner_a: a, inner_b: b }`"""
        v = strip(norm(v))
        if v[0] == 'call' and v[1] == 'libherokubuildpack::write::tee' and len(v[2]) == 2:
            return strip(norm(v[2][0])), strip(norm(v[2][1]))
        if v[0] == 'agg' and v[1] == 'libherokubuildpack::write::TeeWrite':
            fl = dict(v[3])
            if 'inner_a' in fl and 'inner_b' in fl:
                return strip(fl['inner_a']), strip(fl['inner_b'])
        return None

    def contents(v):
        """the Vec a field of the returned Output is: the buffer itself or what was taken out of it"""
        v = strip(v)
        while v[0] == 'call' and v[1] == 'std::mem::take' and len(v[2]) == 1:
            v = strip(v[2][0])
        return v

    def carries_buffers(norm):
        """at one level of normalisation (values as written / private helpers, structs and tuples made transparent): the two
        tee writers handed to the entry pair two DISTINCT buffers (call-site identities included) with the caller's stdout /
        stderr writer, and the success payload is an Output whose stdout / stderr are those buffers"""
        tees = [tee_parts(a, norm) for a in spc[0].args[1:3]]
        if any(t is None for t in tees):
            return False
        bufs = [t[0] for t in tees]
        users = [t[1] for t in tees]
        if [u[2] for u in users if u[0] == 'param' and u[1] == ow.path] != [1, 2] or bufs[0] == bufs[1]:
            return False
        # a buffer is a value of its own, not (part of) one of the caller's writers
        if any(b[0] != 'call' or any(x[0] == 'param' and x[1] == ow.path and x[2] in (1, 2) for x in walk(b)) for b in bufs):
            return False
        # success payload of the function: the same aggregate for `.map(|status| Output {..})`, `Ok(Output {..})` and a
        # private constructor function
        ov = strip(norm(sl.mk_unwrap(sl.local(ow, 0), 1)))
        if not (ov[0] == 'agg' and (ov[1] or '').endswith('process::Output')):
            return False
        fl = dict(ov[3])
        return contents(fl.get('stdout', ('unknown',))) == bufs[0] and contents(fl.get('stderr', ('unknown',))) == bufs[1]
    # (as written: two calls of one private constructor are two values; normalised: fields of private structs are visible)
    ok = ok and (carries_buffers(lambda v: v) or carries_buffers(nf))
    # the same, stated on what the copier threads write to — whichever way output_and_write_streams gets to the copier
    # (through the public entry, or configuring / spawning / copying by itself): in ITS terms, the writer io::copy drains
    # child.stdout / child.stderr into is a tee of a buffer and the caller's writer for that stream, and the Output it
    # returns carries those two (distinct) buffers
    if not ok:
        ow_spawns = [e for e in Et.expand(ow, 'may') if e.kind == 'TSPAWN']
        ow_streams = thread_streams(ow_spawns) if len(ow_spawns) == 2 else {}
        if set(ow_streams) == {'stdout', 'stderr'}:
            tees = [tee_parts(ow_streams[f][1], nf) for f in ('stdout', 'stderr')]
            ov = strip(nf(sl.mk_unwrap(sl.local(ow, 0), 1)))
            if all(t is not None for t in tees) and ov[0] == 'agg' and (ov[1] or '').endswith('process::Output'):
                bufs, users, fl = [t[0] for t in tees], [t[1] for t in tees], dict(ov[3])
                ok = [u[2] for u in users if u[0] == 'param' and u[1] == ow.path] == [1, 2] and bufs[0] != bufs[1] \
                    and not any(b[0] != 'call' or any(x[0] == 'param' and x[1] == ow.path and x[2] in (1, 2) for x in walk(b)) for b in bufs) \
                    and contents(fl.get('stdout', ('unknown',))) == bufs[0] and contents(fl.get('stderr', ('unknown',))) == bufs[1]
    # .. through the very thread scope the obligations R1 / R3 were established for (a second copier of its own is not analysed)
    ow_scopes = [e for e in Es.expand(ow, 'may') if e.kind == 'TSCOPE']
    if len(ow_scopes) == 1 and ow_scopes[0].call is scope_call:
        rep.holds('R3', 'output-copier', w(ow), 'output_and_write_streams drains the child through the same scoped copier as spawn_and_write_streams')
    else:
        rep.unproven('R3', 'output-copier', w(ow), 'output_and_write_streams reaches %d thread scope(s) other than the one analysed for spawn_and_write_streams: their spawn / join / copy '
                     'obligations are not established' % len([e for e in ow_scopes if e.call is not scope_call]))
    # .. and it only returns an Output if the streams were copied: every way it can succeed depends on the entry / the copier
    oalts = H.fn_alts(sl, sl, ow, thru=lambda name: name not in (wc.path, SW))
    after = bool(oalts) and all(any((lambda g: g[0] == 'call' and (g[1] == SW or is_copier_call(g)))(strip(nf(H._try_subject(strip(d)), keep=(wc.path, SW)))) for d in ds) for _, ds in oalts)
    if after:
        rep.holds('R3', 'output-after-copy', w(ow), 'an Output is only returned if the stream copy succeeded')
    else:
        rep.unproven('R3', 'output-after-copy', w(ow), 'that output_and_write_streams only succeeds if the stream copy did could not be established')
    rep.check(ok, 'R3', 'output-buffers', w(ow), 'Output.stdout / .stderr are the buffers tee\'d with the stdout / stderr writers', 'the returned Output does not carry the per-stream tee buffers')

    # ---- R2 --------------------------------------------------------------------------------------------
    waits = [(f, c) for f in prog.fns.values() if f.crate == 'libherokubuildpack' and f.path.startswith(('libherokubuildpack::command', '<std::process::Command as libherokubuildpack::command'))
             for c in f.calls if c.is_(*WAITS)]
    rep.check(len(waits) == 1, 'R2', 'wait-sites', w(wc), 'one Child::wait call site in the command module', '%d wait call sites' % len(waits))
    for f, c in waits:
        top = f
        while top.kind == 'Closure' and prog.fns.get(top.parent) is not None:
            top = prog.fns[top.parent]
        rep.analysed(top)
        we = [e for e in Et.expand(top, 'may') if e.kind == 'WAIT' and e.call is c]
        # the waited-for child only exists (as a success payload) once the stream copier has returned Ok: every way the
        # receiver's source can succeed depends on the copier call, and its payload is the spawned child
        ok = bool(we)
        for e in we:
            a0 = e.args[0] if e.args else ('unknown',)
            xalts = H.value_alts(sl, a0[1], thru=thru) if a0[0] == 'unwrap' else []
            ok = ok and bool(xalts)
            # .. or the wait itself only runs once the copier call has returned Ok (`copy(&mut child, ..)?; child.wait()`):
            # the branch decisions around the wait, at every level of its call chain
            gated = [H._try_subject(strip(subj)) for cd, _, subj in guards_of(Et, e)
                     if cd.kind == 'variant' and cd.outcome and set(cd.outcome) <= H.OKISH and subj is not None]
            for p, ds in xalts:
                pv = strip(nf(p, keep=keepw))
                kept = any(is_copier_call(strip(nf(d, keep=keepw))) for d in ds) or \
                    any(is_copier_call(g) and any(is_child(strip(x)) for x in walk(g)) for g in (strip(nf(d, keep=keepw)) for d in gated))
                ok = ok and (is_copier_call(pv) or (is_child(pv) and kept))
        rep.check(ok, 'R2', 'wait-after-copy', c.where(), 'wait() runs on the child returned by the stream copier (after both streams hit EOF)',
                  'Child::wait is not sequenced after the stream copy')
    no_wait_inside = not any(e.kind == 'WAIT' for e in teffs)
    rep.check(no_wait_inside, 'R2', 'no-wait-in-copier', w(wc), 'the copier itself never waits for the child', 'the stream copier waits for the child before the streams are drained')

    # ---- R4 --------------------------------------------------------------------------------------------
    Ew = Effects(prog, sl, vocab={'std::io::Write::write_all': ('WRITE_ALL', 0), 'std::io::Write::write': ('WRITE_SOME', 0), 'std::io::Write::flush': ('FLUSH', 0)})
    tw = prog.find_one(r'^<libherokubuildpack::write::TeeWrite<A, B> as std::io::Write>::write$')
    rep.analysed(tw)
    self_of = lambda fn: (lambda x: x[0] == 'param' and x[1] == fn.path and x[2] == 0)

    def target_of(v, fn):
        v = strip(v)
        return v[2] if v[0] == 'field' and self_of(fn)(strip(v[1])) else None
    def is_len_of_buf(p, fn):
        p = strip(p)
        return p[0] == 'call' and p[1].endswith('::len') and len(p[2]) == 1 and H.is_param(p[2][0], fn, 1)

    def tee_checks(tw, sfx, want_len):
        """the obligations of a TeeWrite method that takes the input slice as parameter 1 (write; a write_all override)"""
        weffs = [e for e in H.unroll(Ew, Ew.expand(tw, 'may')) if e.kind in ('WRITE_ALL', 'WRITE_SOME')]
        wa = [e for e in weffs if e.kind == 'WRITE_ALL']
        targets = sorted(t for t in (target_of(e.args[0], tw) for e in wa) if t)
        whole = all(H.is_param(e.args[1], tw, 1) for e in wa)
        prop = all(verdict(result_fates(prog, e.call.fn, e.call)) == 'ok' for e in wa) and \
            all(verdict(result_fates(prog, l.call.fn, l.call)) == 'ok' for e in wa for l in e.chain if (l.call.dty or '').startswith('std::result::Result<'))
        partial = [e for e in weffs if e.kind == 'WRITE_SOME' and target_of(e.args[0], tw)]
        rep.check(targets == ['inner_a', 'inner_b'] and whole and prop and not partial, 'R4', 'write_all-both' + sfx, w(tw), 'write_all(buf) on both targets, errors propagated',
                  'tee write: targets=%s whole_slice=%s propagated=%s (write() instead of write_all() may write a prefix only)' % (targets, whole, prop))
        talts = H.fn_alts(sl, sl, tw)
        if want_len:
            ok = bool(talts) and all(is_len_of_buf(p, tw) for p, _ in talts)
            rep.check(ok, 'R4', 'returns-len' + sfx, w(tw), 'returns Ok(buf.len())', 'tee write does not report the whole slice as written')

        def needs_both(deps):
            got = set()
            for dv in deps:
                dv = strip(dv)
                if dv[0] == 'call' and dv[1] == 'std::io::Write::write_all' and len(dv[2]) == 2 and H.is_param(dv[2][1], tw, 1):
                    got.add(target_of(dv[2][0], tw))
            return got >= {'inner_a', 'inner_b'}
        rep.check(bool(talts) and all(needs_both(ds) for _, ds in talts) and len(wa) == 2, 'R4', 'both-before-ok' + sfx, w(tw), 'both writes precede the success return', 'a target can be skipped on a success path')
    tee_checks(tw, '', True)
    tf = prog.find_one(r'^<libherokubuildpack::write::TeeWrite<A, B> as std::io::Write>::flush$')
    rep.analysed(tf)
    fl = sorted(t for t in (target_of(e.args[0], tf) for e in H.unroll(Ew, Ew.expand(tf, 'may')) if e.kind == 'FLUSH') if t)
    rep.check(fl == ['inner_a', 'inner_b'], 'R4', 'flush-both', w(tf), 'flush flushes both targets', 'tee flush targets: %s' % fl)
    # provided methods of io::Write that the impl overrides are entry points of their own (io::copy calls write_all, not
    # write): a write_all override carries the obligations of write; anything else is not modelled
    OVR = re.compile(r'^<libherokubuildpack::write::(TeeWrite<A, B>|MappedWrite<W>) as std::io::Write>::(\w+)$')
    overrides = {}
    for f in prog.fns.values():
        m = OVR.match(f.path)
        if m and m.group(2) not in ('write', 'flush'):
            overrides.setdefault(m.group(1)[:3], []).append((m.group(2), f))
    unmodelled = []
    for name, f in sorted(overrides.get('Tee', [])):
        rep.analysed(f)
        if name == 'write_all' and f.argc == 2:
            tee_checks(f, '@write_all', False)
        else:
            unmodelled.append(name)
    if unmodelled:
        rep.unproven('R4', 'overrides', w(tw), 'TeeWrite overrides io::Write::%s: callers of that method bypass the analysed write()' % ', '.join(unmodelled))
    else:
        rep.holds('R4', 'overrides', w(tw), 'every input-carrying io::Write method of TeeWrite is write() or a checked write_all()')

    # ---- R5 --------------------------------------------------------------------------------------------
    mw = prog.find_one(r'^<libherokubuildpack::write::MappedWrite<W> as std::io::Write>::write$')
    rep.analysed(mw)
    dr = prog.fns.get('<libherokubuildpack::write::MappedWrite<W> as std::ops::Drop>::drop')
    un = prog.fn(MW + 'unwrap')
    rep.analysed(un)
    is_field = lambda v, fn, name: strip(v)[0] == 'field' and strip(v)[2] == name and self_of(fn)(strip(strip(v)[1]))
    # where the pending bytes and the marker live: a field of MappedWrite, or of a private struct (of the module) that is a
    # field of it — found by type, named by the path of field names from `self`
    adt = prog.adt('libherokubuildpack::write::MappedWrite')
    carriers = {}      # field path prefix -> path of the private struct stored there

    def field_paths(a, pred, pre=(), depth=0):
        out = []
        for x in (a['variants'][0]['fields'] if a and a.get('kind') == 'struct' and len(a['variants']) == 1 else ()):
            if pred(x['ty']):
                out.append(pre + (x['name'],))
            sub = None
            hd = x.get('head') or ''
            if depth < 3 and hd.startswith('libherokubuildpack::write::') and (x['ty'] == hd or x['ty'].startswith(hd + '<')):
                try:
                    sub = prog.adt(hd)
                except Exception:
                    sub = None
            if sub is not None and sub.get('vis') != 'pub':
                carriers[pre + (x['name'],)] = x['ty']
                out.extend(field_paths(sub, pred, pre + (x['name'],), depth + 1))
        return out
    bufs = field_paths(adt, lambda ty: ty.startswith('std::vec::Vec<u8'))
    marks = field_paths(adt, lambda ty: ty == 'u8')
    BUF = bufs[0] if len(bufs) == 1 else ('buffer',)
    MARK = marks[0] if len(marks) == 1 else ('marker_byte',)

    def is_path(v, fn, path):
        """v is `self.<path>` of fn"""
        v = strip(v)
        for name in reversed(path):
            if not (v[0] == 'field' and len(v) == 3 and v[2] == name):
                return False
            v = strip(v[1])
        return self_of(fn)(v)

    def inner_writes(fn):
        """effects that hand bytes to the inner writer, reached from fn"""
        return [e for e in Ew.expand(fn, 'may') if e.kind in ('WRITE_ALL', 'WRITE_SOME') and e.args and has_field(e.args[0], 'inner', self_of(fn))]

    def mapped_flush(e, fn):
        """inner.write_all(mapping_fn(take(buffer)))"""
        if e.kind != 'WRITE_ALL' or len(e.args) < 2:
            return False
        for norm in (lambda v: v, nf):      # as written / private functions that hand out the taken bytes made transparent
            dv = strip(norm(e.args[1]))
            while dv[0] == 'call' and len(dv[2]) == 1 and dv[1] in H.VIEW_CALLS:      # `&v`, `v.as_slice()`, `v.as_ref()`: the same bytes
                dv = strip(dv[2][0])
            if dv[0] == 'call' and dv[1] == 'std::ops::Fn::call' and has_field(dv[2][0], 'mapping_fn', self_of(fn)) and \
                    any(x[0] == 'call' and x[1] == 'std::mem::take' and x[2] and is_path(x[2][0], fn, BUF) for x in walk(dv)):
                return True
        return False
    iw = {f.path: inner_writes(f) for f in (mw, un) + ((dr,) if dr is not None else ())}
    flushes = {p: [e for e in es if mapped_flush(e, prog.fns[p])] for p, es in iw.items()}
    for es in iw.values():
        for e in es:
            rep.analysed(e.call.fn)

    is_marker = lambda v: is_path(v, mw, MARK)

    def nonempty_test(v, fn):
        """v is `buffer.is_empty()` on fn's own buffer field"""
        v = strip(v)
        return v[0] == 'call' and v[1].endswith('::is_empty') and len(v[2]) == 1 and is_path(v[2][0], fn, BUF)

    def says_nonempty(v, oc, fn):
        """does "v evaluated to oc" say that fn's own buffer field is not empty: `!is_empty()`, `len() != 0`, `len() > 0`, `len() >= 1`"""
        v = strip(v)
        if nonempty_test(v, fn):
            return oc is False
        if v[0] == 'bin' and len(v) == 4 and isinstance(oc, bool):
            op, a, b = v[1], strip(v[2]), strip(v[3])
            is_len = lambda x: x[0] == 'call' and x[1].endswith('::len') and len(x[2]) == 1 and is_path(x[2][0], fn, BUF)
            k = lambda x, n: x[0] == 'const' and type(x[1]) is int and x[1] == n
            if is_len(a) and k(b, 0):
                return (op, oc) in (('Eq', False), ('Ne', True), ('Gt', True), ('Le', False))
            if is_len(b) and k(a, 0):
                return (op, oc) in (('Eq', False), ('Ne', True), ('Lt', True), ('Ge', False))
            if is_len(a) and k(b, 1):
                return (op, oc) in (('Ge', True), ('Lt', False))
            if is_len(b) and k(a, 1):
                return (op, oc) in (('Le', True), ('Gt', False))
        return False

    def taker_some_iff_nonempty(subj, g, exact):
        """subj is the call of a private function that hands out the pending bytes as an Option: every return of Some is
        dominated by a test that says g's buffer is not empty (exact: .. by nothing else, and every return of None by a test
        that says it is empty — the function yields Some exactly when there are pending bytes)"""
        sn = H.option_fn_guards(sl, subj) if subj is not None else None
        if sn is None or not sn[0]:
            return False
        nonempty = lambda views: any(says_nonempty(v, oc, g) for v, oc in views)
        empty = lambda views: any(isinstance(oc, bool) and says_nonempty(v, not oc, g) for v, oc in views)
        if not all(any(nonempty(vs) for vs in cds) for cds in sn[0]):
            return False
        return not exact or (all(all(nonempty(vs) for vs in cds) for cds in sn[0]) and all(any(empty(vs) for vs in cds) for cds in sn[1]))

    def tail_is_marker(v):
        """boolean value v says that the last byte of write's buffer field is the marker: `buffer.last() == Some(&marker)`,
        `buffer.ends_with(&[marker])` — right after the append of a byte this is the statement that this byte is the marker"""
        v = strip(v)
        if v[0] == 'call' and v[1] == 'std::cmp::PartialEq::eq' and len(v[2]) == 2:
            a, b = strip(v[2][0]), strip(v[2][1])
        elif v[0] == 'bin' and v[1] == 'Eq' and len(v) == 4:
            a, b = strip(v[2]), strip(v[3])
        elif v[0] == 'call' and 'slice::<impl [T]>::ends_with' in v[1] and len(v[2]) == 2:
            sfx = strip(v[2][1])
            return is_path(H.peel_views(v[2][0]), mw, BUF) and sfx[0] == 'array' and len(sfx[1]) == 1 and is_marker(sfx[1][0])
        else:
            return False
        for x, y in ((a, b), (b, a)):
            if x[0] == 'call' and x[1].endswith('slice::<impl [T]>::last') and len(x[2]) == 1 and is_path(H.peel_views(x[2][0]), mw, BUF) \
                    and y[0] == 'agg' and y[1] == 'std::option::Option' and y[2] == 'Some' and len(y[3]) == 1 and is_marker(y[3][0][1]):
                return True
        return False
    parts = H.partitions(sl, Ew, mw, 1, is_marker)
    # the per-part statements live in write itself (a loop) or in the closure handed to try_for_each & co. (captures are
    # expressed in write's terms either way)
    appends = [c for g in [mw] + prog.closures_of(mw) for c in g.calls if not c.indirect and c.args and is_path(sl.operand(g, c.args[0]), mw, BUF) and
               c.name.startswith('std::vec::Vec::<T, A>::') and c.name.rsplit('::', 1)[-1] in ('push', 'extend_from_slice', 'extend', 'append', 'insert', 'extend_from_within')]
    P = parts[0] if len(parts) == 1 else None
    body = P.body if P is not None else mw
    # .. or in a private function the per-part statements hand `&mut self` / `&mut self.<struct with the buffer>` to: the
    # append effect with its arguments in write's terms, positioned at the call through which it is reached; it happens
    # exactly once per such call when nothing inside the helper(s) gates or repeats it

    class ViaHelper:
        def __init__(self, e, tc):
            self.e, self.fn, self.bb, self.name, self.args = e, tc.fn, tc.bb, e.call.name, ()
            self.elem = e.args[1] if len(e.args) > 1 else ('unknown',)
            self.site = (e.call.fn.path, e.call.bb)
            below = [cd for cd, _, _ in guards_of(Ea, e) if cd.fn is not tc.fn and prog.fns.get(cd.fn.parent if cd.fn.kind == 'Closure' else '') is not tc.fn]
            self.once = not below and all(not c.fn.in_loop(c.bb) for c in [l.call for l in e.chain] + [e.call] if c.fn is not tc.fn) \
                and sum(1 for c in tc.fn.calls if c.bb == tc.bb) == 1
    APPENDS = ('push', 'extend_from_slice', 'extend', 'append', 'insert', 'extend_from_within')
    Ea = Effects(prog, sl, vocab={'std::vec::Vec::<T, A>::' + n: ('APPEND', 0) for n in APPENDS})
    direct_fns = [mw] + prog.closures_of(mw)
    helper_sites = set()
    for e in Ea.expand(mw, 'may'):
        if e.kind != 'APPEND' or not e.args or e.call.fn in direct_fns or not is_path(nf(e.args[0]), mw, BUF):
            continue
        tc = next((c for c in [l.call for l in e.chain] if c.fn in direct_fns), None)
        if tc is not None:
            vh = ViaHelper(e, tc)
            appends.append(vh)
            helper_sites.add(vh.site)
    elem_of = lambda a: a.elem if isinstance(a, ViaHelper) else sl.operand(body, a.args[1])
    site_of = lambda a: a.site if isinstance(a, ViaHelper) else (a.fn.path, a.bb)
    # a partition that hands out the marker-free rest as a value of its own (a cutting function's second result, the cursor
    # after a cutting loop) has two appends: every marker-terminated part where the parts are visited, and the rest — once,
    # unconditionally — after the last of them
    part_app = [c for c in appends if P is not None and P.in_body(c.fn, c.bb)]
    tail_app = [c for c in appends if c not in part_app]
    app = part_app[0] if len(part_app) == 1 else None
    ok = P is not None and app is not None and app.name in P.APPEND[P.kind]
    if ok and P.has_tail:
        ok = len(tail_app) == 1 and tail_app[0].name in P.APPEND[P.kind] and P.is_tail(tail_app[0].fn, tail_app[0], sl) and P.after_parts(tail_app[0].bb) \
            and not mw.in_loop(tail_app[0].bb) and all(P.is_exhaust_cond(cd) for cd in conditions(mw, tail_app[0].bb, sl))
    elif ok:
        ok = not tail_app
    if ok:
        ok = P.is_elem(elem_of(app)) and (not isinstance(app, ViaHelper) or app.once)
        # unconditional within the loop body
        cds = conditions(body, app.bb, sl)
        ok = ok and not [cd for cd in cds if cd.kind == 'bool'] and all(P.is_elem(cd.subject) or P.is_next_cond(cd) for cd in cds if cd.kind == 'variant' and cd.subject is not None)
        # closure form: the consumer itself runs unconditionally
        ok = ok and (P.call is None or not conditions(mw, P.call.bb, sl))
    # no in-order partition of the input recognised at all: what the loops of write visit would need a loop invariant of its own
    undecided = 'write visits its input in a way that is not a recognised in-order partition (bytes, split_inclusive segments, parts cut off by position + split_at): '
    if P is None:
        rep.unproven('R5', 'push-every-byte', w(mw), undecided + 'that every input byte is appended to the buffer field, in order, is not established')
    else:
        rep.check(ok, 'R5', 'push-every-byte', w(mw), 'every input byte is appended to the buffer field', 'not every input byte reaches the buffer')
    fcs = {}
    for e in flushes[mw.path]:
        tc = H.top_call(e, body)
        fcs[tc.bb if tc is not None else None] = e
    ok = P is not None and len(fcs) == 1 and None not in fcs
    if ok:
        fe = list(fcs.values())[0]
        fc = H.top_call(fe, body)
        ok = P.in_body(body, fc.bb)
        cds = [cd for cd in conditions(body, fc.bb, sl) if cd.kind == 'bool']
        # (byte by byte: a test of the buffer's last byte, made after that byte's append in the same iteration, is the same statement)
        after_app = lambda cd: P.kind == 'bytes' and app is not None and app.fn is body and cd.fn is body and cd.sw_bb != app.bb and body.dominates(app.bb, cd.sw_bb)
        marker_test = lambda cd, v, oc: oc is True and (P.ends_with_marker(v, is_marker) or (after_app(cd) and tail_is_marker(v)))
        test = [cd for cd in cds if any(marker_test(cd, v, oc) for v, oc in cd.views())]
        # besides the marker test only "the buffer is not empty" may guard the flush (always true after the append)
        rest = [cd for cd in cds if cd not in test and not any(says_nonempty(v, oc, mw) for v, oc in cd.views())]
        # parts that are marker-terminated by construction need no test (and the marker-free rest is not a part: a flush
        # after its append would be a second flush site)
        ok = ok and (len(test) == 1 or (P.terminated and not test)) and not rest
        ok = ok and app is not None and app.fn is body and body.dominates(app.bb, fc.bb) and app.bb != fc.bb
        ok = ok and all(verdict(result_fates(prog, c.fn, c)) == 'ok' for c in [l.call for l in fe.chain] + [fe.call])
    if P is None:
        rep.unproven('R5', 'flush-on-marker', w(mw), undecided + 'that the flush runs exactly after each part that ends with the marker is not established')
    else:
        rep.check(ok, 'R5', 'flush-on-marker', w(mw), 'flush exactly when the pushed byte == marker_byte (after the push), error propagated', 'segment flush condition is not `byte == marker`')
    malts = H.fn_alts(sl, sl, mw)
    ok = bool(malts) and all(is_len_of_buf(p, mw) for p, _ in malts)
    rep.check(ok, 'R5', 'returns-len', w(mw), 'returns Ok(buf.len())', 'mapped write does not consume the whole slice')
    rep.check(len(bufs) == 1, 'R5', 'buffer-field', '%s:%s' % (adt['file'], adt['line']), 'pending bytes live in a field (state survives across write calls)', 'no buffer field')
    # (an entry point that does write to the inner writer, but bytes that are not understood as mapping_fn(take(buffer)), is
    # not a definite breach of THIS clause: flush-shape reports the write)
    not_understood = lambda g: g is not None and bool(iw[g.path]) and not flushes[g.path]
    if not_understood(dr):
        rep.unproven('R5', 'drop-flushes', w(dr), 'Drop writes to the inner writer, but what it writes is not understood as the mapping of the taken buffer')
    else:
        rep.check(dr is not None and len(flushes[dr.path]) > 0, 'R5', 'drop-flushes', w(dr) if dr else '-', 'Drop flushes the remainder', 'the remainder is lost when the writer is dropped')
    f1 = sorted({H.top_call(e).bb for e in flushes[un.path]})
    tk = [c for c in un.calls if c.is_(*TAKES) and c.args and is_field(sl.operand(un, c.args[0]), un, 'inner')]
    ok = len(f1) == 1 and len(tk) == 1 and tk[0].bb in un.reachable(f1[0]) and f1[0] not in un.reachable(tk[0].bb)
    if not ok and not_understood(un):
        rep.unproven('R5', 'unwrap', w(un), 'unwrap writes to the inner writer, but what it writes is not understood as the mapping of the taken buffer')
    else:
        rep.check(ok, 'R5', 'unwrap', w(un), 'unwrap flushes the remainder, then takes the inner writer (the later Drop finds nothing to write to)', 'unwrap does not flush-then-take')
    every = [e for es in iw.values() for e in es]
    shaped = [e for es in flushes.values() for e in es]
    site = lambda e: (e.call.fn.path, e.call.bb)
    # every entry point reaches exactly one write to the inner writer, and that write has the mapped shape
    ok = len(every) == len(shaped) and all(len(es) <= 1 for es in flushes.values()) and len(flushes[mw.path]) == 1
    flw = prog.fns[sorted({site(e) for e in shaped})[0][0]] if shaped else mw
    # every write hands over the result of one mapping_fn call on an argument that was not understood as the taken buffer
    mapped_something = lambda e: e.kind == 'WRITE_ALL' and len(e.args) > 1 and (lambda dv: dv[0] == 'call' and dv[1] == 'std::ops::Fn::call' and has_field(dv[2][0], 'mapping_fn'))(H.peel_views(nf(e.args[1])))
    if not ok and every and all(e in shaped or mapped_something(e) for e in every) and all(len(es) <= 1 for es in iw.values()) and len(iw[mw.path]) == 1:
        rep.unproven('R5', 'flush-shape', w(flw), 'what is handed to mapping_fn before the write to the inner writer is not understood as mem::take(<the buffer field>): %s'
                     % '; '.join(sorted({vstr(nf(e.args[1]))[:90] for e in every if e not in shaped})))
    else:
        rep.check(ok, 'R5', 'flush-shape', w(flw), 'flush = inner.write_all(mapping_fn(take(buffer)))', 'flush does not write mapping_fn(take(buffer))')
    # the remainder flush of Drop and unwrap only runs with a non-empty buffer: a guard at any level of the call chain
    guard = None
    opaque = []     # decisions around a remainder flush that are neither understood as `non-empty` nor about the inner writer
    opaque += ['a write to the inner writer in %s' % g.path.split('::')[-1] for g in (dr, un) if not_understood(g)]
    if dr is not None and flushes[dr.path] and flushes[un.path]:
        where = set()
        good = True
        for g in (dr, un):
            for e in flushes[g.path]:
                opaque += [vstr(subj if subj is not None else (views[0][0] if views else ('unknown',)))[:60] for cd, views, subj in guards_of(Ew, e)
                           if not any(has_field(x, 'inner') for x in [subj if subj is not None else ('unknown',)] + [v for v, _ in views])]
                hit = [cd for v, oc, cd in H.guard_views(Ew, e) if says_nonempty(v, oc, g)]
                # .. or the pending bytes come out of a private function that only hands them out when there are any
                hit += [cd for cd, _, subj in guards_of(Ew, e) if cd.kind == 'variant' and cd.outcome and set(cd.outcome) <= {'Some', 'Ok'}
                        and taker_some_iff_nonempty(subj, g, False)]
                good = good and bool(hit)
                where.update(cd.fn.path.split('::')[-1] for cd in hit[:1])
        if good:
            guard = 'in ' + ' / '.join(sorted(where))
    if guard is None and opaque:
        # a definite breach only when nothing but the presence of the inner writer gates the flush
        rep.unproven('R5', 'nonempty-remainder-guard', w(flw), 'that the remainder is only mapped and written when the buffer is non-empty is not established: the flush on drop / unwrap '
                     'is gated by %s, which is not understood as a non-empty test of the buffer field' % '; '.join(sorted(set(opaque)))[:200])
    else:
        rep.check(guard is not None, 'R5', 'nonempty-remainder-guard', w(flw), 'the remainder is only mapped and written when the buffer is non-empty (%s)' % guard,
                  'on drop / unwrap the mapping of an EMPTY remainder is emitted: input "a\\n" through line_mapped(add_prefix("> ")) yields "> a\\n> " — the property '
                  'only allows the mapping of the non-empty remainder', {'reproducer': 'line_mapped(out, add_prefix("> ")) <- "a\\n" ; drop  =>  "> a\\n> "'})

    # ---- R5, deepened: who may write to the inner writer, under which conditions, and with which bytes ---------------------
    mo = sorted(n for n, _ in overrides.get('Map', []))
    for _, f in overrides.get('Map', []):
        rep.analysed(f)
    if mo:
        rep.unproven('R5', 'overrides', w(mw), 'MappedWrite overrides io::Write::%s: callers of that method (io::copy calls write_all) bypass the analysed write()' % ', '.join(mo))
    else:
        rep.holds('R5', 'overrides', w(mw), 'write() is the only input-carrying io::Write method of MappedWrite')
    in_module = lambda f: f.crate == 'libherokubuildpack' and f.path.startswith(('libherokubuildpack::write::', '<libherokubuildpack::write::'))
    module_fns = [f for f in prog.fns.values() if in_module(f)]
    # only write / Drop::drop / unwrap hand bytes to the inner writer: any other public function of the module that reaches a
    # write on a MappedWrite's `inner` (flush!) emits the mapping of something that is neither a marker-terminated segment
    # nor the final remainder
    Ex = Effects(prog, sl, vocab=WRITE_VOCAB)
    entries = {mw.path, un.path} | ({dr.path} if dr is not None else set())
    strays = []
    for f in sorted(module_fns, key=lambda f: f.path):
        if f.kind == 'Closure' or f.path in entries:
            continue
        if f.vis != 'pub':
            callers = [c.fn for c in prog.callers().get(f.path, [])]
            if all(in_module(g) for g in callers):
                continue        # private to the module: judged through the functions that call it
        if any(e.kind in ('WRITE_ALL', 'WRITE_SOME') and e.args and has_field(e.args[0], 'inner') for e in Ex.expand(f, 'may')):
            strays.append(f)
            rep.analysed(f)
    rep.check(not strays, 'R5', 'entry-points', w(strays[0] if strays else mw), 'only write, Drop::drop and unwrap hand bytes to the inner writer',
              '%s also writes to the inner writer: between two write calls it emits the mapping of an incomplete segment, so the output depends on how the input was split'
              % ', '.join(f.path.split('::')[-1] for f in strays))

    # the flush runs whenever the part ends with the marker (write) / always (drop, unwrap) — except with an empty buffer or
    # without an inner writer: no other condition gates it at any level of the call chain
    def innerish(v, fn):
        v = strip(v)
        while v[0] == 'call' and v[2] and v[1] in OPT_VIEWS:
            v = strip(v[2][0])
        return is_field(v, fn, 'inner')

    def guard_allowed(cd, views, subj, g):
        own = cd.fn is g or (g is mw and P is not None and cd.fn is P.body)       # the per-part statements of write
        if cd.kind == 'variant':
            oc = set(cd.outcome or ())
            if not oc or not oc <= {'Some'} or subj is None:
                return g is mw and own and P is not None and cd.subject is not None and P.is_elem(cd.subject)
            sv = strip(subj)
            if g is mw and own and P is not None and P.is_next_cond(cd):
                return True
            if innerish(sv, g):
                return True
            if taker_some_iff_nonempty(sv, g, True):
                return True
            if sv[0] == 'call' and sv[1] == H.OPT + 'filter' and len(sv[2]) == 2 and innerish(sv[2][0], g):
                r, neg = sl.apply_closure(sv[2][1], (sl.mk_unwrap(sv[2][0], 1),)), False
                while r is not None and r[0] == 'un' and r[1] == 'Not':
                    r, neg = r[2], not neg
                return r is not None and says_nonempty(r, not neg, g)
            return g is mw and own and P is not None and cd.subject is not None and P.is_elem(cd.subject)
        if cd.kind != 'bool':
            return False
        # a condition of the entry function itself is also read as written (the chain's substitution renames loop elements)
        for v, oc in list(views) + (list(cd.views()) if own else []):
            sv = strip(v)
            if oc is True and g is mw and own and P is not None and (P.ends_with_marker(v, is_marker) or (
                    P.kind == 'bytes' and app is not None and app.fn is body and cd.fn is body and cd.sw_bb != app.bb and body.dominates(app.bb, cd.sw_bb) and tail_is_marker(v))):
                return True
            if says_nonempty(v, oc, g):
                return True
            if sv[0] == 'call' and len(sv[2]) == 1 and innerish(sv[2][0], g) and (sv[1], oc) in ((H.OPT + 'is_some', True), (H.OPT + 'is_none', False)):
                return True
        return False
    for g in (mw, dr, un):
        if g is None or not flushes.get(g.path):
            continue
        name = g.path.split('::')[-1]
        extra = []
        for e in flushes[g.path]:
            for cd, views, subj in guards_of(Ew, e):
                if not guard_allowed(cd, views, subj, g):
                    v = views[0][0] if views else (subj if subj is not None else ('unknown',))
                    extra.append('%s is %s (%s:%s)' % (vstr(v)[:70], sorted(cd.outcome) if isinstance(cd.outcome, (set, frozenset)) else cd.outcome, cd.fn.path.split('::')[-1], cd.fn.file))
        what = 'a part that ends with the marker' if g is mw else 'the remainder'
        if extra:
            rep.unproven('R5', 'flush-guards/' + name, w(g), 'in %s the flush of %s is gated by a further condition (besides non-empty buffer / inner writer present): %s — '
                         'such a segment is not emitted or is merged with the next one' % (name, what, '; '.join(sorted(set(extra)))[:200]))
        else:
            rep.holds('R5', 'flush-guards/' + name, w(g), 'in %s nothing but a non-empty buffer and the presence of the inner writer gates the flush of %s' % (name, what))

    # what is mapped is the taken buffer as it is, what is written is the mapping result as it is: neither value is edited in
    # place between the calls (statement-level: `&mut` uses do not show in value terms)
    sites_seen, verbatim, take_sites = set(), bool(shaped), set()
    del H.WHY[:]
    for e in shaped:
        if site(e) in sites_seen:
            continue
        sites_seen.add(site(e))
        o = H.origins(prog, e.call.fn, e.call.args[1]) if len(e.call.args) > 1 else None
        good = bool(o) and all(c.is_('std::ops::Fn::call', 'std::ops::FnMut::call_mut', 'std::ops::FnOnce::call_once') and len(c.args) == 2 for c in o)
        for c in (o if good else ()):
            o2 = H.origins(prog, c.fn, c.args[1])
            good = good and bool(o2) and all(c2.is_('std::mem::take') for c2 in o2)
            take_sites.update((c2.fn.path, c2.bb) for c2 in (o2 or ()))
        verbatim = verbatim and good
        take_sites.update(x[3] for v in (strip(e.args[1]), nf(e.args[1])) for x in walk(v) if x[0] == 'call' and x[1] == 'std::mem::take' and len(x) == 4 and x[3])
    edited = sorted({y[8:] for y in H.WHY if y.startswith('edited: ')})
    if verbatim:
        rep.holds('R5', 'mapped-verbatim', w(flw), 'mapping_fn gets the taken buffer unmodified, the inner writer gets the mapping result unmodified')
    elif edited:
        rep.violated('R5', 'mapped-verbatim', w(flw), 'between mem::take(buffer), mapping_fn and write_all a value is edited in place (%s): the bytes emitted are not the mapping of the segment' % '; '.join(edited)[:200])
    else:
        rep.unproven('R5', 'mapped-verbatim', w(flw), 'the data flow mem::take(buffer) -> mapping_fn -> write_all could not be followed statement by statement')

    # frame: the pending bytes only change by the append in write and the take in the flush
    okay_sites = set(take_sites)
    if app is not None and len(tail_app) == (1 if P is not None and P.has_tail else 0):
        okay_sites.update(site_of(c) for c in [app] + tail_app)
    foreign = []
    # (the buffer inside a private struct: a `&mut` borrow of that struct as a whole may only be handed to functions of the
    # module — which are scanned themselves, also for what they do with the borrow as a whole)
    trusted = lambda c: c is not None and not c.indirect and prog.fns.get(c.name) is not None and in_module(prog.fns[c.name]) and prog.fns[c.name].kind != 'Closure'
    carrier_refs = tuple('&mut ' + t for t in carriers.values() if any(BUF[:len(k)] == k for k, t2 in carriers.items() if t2 == t))
    for f in sorted(module_fns, key=lambda f: f.path):
        for depth, fname in enumerate(BUF):
            nxt = BUF[depth + 1] if depth + 1 < len(BUF) else None
            for kind, g, bb, c, idx in H.field_mutations(prog, f, fname, skip_next=nxt):
                if nxt is None and kind == 'call' and c is not None and idx == 0 and ((g.path, bb) in okay_sites or (c.name or '').rsplit('::', 1)[-1] in CAPACITY_ONLY):
                    continue
                if nxt is not None and kind == 'call' and trusted(c):
                    continue
                foreign.append('%s in %s' % ((c.name or 'indirect call').split('::')[-1] if c is not None else kind, f.path.split('::')[-1]))
                rep.analysed(f)
        for i, ty in enumerate(f.args or ()):
            if ty in carrier_refs and f.kind != 'Closure':
                for what in H.whole_ref_mutations(prog, f, i + 1, trusted):
                    foreign.append('%s in %s' % (what, f.path.split('::')[-1]))
                    rep.analysed(f)
    if foreign:
        rep.unproven('R5', 'buffer-frame', w(mw), 'the pending bytes are also changed by %s: what gets mapped is not the segment that was written' % ', '.join(sorted(set(foreign)))[:160])
    else:
        rep.holds('R5', 'buffer-frame', w(mw), 'the buffer field only changes by the append in write and the take in the flush')
