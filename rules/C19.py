"""C19 — child output streamed fully without deadlock; writers chunking-independent.

Decided structurally:
  R1 spawn-before-join  inside the scoped-thread closure every call that can reach ScopedJoinHandle::join is
                        dominated by both calls that can reach Scope::spawn (otherwise the undrained pipe can
                        fill up and the child blocks forever)
  R2 wait-after-drain   Child::wait is only called on the result of the stream-copy function
  R3 copy completeness  each copier thread is io::copy(child stream, writer) to EOF; both results are joined and
                        combined (first error wins); panics of copier threads are re-raised; both pipes are piped
  R4 tee                TeeWrite::write calls write_all(buf) on both inner writers with the whole input slice,
                        propagates their errors and returns Ok(buf.len()); flush flushes both
  R5 mapped writer      write pushes every input byte and flushes exactly when the byte equals the marker; returns
                        Ok(buf.len()); the buffer is a field (state survives across write calls); Drop and unwrap
                        flush the remainder, unwrap takes the inner writer afterwards (no double flush), and the
                        remainder flush is guarded by a non-empty buffer
Not decided: scheduling and timing, kernel pipe behaviour, that io::copy delivers bytes in order.
"""
from .lib.guards import conditions
from .lib.paths import strip
from .lib.value import vstr, walk

WC = 'libherokubuildpack::command::write_child_process_output'
MW = 'libherokubuildpack::write::MappedWrite::<W>::'
FLUSH = MW + 'map_and_write_current_buffer'


def reaches(prog, call, target_names):
    """can executing `call` (incl. closures / fn items handed to it) reach a call of one of target_names"""
    roots = list(prog.callee_fns(call)) + list(prog.fn_item_args(call))
    if call.name in target_names:
        return True
    for f in prog.reach(roots).values():
        for c in f.calls:
            if c.name in target_names:
                return True
    return False


def run(ctx, rep):
    prog, sl = ctx.prog, ctx.slicer
    for r, d in (('R1', 'both copier threads are spawned before either is joined'), ('R2', 'the child is waited for only after its streams were drained'),
                 ('R3', 'copy to EOF, joined results, first error wins, panics re-raised'), ('R4', 'tee writes the whole slice to both targets'),
                 ('R5', 'marker-splitting writer: push every byte, flush on marker, remainder on drop/unwrap if non-empty')):
        rep.rule(r, d)
    rep.not_decided = ['scheduling / timing, kernel pipe behaviour', 'chunking independence as a value-level statement', 'io::copy ordering (std)']
    w = lambda f: '%s:%d' % (f.file, f.line)
    wc = prog.fn(WC)
    rep.analysed(wc)
    sc = [g for g in prog.closures_of(wc) if g.parent == WC]
    if len(sc) != 1:
        rep.unproven('R1', 'scope-closure', w(wc), 'scoped-thread closure not found')
        return
    sc = sc[0]
    rep.analysed(sc)
    SPAWN = {"crossbeam_utils::thread::Scope::<'env>::spawn", 'std::thread::scope::Scope::spawn', "std::thread::Scope::<'scope, 'env>::spawn"}
    JOIN = {"crossbeam_utils::thread::ScopedJoinHandle::<'_, T>::join", "std::thread::ScopedJoinHandle::<'scope, T>::join"}
    spawners = [c for c in sc.calls if not c.indirect and reaches(prog, c, SPAWN)]
    joiners = [c for c in sc.calls if not c.indirect and reaches(prog, c, JOIN)]
    rep.check(len(spawners) == 2 and len(joiners) == 2, 'R1', 'sites', w(sc), '2 spawning and 2 joining call sites', '%d spawning / %d joining call sites' % (len(spawners), len(joiners)))
    for i, j in enumerate(joiners):
        ok = all(sc.dominates(s.bb, j.bb) and s.bb != j.bb for s in spawners)
        rep.check(ok, 'R1', 'join#%d' % i, j.where(), 'join happens after both spawns on every path',
                  'a copier thread is joined before the other stream\'s copier is spawned: a child filling the other pipe deadlocks')
    # the spawned closures copy their own stream to their own writer
    streams = {}
    for s in spawners:
        src = strip(sl.operand(sc, s.args[0]))
        fld = next((x[2] for x in walk(src) if x[0] == 'field' and x[2] in ('stdout', 'stderr')), None)
        for g in prog.fn_item_args(s):
            for g2 in [g] + prog.closures_of(g):
                for c in g2.calls:
                    if c.is_('std::io::copy'):
                        a = [strip(sl.operand(g2, x)) for x in c.args]
                        streams[fld] = (vstr(a[0]), vstr(a[1]), g2)
    rep.extra['copiers'] = {k: list(v[:2]) for k, v in streams.items() if k}
    ok = set(streams) == {'stdout', 'stderr'}
    if ok:
        # writer of stdout copier = 2nd parameter of write_child_process_output, stderr = 3rd
        for fld, idx in (('stdout', 1), ('stderr', 2)):
            g2 = streams[fld][2]
            c = [c for c in g2.calls if c.is_('std::io::copy')][0]
            wv = sl.operand(g2, c.args[1])
            rv = sl.operand(g2, c.args[0])
            good_w = any(x[0] == 'param' and x[1] == WC and x[2] == idx for x in walk(wv))
            good_r = any(x[0] == 'field' and x[2] == fld for x in walk(rv)) or any(x[0] == 'param' and x[3] == fld for x in walk(rv))
            rep.check(good_w and good_r, 'R3', 'copier/' + fld, c.where(), 'io::copy(child.%s, %s writer)' % (fld, fld), 'the %s copier copies %s into %s' % (fld, vstr(rv)[:60], vstr(wv)[:60]))
            rv0 = strip(sl.local(g2, 0))
            rep.check(rv0[0] == 'call' and rv0[1] == 'std::io::copy', 'R3', 'copier-result/' + fld, c.where(), 'the copy result is the thread result', 'the copy result is not returned from the thread')
    else:
        rep.violated('R3', 'copiers', w(sc), 'copier threads for %s (expected stdout and stderr)' % sorted(k for k in streams if k))
    rv = strip(sl.local(sc, 0))
    ok = rv[0] == 'call' and rv[1].endswith('Result::<T, E>::map') and strip(rv[2][0])[0] == 'call' and strip(rv[2][0])[1].endswith('Result::<T, E>::and')
    if ok:
        a, b = strip(rv[2][0])[2]
        ok = all(strip(x)[0] == 'call' and strip(x)[1].endswith('map_or_else') for x in (a, b))
    rep.check(ok, 'R3', 'combine', w(sc), 'stdout_result.and(stderr_result).map(|_| child): an error of either copier is returned', 'copier results are not combined with and(): ' + vstr(rv)[:120])
    up = prog.fn('libherokubuildpack::command::unwind_panic')
    rep.analysed(up)
    ru = [c for c in up.calls if c.is_('std::panic::resume_unwind')]
    ok = len(ru) == 1 and strip(sl.operand(up, ru[0].args[0]))[0] == 'unwrap_err'
    rep.check(ok, 'R3', 'panic-reraised', w(up), 'a panicked copier thread re-raises in the caller', 'copier panics are swallowed')
    sp = prog.find_one(r'^<std::process::Command as libherokubuildpack::command::CommandExt>::spawn_and_write_streams$')
    rep.analysed(sp)
    v = strip(sl.local(sp, 0))
    piped = sorted(c.name.split('::')[-1] for c in sp.calls if c.name in ('std::process::Command::stdout', 'std::process::Command::stderr')
                   and strip(sl.operand(sp, c.args[1]))[0] == 'call' and strip(sl.operand(sp, c.args[1]))[1] == 'std::process::Stdio::piped')
    rep.check(piped == ['stderr', 'stdout'], 'R3', 'piped', w(sp), 'both streams are piped', 'piped streams: %s' % piped)
    # the returned Output carries the buffers that were tee'd with the caller's writers, stream by stream
    ow = prog.find_one(r'^<std::process::Command as libherokubuildpack::command::CommandExt>::output_and_write_streams$')
    rep.analysed(ow)
    spc = [c for c in ow.calls if c.name and c.name.endswith('spawn_and_write_streams')]
    ok = len(spc) == 1
    if ok:
        tees = [strip(sl.operand(ow, a)) for a in spc[0].args[1:3]]
        ok = all(t[0] == 'call' and t[1] == 'libherokubuildpack::write::tee' for t in tees)
        if ok:
            bufs = [strip(t[2][0]) for t in tees]
            users = [strip(t[2][1]) for t in tees]
            ok = [u[2] for u in users if u[0] == 'param'] == [1, 2] and bufs[0] != bufs[1]
            outs = [g for g in prog.closures_of(ow) if any(st[0] == '=' and st[2]['r'] == 'agg' and (st[2].get('adt') or '').endswith('process::Output') for b in g.blocks for st in b['s'])]
            if ok and len(outs) == 1:
                ov = strip(sl.local(outs[0], 0))
                fl = dict(ov[3]) if ov[0] == 'agg' else {}
                ok = strip(fl.get('stdout', ('unknown',))) == bufs[0] and strip(fl.get('stderr', ('unknown',))) == bufs[1]
            else:
                ok = False
    rep.check(ok, 'R3', 'output-buffers', w(ow), 'Output.stdout / .stderr are the buffers tee\'d with the stdout / stderr writers', 'the returned Output does not carry the per-stream tee buffers')
    # ---- R2 --------------------------------------------------------------------------------------------
    waits = [(f, c) for f in prog.fns.values() if f.crate == 'libherokubuildpack' and f.path.startswith(('libherokubuildpack::command', '<std::process::Command as libherokubuildpack::command'))
             for c in f.calls if c.is_('std::process::Child::wait', 'std::process::Child::wait_with_output', 'std::process::Child::try_wait')]
    rep.check(len(waits) == 1, 'R2', 'wait-sites', w(wc), 'one Child::wait call site in the command module', '%d wait call sites' % len(waits))
    for f, c in waits:
        parent = prog.fns.get(f.parent)
        ok = False
        if parent is not None:
            at = [x for x in parent.calls if x.name and x.name.endswith('::and_then') and any(y[0] == 'closure' and y[1] == f.path for y in walk(sl.operand(parent, x.args[1])))]
            if len(at) == 1:
                recv = strip(sl.operand(parent, at[0].args[0]))
                ok = recv[0] == 'call' and recv[1].endswith('spawn_and_write_streams') and strip(sl.operand(f, c.args[0]))[0] == 'param'
        rep.check(ok, 'R2', 'wait-after-copy', c.where(), 'wait() runs on the child returned by the stream copier (after both streams hit EOF)',
                  'Child::wait is not sequenced after the stream copy')
    no_wait_inside = not any(c.is_('std::process::Child::wait') for g in [wc] + prog.closures_of(wc) for c in g.calls)
    rep.check(no_wait_inside, 'R2', 'no-wait-in-copier', w(wc), 'the copier itself never waits for the child', 'the stream copier waits for the child before the streams are drained')
    # ---- R4 --------------------------------------------------------------------------------------------
    tw = prog.find_one(r'^<libherokubuildpack::write::TeeWrite<A, B> as std::io::Write>::write$')
    rep.analysed(tw)
    wa = [c for c in tw.calls if c.decl == 'std::io::Write::write_all']
    targets = sorted(strip(sl.operand(tw, c.args[0]))[2] for c in wa if strip(sl.operand(tw, c.args[0]))[0] == 'field')
    whole = all(strip(sl.operand(tw, c.args[1]))[0] == 'param' and strip(sl.operand(tw, c.args[1]))[2] == 1 for c in wa)
    from .lib.discard import result_fates, verdict
    prop = all(verdict(result_fates(prog, tw, c)) == 'ok' for c in wa)
    rep.check(targets == ['inner_a', 'inner_b'] and whole and prop, 'R4', 'write_all-both', w(tw), 'write_all(buf) on both targets, errors propagated',
              'tee write: targets=%s whole_slice=%s propagated=%s (write() instead of write_all() may write a prefix only)' % (targets, whole, prop))
    oks = [strip(sl._rvalue(tw, d[3], set(), 0, None)) for d in tw.whole_defs(0) if d[0] == 'stmt' and d[3]['r'] == 'agg' and d[3].get('variant') == 'Ok']
    ok = len(oks) == 1 and strip(dict(oks[0][3])['0'])[0] == 'call' and strip(dict(oks[0][3])['0'])[1].endswith('::len') and strip(strip(dict(oks[0][3])['0'])[2][0])[2] == 1
    rep.check(ok, 'R4', 'returns-len', w(tw), 'returns Ok(buf.len())', 'tee write does not report the whole slice as written')
    sites = [d[1] for d in tw.whole_defs(0) if d[0] == 'stmt' and d[3]['r'] == 'agg' and d[3].get('variant') == 'Ok']
    rep.check(all(tw.dominates(c.bb, s) for c in wa for s in sites) and len(wa) == 2, 'R4', 'both-before-ok', w(tw), 'both writes precede the success return', 'a target can be skipped on a success path')
    tf = prog.find_one(r'^<libherokubuildpack::write::TeeWrite<A, B> as std::io::Write>::flush$')
    fl = sorted(strip(sl.operand(tf, c.args[0]))[2] for c in tf.calls if c.decl == 'std::io::Write::flush' and strip(sl.operand(tf, c.args[0]))[0] == 'field')
    rep.check(fl == ['inner_a', 'inner_b'], 'R4', 'flush-both', w(tf), 'flush flushes both targets', 'tee flush targets: %s' % fl)
    # ---- R5 --------------------------------------------------------------------------------------------
    mw = prog.find_one(r'^<libherokubuildpack::write::MappedWrite<W> as std::io::Write>::write$')
    rep.analysed(mw)
    push = [c for c in mw.calls if c.name == 'std::vec::Vec::<T, A>::push']
    ok = len(push) == 1 and mw.in_loop(push[0].bb)
    if ok:
        recv = strip(sl.operand(mw, push[0].args[0]))
        val = strip(sl.operand(mw, push[0].args[1]))
        ok = recv[0] == 'field' and recv[2] == 'buffer' and any(x[0] == 'call' and x[1] == 'std::iter::Iterator::next' and strip(x[2][0])[0] == 'param' and strip(x[2][0])[2] == 1 for x in walk(val))
        # unconditional within the loop body
        ok = ok and not [cd for cd in conditions(mw, push[0].bb, sl) if cd.kind == 'bool']
    rep.check(ok, 'R5', 'push-every-byte', w(mw), 'every input byte is appended to the buffer field', 'not every input byte reaches the buffer')
    fc = [c for c in mw.calls if c.name == FLUSH]
    ok = len(fc) == 1 and mw.in_loop(fc[0].bb)
    if ok:
        cds = [cd for cd in conditions(mw, fc[0].bb, sl) if cd.kind == 'bool']
        ok = len(cds) == 1 and cds[0].outcome is True and cds[0].value[0] == 'bin' and cds[0].value[1] == 'Eq'
        if ok:
            a, b = strip(cds[0].value[2]), strip(cds[0].value[3])
            ok = {('field' if x[0] == 'field' and x[2] == 'marker_byte' else 'byte' if any(y[0] == 'call' and y[1] == 'std::iter::Iterator::next' for y in walk(x)) else '?') for x in (a, b)} == {'field', 'byte'}
        ok = ok and mw.dominates(push[0].bb, fc[0].bb) if push else False
        ok = ok and verdict(result_fates(prog, mw, fc[0])) == 'ok'
    rep.check(ok, 'R5', 'flush-on-marker', w(mw), 'flush exactly when the pushed byte == marker_byte (after the push), error propagated', 'segment flush condition is not `byte == marker`')
    oks = [strip(sl._rvalue(mw, d[3], set(), 0, None)) for d in mw.whole_defs(0) if d[0] == 'stmt' and d[3]['r'] == 'agg' and d[3].get('variant') == 'Ok']
    ok = len(oks) == 1 and strip(dict(oks[0][3])['0'])[0] == 'call' and strip(dict(oks[0][3])['0'])[1].endswith('::len')
    rep.check(ok, 'R5', 'returns-len', w(mw), 'returns Ok(buf.len())', 'mapped write does not consume the whole slice')
    adt = prog.adt('libherokubuildpack::write::MappedWrite')
    fields = {x['name']: x['ty'] for x in adt['variants'][0]['fields']}
    rep.check(fields.get('buffer', '').startswith('std::vec::Vec<u8'), 'R5', 'buffer-field', '%s:%s' % (adt['file'], adt['line']), 'pending bytes live in a field (state survives across write calls)', 'no buffer field')
    dr = prog.fns.get('<libherokubuildpack::write::MappedWrite<W> as std::ops::Drop>::drop')
    rep.check(dr is not None and any(c.name == FLUSH for c in dr.calls), 'R5', 'drop-flushes', w(dr) if dr else '-', 'Drop flushes the remainder', 'the remainder is lost when the writer is dropped')
    un = prog.fn(MW + 'unwrap')
    rep.analysed(un)
    f1 = [c for c in un.calls if c.name == FLUSH]
    tk = [c for c in un.calls if c.name == 'std::option::Option::<T>::take']
    ok = len(f1) == 1 and len(tk) == 1 and tk[0].bb in un.reachable(f1[0].bb) and f1[0].bb not in un.reachable(tk[0].bb)
    rep.check(ok, 'R5', 'unwrap', w(un), 'unwrap flushes the remainder, then takes the inner writer (the later Drop finds nothing to write to)', 'unwrap does not flush-then-take')
    fl = prog.fn(FLUSH)
    rep.analysed(fl)
    wa = [c for c in fl.calls if c.decl == 'std::io::Write::write_all']
    ok = len(wa) == 1
    guard = None
    if ok:
        dv = strip(sl.operand(fl, wa[0].args[1]))
        ok = dv[0] == 'call' and dv[1] == 'std::ops::Fn::call' and any(x[0] == 'call' and x[1] == 'std::mem::take' and strip(x[2][0])[2] == 'buffer' for x in walk(dv))
        for cd in conditions(fl, wa[0].bb, sl):
            if cd.kind == 'bool' and cd.value[0] == 'call' and cd.value[1].endswith('::is_empty') and strip(cd.value[2][0])[0] == 'field' and strip(cd.value[2][0])[2] == 'buffer' and cd.outcome is False:
                guard = 'in map_and_write_current_buffer'
    rep.check(ok, 'R5', 'flush-shape', w(fl), 'flush = inner.write_all(mapping_fn(take(buffer)))', 'flush does not write mapping_fn(take(buffer))')
    if guard is None and dr is not None:
        # alternatively every remainder flush site (Drop, unwrap) is guarded
        sites_ok = True
        for g, cs in ((dr, [c for c in dr.calls if c.name == FLUSH]), (un, f1)):
            for c in cs:
                good = any(cd.kind == 'bool' and cd.value[0] == 'call' and cd.value[1].endswith('::is_empty') and strip(cd.value[2][0])[0] == 'field' and strip(cd.value[2][0])[2] == 'buffer' and cd.outcome is False
                           for cd in conditions(g, c.bb, sl))
                sites_ok = sites_ok and good
        if sites_ok:
            guard = 'at the Drop / unwrap call sites'
    rep.check(guard is not None, 'R5', 'nonempty-remainder-guard', w(fl), 'the remainder is only mapped and written when the buffer is non-empty (%s)' % guard,
              'on drop / unwrap the mapping of an EMPTY remainder is emitted: input "a\\n" through line_mapped(add_prefix("> ")) yields "> a\\n> " — the property '
              'only allows the mapping of the non-empty remainder', {'reproducer': 'line_mapped(out, add_prefix("> ")) <- "a\\n" ; drop  =>  "> a\\n> "'})
