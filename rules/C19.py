"""C19 — child output streamed fully without deadlock; writers chunking-independent.

Decided structurally, on interprocedural effects (arguments substituted into the terms of the PUBLIC entry
CommandExt::spawn_and_write_streams: the spawned child, its two writer parameters — whichever private function does the
copying and whatever its signature is), value normal forms and success dependencies — not on one spelling of the code:
  R1 spawn-before-join  inside the scoped-thread closure every call through which a ScopedJoinHandle::join effect is
                        reached is dominated by every call through which a Scope::spawn effect is reached (otherwise the
                        undrained pipe can fill up and the child blocks forever)
  R2 wait-after-drain   Child::wait is only called on a child that exists as a success payload only if the stream-copy
                        function returned Ok (it is that function's payload, or the spawned child handed on under that
                        condition); nothing reachable from the entry waits
  R3 copy completeness  each spawned thread's result is Ok only if io::copy(child stream, that stream's writer) to EOF was;
                        success of the scope closure depends on the joined result of both copiers (an error of either is
                        returned: `a.and(b)`, `a?; b?`, a loop over the handles with `?` or with a first-error accumulator
                        that is found empty); the entry returns the spawned child, and only if the copier succeeded;
                        the panic payload of every joined thread (and of the scope) is re-raised; both pipes are piped;
                        the returned Output carries the tee'd buffers
  R4 tee                success of TeeWrite::write depends on write_all(buf) on both inner writers with the whole input
                        slice and yields Ok(buf.len()); flush flushes both (two statements or a loop over a table of both)
  R5 mapped writer      write appends every part of an in-order partition of the input (its bytes / its marker-terminated
                        segments) to the buffer field and flushes exactly when the part ends with the marker; returns
                        Ok(buf.len()); the buffer is a field (state survives across write calls); everything written to
                        the inner writer is mapping_fn(take(buffer)); Drop and unwrap flush the remainder, unwrap takes
                        the inner writer afterwards (no double flush), and the remainder flush is guarded by a non-empty
                        buffer
Not decided: scheduling and timing, kernel pipe behaviour, that io::copy delivers bytes in order.
"""
from .lib.guards import conditions
from .lib.paths import strip
from .lib.value import vstr, walk, canon
from .lib.effects import Effects
from .lib.discard import result_fates, verdict
from . import C19_helpers as H

MW = 'libherokubuildpack::write::MappedWrite::<W>::'
SPAWN = {"crossbeam_utils::thread::Scope::<'env>::spawn", 'std::thread::scope::Scope::spawn', "std::thread::Scope::<'scope, 'env>::spawn"}
JOIN = {"crossbeam_utils::thread::ScopedJoinHandle::<'_, T>::join", "std::thread::ScopedJoinHandle::<'scope, T>::join"}
SCOPE = {'crossbeam_utils::thread::scope', 'std::thread::scope', 'std::thread::scoped::scope'}
WAITS = ('std::process::Child::wait', 'std::process::Child::wait_with_output', 'std::process::Child::try_wait')
TAKES = ('std::option::Option::<T>::take', 'std::mem::take', 'std::mem::replace')


def has_field(v, name, base=None):
    """v mentions `<base>.name` (base: predicate on the stripped base value)"""
    return any(x[0] == 'field' and len(x) == 3 and x[2] == name and (base is None or base(strip(x[1]))) for x in walk(v))


def run(ctx, rep):
    prog, sl = ctx.prog, ctx.slicer
    for r, d in (('R1', 'both copier threads are spawned before either is joined'), ('R2', 'the child is waited for only after its streams were drained'),
                 ('R3', 'copy to EOF, joined results, first error wins, panics re-raised'), ('R4', 'tee writes the whole slice to both targets'),
                 ('R5', 'marker-splitting writer: push every byte, flush on marker, remainder on drop/unwrap if non-empty')):
        rep.rule(r, d)
    rep.not_decided = ['scheduling / timing, kernel pipe behaviour', 'chunking independence as a value-level statement', 'io::copy ordering (std)']
    w = lambda f: '%s:%d' % (f.file, f.line)
    nf = lambda v, keep=(): H.nf(sl, v, keep)
    # the public entry: every value below is expressed in ITS terms (the spawned child, its stdout / stderr writer parameters),
    # whichever private function the copying is delegated to and whatever that function's signature is
    sp = prog.find_one(r'^<std::process::Command as libherokubuildpack::command::CommandExt>::spawn_and_write_streams$')
    rep.analysed(sp)
    is_child = lambda x: x[0] == 'call' and x[1] == 'std::process::Command::spawn'      # (payload of) Command::spawn(..)
    is_writer = lambda x, idx: x[0] == 'param' and x[1] == sp.path and x[2] == idx

    # ---- the scoped-thread closure: the closure handed to thread::scope (wherever that call is spelled) ----------------
    Es = Effects(prog, sl, vocab={n: ('TSCOPE', 0) for n in SCOPE})
    scopes = [e for e in Es.expand(sp, 'may') if e.kind == 'TSCOPE']
    sc = None
    if len(scopes) == 1:
        clv = strip(scopes[0].args[0]) if scopes[0].args else ('unknown',)
        sc = prog.fns.get(clv[1]) if clv[0] == 'closure' else None
    if sc is None:
        rep.unproven('R1', 'scope-closure', w(sp), 'scoped-thread closure not found')
        return
    scope_call = scopes[0].call
    rep.analysed(sc)
    # the (private) stream copier: the function that opens the thread scope
    wc = scope_call.fn
    while wc.kind == 'Closure' and prog.fns.get(wc.parent) is not None:
        wc = prog.fns[wc.parent]
    rep.analysed(wc)
    M = dict(scopes[0].mapping or {})
    to_sp = lambda v: Es.subst(v, M)        # a value in the copier's terms, in the terms of the public entry
    is_copier_call = lambda v: v[0] == 'call' and (v[1] == wc.path or v[1] in SCOPE)
    thru = lambda name: name != wc.path

    # ---- R1 ------------------------------------------------------------------------------------------------------------
    voc = {n: ('TSPAWN', 1) for n in SPAWN}
    voc.update({n: ('TJOIN', 0) for n in JOIN})
    voc.update({n: ('WAIT', 0) for n in WAITS})
    voc['std::panic::resume_unwind'] = ('REPANIC', 0)
    Et = Effects(prog, sl, vocab=voc)
    teffs = Et.expand(sp, 'may')
    spawns = [e for e in teffs if e.kind == 'TSPAWN' and H.top_call(e, sc) is not None]
    joins = [e for e in teffs if e.kind == 'TJOIN' and H.top_call(e, sc) is not None]
    stray = [e for e in teffs if e.kind in ('TSPAWN', 'TJOIN') and H.top_call(e, sc) is None]
    rep.check(len(spawns) == 2 and len(joins) == 2 and not stray, 'R1', 'sites', w(sc), '2 spawn and 2 join effects inside the scope closure',
              '%d spawn / %d join effects inside the scope closure, %d outside' % (len(spawns), len(joins), len(stray)))
    for i, j in enumerate(joins):
        jb = H.top_call(j, sc).bb
        ok = all(sc.dominates(H.top_call(s, sc).bb, jb) and H.top_call(s, sc).bb != jb for s in spawns)
        rep.check(ok, 'R1', 'join#%d' % i, H.top_call(j, sc).where(), 'join happens after both spawns on every path',
                  'a copier thread is joined before the other stream\'s copier is spawned: a child filling the other pipe deadlocks')

    # ---- R3: what every spawned thread computes (closure value with its captures in the terms of wc) ---------------------
    Ec = Effects(prog, sl, vocab={'std::io::copy': ('COPY', 0)})
    copies = [e for e in Ec.expand(sp, 'may') if e.kind == 'COPY']
    streams = {}      # fld -> (reader, writer, canonical closure value, thread result)
    for s in spawns:
        clv = nf(s.args[1]) if len(s.args) > 1 else ('unknown',)
        res = sl.apply_closure(strip(clv), (('unknown', 'scope'),)) if strip(clv)[0] in ('closure', 'fnitem') else None
        res = nf(res) if res is not None else ('unknown', 'thread body')
        cp = [x for x in walk(res) if x[0] == 'call' and x[1] == 'std::io::copy' and len(x[2]) == 2]
        fld = None
        if len(cp) == 1:
            fld = next((f for f in ('stdout', 'stderr') if has_field(cp[0][2][0], f, is_child)), None)
        if fld is not None and fld not in streams:
            streams[fld] = (cp[0][2][0], cp[0][2][1], canon(strip(clv)), res, s)
        else:
            streams[None] = None
    rep.extra['copiers'] = {k: [vstr(v[0]), vstr(v[1])] for k, v in streams.items() if k}
    if set(streams) == {'stdout', 'stderr'} and len(copies) == 2:
        for fld, idx in (('stdout', 1), ('stderr', 2)):
            rv, wv, _, res, s = streams[fld]
            good_w = any(is_writer(x, idx) for x in walk(wv)) and not any(is_writer(x, 3 - idx) for x in walk(wv))
            rep.check(good_w, 'R3', 'copier/' + fld, s.where(), 'io::copy(child.%s, %s writer)' % (fld, fld), 'the %s copier copies %s into %s' % (fld, vstr(rv)[:60], vstr(wv)[:60]))
            # the thread's result is Ok only if the copy was, whatever becomes of the byte count
            ralts = H.value_alts(sl, res)
            is_copy = lambda x: x[0] == 'call' and x[1] == 'std::io::copy'
            rep.check(bool(ralts) and all(any(is_copy(strip(nf(d))) for d in ds) for _, ds in ralts), 'R3', 'copier-result/' + fld, s.where(), 'the copy result is the thread result', 'the copy result is not returned from the thread')
    else:
        rep.violated('R3', 'copiers', w(sc), 'copier threads for %s, %d io::copy effects (expected one each for stdout and stderr)' % (sorted(k for k in streams if k), len(copies)))

    def joined_streams(v):
        """streams whose joined copy result value v is: every alternative of v is either the literal Ok(..) standing for a
        pipe that does not exist, or payload(join(<handle>)) — the io::Result the copier thread returned — where the handle
        is what Scope::spawn returned for that stream's closure"""
        out = set()
        n = nf(to_sp(v))
        for a in (n[1] if n[0] == 'phi' else (n,)):
            if a[0] == 'agg' and a[1] == 'std::result::Result' and a[2] == 'Ok':
                continue
            if not (a[0] == 'unwrap' and a[1][0] == 'call' and a[1][1] in JOIN and a[1][2]):
                return set()
            h = strip(nf(a[1][2][0]))
            if not (h[0] == 'call' and h[1] in SPAWN and len(h[2]) > 1):
                return set()
            cv = canon(strip(nf(h[2][1])))
            out.update(f for f, sv in streams.items() if f and sv[2] == cv)
        return out

    # success of the scope closure depends on both joined copy results; the copier returns the scope's result; the entry
    # hands back the spawned child, and only if the copier succeeded (the child may be carried through the copier or kept by
    # the caller)
    alts = H.fn_alts(sl, sl, sc, optional=True)     # optional: a stream without a pipe has no copier to join
    ok = bool(alts)
    detail = []
    for payload, deps in alts:
        got = set()
        for dv in deps:
            got |= joined_streams(dv)
        detail.append('Ok(%s) needs %s' % (vstr(payload)[:30], sorted(got)))
        ok = ok and got >= {'stdout', 'stderr'}
    ok = ok and any(x[0] == 'call' and x[1] in SCOPE for x in walk(nf(sl.local(wc, 0))))
    keepw = (wc.path,)
    ealts = H.fn_alts(sl, sl, sp, thru=thru) if wc is not sp else [(to_sp(p), [scopes[0].args[0]]) for p, _ in alts]
    ok = ok and bool(ealts)
    for payload, deps in ealts:
        pv = strip(nf(payload, keep=keepw))
        if is_copier_call(pv):      # the copier's own payload: the child travels through the scope closure
            good = all(any(is_child(strip(x)) for x in walk(nf(to_sp(p)))) for p, _ in alts)
        else:
            good = is_child(pv) and any(is_copier_call(strip(nf(d, keep=keepw))) for d in deps)
        if not good:
            detail.append('entry: Ok(%s)' % vstr(pv)[:40])
        ok = ok and good
    rep.check(ok, 'R3', 'combine', w(sc), 'Ok(child) only if the joined stdout and stderr copy results are both Ok: an error of either copier is returned',
              'copier results are not combined with and(): success does not depend on both joined copy results (%s)' % '; '.join(detail)[:160])

    # the panic payload of every joined thread, and of the scope itself, is resumed
    repanics = [strip(e.path) for e in teffs if e.kind == 'REPANIC' and e.path is not None]
    repanics = [strip(p[1]) for p in repanics if p[0] == 'unwrap_err']

    def reraised(call, args):
        if not (call.dty or '').startswith('std::result::Result<'):
            return True     # std::thread::scope propagates panics itself
        return any(p[0] == 'call' and len(p) == 4 and p[3] == (call.fn.path, call.bb) and (args is None or canon(p[2]) == canon(tuple(args))) for p in repanics)
    ok = len(joins) > 0 and all(reraised(j.call, j.args) for j in joins) and reraised(scope_call, None)
    rep.check(ok, 'R3', 'panic-reraised', w(wc), 'a panicked copier thread re-raises in the caller', 'copier panics are swallowed')

    piped = sorted(c.name.split('::')[-1] for g in [sp] + prog.closures_of(sp) for c in g.calls if c.name in ('std::process::Command::stdout', 'std::process::Command::stderr')
                   and strip(sl.operand(g, c.args[1]))[0] == 'call' and strip(sl.operand(g, c.args[1]))[1] == 'std::process::Stdio::piped')
    rep.check(piped == ['stderr', 'stdout'], 'R3', 'piped', w(sp), 'both streams are piped', 'piped streams: %s' % piped)
    # the returned Output carries the buffers that were tee'd with the caller's writers, stream by stream
    ow = prog.find_one(r'^<std::process::Command as libherokubuildpack::command::CommandExt>::output_and_write_streams$')
    rep.analysed(ow)
    spc = [c for g in [ow] + prog.closures_of(ow) for c in g.calls if c.name and c.name.endswith('spawn_and_write_streams')]
    ok = len(spc) == 1
    if ok:
        tees = [strip(sl.operand(spc[0].fn, a)) for a in spc[0].args[1:3]]
        ok = len(tees) == 2 and all(t[0] == 'call' and t[1] == 'libherokubuildpack::write::tee' for t in tees)
        if ok:
            bufs = [strip(t[2][0]) for t in tees]
            users = [strip(t[2][1]) for t in tees]
            ok = [u[2] for u in users if u[0] == 'param'] == [1, 2] and bufs[0] != bufs[1]
            # success payload of the function: the same aggregate for `.map(|status| Output {..})` and `Ok(Output {..})`
            ov = strip(sl.mk_unwrap(sl.local(ow, 0), 1))
            if ok and ov[0] == 'agg' and (ov[1] or '').endswith('process::Output'):
                fl = dict(ov[3])
                ok = strip(fl.get('stdout', ('unknown',))) == bufs[0] and strip(fl.get('stderr', ('unknown',))) == bufs[1]
            else:
                ok = False
    rep.check(ok, 'R3', 'output-buffers', w(ow), 'Output.stdout / .stderr are the buffers tee\'d with the stdout / stderr writers', 'the returned Output does not carry the per-stream tee buffers')

    # ---- R2 --------------------------------------------------------------------------------------------
    waits = [(f, c) for f in prog.fns.values() if f.crate == 'libherokubuildpack' and f.path.startswith(('libherokubuildpack::command', '<std::process::Command as libherokubuildpack::command'))
             for c in f.calls if c.is_(*WAITS)]
    rep.check(len(waits) == 1, 'R2', 'wait-sites', w(wc), 'one Child::wait call site in the command module', '%d wait call sites' % len(waits))
    for f, c in waits:
        top = f
        while top.kind == 'Closure' and prog.fns.get(top.parent) is not None:
            top = prog.fns[top.parent]
        rep.analysed(top)
        we = [e for e in Et.expand(top, 'may') if e.kind == 'WAIT' and e.call is c]
        # the waited-for child only exists (as a success payload) once the stream copier has returned Ok: every way the
        # receiver's source can succeed depends on the copier call, and its payload is the spawned child
        ok = bool(we)
        for e in we:
            a0 = e.args[0] if e.args else ('unknown',)
            xalts = H.value_alts(sl, a0[1], thru=thru) if a0[0] == 'unwrap' else []
            ok = ok and bool(xalts)
            for p, ds in xalts:
                pv = strip(nf(p, keep=keepw))
                ok = ok and (is_copier_call(pv) or (is_child(pv) and any(is_copier_call(strip(nf(d, keep=keepw))) for d in ds)))
        rep.check(ok, 'R2', 'wait-after-copy', c.where(), 'wait() runs on the child returned by the stream copier (after both streams hit EOF)',
                  'Child::wait is not sequenced after the stream copy')
    no_wait_inside = not any(e.kind == 'WAIT' for e in teffs)
    rep.check(no_wait_inside, 'R2', 'no-wait-in-copier', w(wc), 'the copier itself never waits for the child', 'the stream copier waits for the child before the streams are drained')

    # ---- R4 --------------------------------------------------------------------------------------------
    Ew = Effects(prog, sl, vocab={'std::io::Write::write_all': ('WRITE_ALL', 0), 'std::io::Write::write': ('WRITE_SOME', 0), 'std::io::Write::flush': ('FLUSH', 0)})
    tw = prog.find_one(r'^<libherokubuildpack::write::TeeWrite<A, B> as std::io::Write>::write$')
    rep.analysed(tw)
    self_of = lambda fn: (lambda x: x[0] == 'param' and x[1] == fn.path and x[2] == 0)

    def target_of(v, fn):
        v = strip(v)
        return v[2] if v[0] == 'field' and self_of(fn)(strip(v[1])) else None
    weffs = [e for e in H.unroll(Ew, Ew.expand(tw, 'may')) if e.kind in ('WRITE_ALL', 'WRITE_SOME')]
    wa = [e for e in weffs if e.kind == 'WRITE_ALL']
    targets = sorted(t for t in (target_of(e.args[0], tw) for e in wa) if t)
    whole = all(H.is_param(e.args[1], tw, 1) for e in wa)
    prop = all(verdict(result_fates(prog, e.call.fn, e.call)) == 'ok' for e in wa) and \
        all(verdict(result_fates(prog, l.call.fn, l.call)) == 'ok' for e in wa for l in e.chain if (l.call.dty or '').startswith('std::result::Result<'))
    partial = [e for e in weffs if e.kind == 'WRITE_SOME' and target_of(e.args[0], tw)]
    rep.check(targets == ['inner_a', 'inner_b'] and whole and prop and not partial, 'R4', 'write_all-both', w(tw), 'write_all(buf) on both targets, errors propagated',
              'tee write: targets=%s whole_slice=%s propagated=%s (write() instead of write_all() may write a prefix only)' % (targets, whole, prop))
    talts = H.fn_alts(sl, sl, tw)

    def is_len_of_buf(p, fn):
        p = strip(p)
        return p[0] == 'call' and p[1].endswith('::len') and len(p[2]) == 1 and H.is_param(p[2][0], fn, 1)
    ok = bool(talts) and all(is_len_of_buf(p, tw) for p, _ in talts)
    rep.check(ok, 'R4', 'returns-len', w(tw), 'returns Ok(buf.len())', 'tee write does not report the whole slice as written')

    def needs_both(deps):
        got = set()
        for dv in deps:
            dv = strip(dv)
            if dv[0] == 'call' and dv[1] == 'std::io::Write::write_all' and len(dv[2]) == 2 and H.is_param(dv[2][1], tw, 1):
                got.add(target_of(dv[2][0], tw))
        return got >= {'inner_a', 'inner_b'}
    rep.check(bool(talts) and all(needs_both(ds) for _, ds in talts) and len(wa) == 2, 'R4', 'both-before-ok', w(tw), 'both writes precede the success return', 'a target can be skipped on a success path')
    tf = prog.find_one(r'^<libherokubuildpack::write::TeeWrite<A, B> as std::io::Write>::flush$')
    rep.analysed(tf)
    fl = sorted(t for t in (target_of(e.args[0], tf) for e in H.unroll(Ew, Ew.expand(tf, 'may')) if e.kind == 'FLUSH') if t)
    rep.check(fl == ['inner_a', 'inner_b'], 'R4', 'flush-both', w(tf), 'flush flushes both targets', 'tee flush targets: %s' % fl)

    # ---- R5 --------------------------------------------------------------------------------------------
    mw = prog.find_one(r'^<libherokubuildpack::write::MappedWrite<W> as std::io::Write>::write$')
    rep.analysed(mw)
    dr = prog.fns.get('<libherokubuildpack::write::MappedWrite<W> as std::ops::Drop>::drop')
    un = prog.fn(MW + 'unwrap')
    rep.analysed(un)
    is_field = lambda v, fn, name: strip(v)[0] == 'field' and strip(v)[2] == name and self_of(fn)(strip(strip(v)[1]))

    def inner_writes(fn):
        """effects that hand bytes to the inner writer, reached from fn"""
        return [e for e in Ew.expand(fn, 'may') if e.kind in ('WRITE_ALL', 'WRITE_SOME') and e.args and has_field(e.args[0], 'inner', self_of(fn))]

    def mapped_flush(e, fn):
        """inner.write_all(mapping_fn(take(buffer)))"""
        if e.kind != 'WRITE_ALL' or len(e.args) < 2:
            return False
        dv = strip(e.args[1])
        return dv[0] == 'call' and dv[1] == 'std::ops::Fn::call' and has_field(dv[2][0], 'mapping_fn', self_of(fn)) and \
            any(x[0] == 'call' and x[1] == 'std::mem::take' and x[2] and is_field(x[2][0], fn, 'buffer') for x in walk(dv))
    iw = {f.path: inner_writes(f) for f in (mw, un) + ((dr,) if dr is not None else ())}
    flushes = {p: [e for e in es if mapped_flush(e, prog.fns[p])] for p, es in iw.items()}
    for es in iw.values():
        for e in es:
            rep.analysed(e.call.fn)

    is_marker = lambda v: is_field(v, mw, 'marker_byte')

    def nonempty_test(v, fn):
        """v is `buffer.is_empty()` on fn's own buffer field"""
        v = strip(v)
        return v[0] == 'call' and v[1].endswith('::is_empty') and len(v[2]) == 1 and is_field(v[2][0], fn, 'buffer')
    parts = H.partitions(sl, Ew, mw, 1, is_marker)
    appends = [c for c in mw.calls if not c.indirect and c.args and is_field(sl.operand(mw, c.args[0]), mw, 'buffer') and
               c.name.startswith('std::vec::Vec::<T, A>::') and c.name.rsplit('::', 1)[-1] in ('push', 'extend_from_slice', 'extend', 'append', 'insert', 'extend_from_within')]
    P = parts[0] if len(parts) == 1 else None
    ok = P is not None and len(appends) == 1 and appends[0].name in P.APPEND[P.kind] and appends[0].bb in P.loop.body and mw.in_loop(appends[0].bb)
    if ok:
        ok = P.is_elem(sl.operand(mw, appends[0].args[1]))
        # unconditional within the loop body
        cds = conditions(mw, appends[0].bb, sl)
        ok = ok and not [cd for cd in cds if cd.kind == 'bool'] and all(P.is_elem(cd.subject) for cd in cds if cd.kind == 'variant' and cd.subject is not None)
    rep.check(ok, 'R5', 'push-every-byte', w(mw), 'every input byte is appended to the buffer field', 'not every input byte reaches the buffer')
    fcs = {}
    for e in flushes[mw.path]:
        fcs[H.top_call(e).bb] = e
    ok = P is not None and len(fcs) == 1
    if ok:
        fe = list(fcs.values())[0]
        fc = H.top_call(fe)
        ok = fc.bb in P.loop.body and mw.in_loop(fc.bb)
        cds = [cd for cd in conditions(mw, fc.bb, sl) if cd.kind == 'bool']
        test = [cd for cd in cds if any(oc is True and P.ends_with_marker(v, is_marker) for v, oc in cd.views())]
        # besides the marker test only "the buffer is not empty" may guard the flush (always true after the append)
        rest = [cd for cd in cds if cd not in test and not any(oc is False and nonempty_test(v, mw) for v, oc in cd.views())]
        ok = ok and len(test) == 1 and not rest
        ok = ok and len(appends) == 1 and mw.dominates(appends[0].bb, fc.bb) and appends[0].bb != fc.bb
        ok = ok and all(verdict(result_fates(prog, c.fn, c)) == 'ok' for c in [l.call for l in fe.chain] + [fe.call])
    rep.check(ok, 'R5', 'flush-on-marker', w(mw), 'flush exactly when the pushed byte == marker_byte (after the push), error propagated', 'segment flush condition is not `byte == marker`')
    malts = H.fn_alts(sl, sl, mw)
    ok = bool(malts) and all(is_len_of_buf(p, mw) for p, _ in malts)
    rep.check(ok, 'R5', 'returns-len', w(mw), 'returns Ok(buf.len())', 'mapped write does not consume the whole slice')
    adt = prog.adt('libherokubuildpack::write::MappedWrite')
    fields = {x['name']: x['ty'] for x in adt['variants'][0]['fields']}
    rep.check(fields.get('buffer', '').startswith('std::vec::Vec<u8'), 'R5', 'buffer-field', '%s:%s' % (adt['file'], adt['line']), 'pending bytes live in a field (state survives across write calls)', 'no buffer field')
    rep.check(dr is not None and len(flushes[dr.path]) > 0, 'R5', 'drop-flushes', w(dr) if dr else '-', 'Drop flushes the remainder', 'the remainder is lost when the writer is dropped')
    f1 = sorted({H.top_call(e).bb for e in flushes[un.path]})
    tk = [c for c in un.calls if c.is_(*TAKES) and c.args and is_field(sl.operand(un, c.args[0]), un, 'inner')]
    ok = len(f1) == 1 and len(tk) == 1 and tk[0].bb in un.reachable(f1[0]) and f1[0] not in un.reachable(tk[0].bb)
    rep.check(ok, 'R5', 'unwrap', w(un), 'unwrap flushes the remainder, then takes the inner writer (the later Drop finds nothing to write to)', 'unwrap does not flush-then-take')
    every = [e for es in iw.values() for e in es]
    shaped = [e for es in flushes.values() for e in es]
    site = lambda e: (e.call.fn.path, e.call.bb)
    # every entry point reaches exactly one write to the inner writer, and that write has the mapped shape
    ok = len(every) == len(shaped) and all(len(es) <= 1 for es in flushes.values()) and len(flushes[mw.path]) == 1
    flw = prog.fns[sorted({site(e) for e in shaped})[0][0]] if shaped else mw
    rep.check(ok, 'R5', 'flush-shape', w(flw), 'flush = inner.write_all(mapping_fn(take(buffer)))', 'flush does not write mapping_fn(take(buffer))')
    # the remainder flush of Drop and unwrap only runs with a non-empty buffer: a guard at any level of the call chain
    guard = None
    if dr is not None and flushes[dr.path] and flushes[un.path]:
        where = set()
        good = True
        for g in (dr, un):
            for e in flushes[g.path]:
                hit = [cd for v, oc, cd in H.guard_views(Ew, e) if oc is False and nonempty_test(v, g)]
                good = good and bool(hit)
                where.update(cd.fn.path.split('::')[-1] for cd in hit[:1])
        if good:
            guard = 'in ' + ' / '.join(sorted(where))
    rep.check(guard is not None, 'R5', 'nonempty-remainder-guard', w(flw), 'the remainder is only mapped and written when the buffer is non-empty (%s)' % guard,
              'on drop / unwrap the mapping of an EMPTY remainder is emitted: input "a\\n" through line_mapped(add_prefix("> ")) yields "> a\\n> " — the property '
              'only allows the mapping of the non-empty remainder', {'reproducer': 'line_mapped(out, add_prefix("> ")) <- "a\\n" ; drop  =>  "> a\\n> "'})
