"""C03 — layer env on-disk layout and read-back.

Decided structurally:
  R1 scope/dir table   writer table (scope -> directory) = reader table = CNB spec table; a scope the
                       writer persists and the reader never reads (or vice versa) is a violation; where
                       the writer nests a scope directory inside another scope's directory, the per-file
                       read of the outer directory must be guarded by a file-type test (skip directories)
  R2 suffix table      writer {behaviour -> suffix} = inverse of the reader's extension table = spec;
                       no extension => Override; unknown / non-UTF-8 extension => entry ignored
  R3 stale removal     the per-directory writer removes the directory (guarded only by its existence)
                       before anything is created; the layer writer invokes it unconditionally for the
                       three base scopes, and env.launch is written before the per-process directories
  R4 raw bytes         written bytes = as_bytes(map value); read value = from_vec(fs::read(file)),
                       variable name = file stem
  R5 confinement       all mutating effects of the writer are below <layer>/{env,env.build,env.launch}
  R6 completeness      every entry of a delta is written: the file write runs once per element of self.entries (no
                       filter / take / skip stage, no break / early Ok out of the loop, no `continue` around it) and under no
                       condition other than "entries is non-empty" and earlier successes; scope directories are created
                       recursively (env.launch/<p> when env.launch itself was not created).  Every listed file of a scope
                       directory reaches the delta insert (listing visited to exhaustion, no positional truncation), and
                       whether it does never depends on the file's content; every sub-directory of env.launch is read as a
                       process environment, guarded by a directory test of that entry and by nothing foreign to it; the
                       process name is the unmodified directory name; a base scope directory is read whenever it exists
                       (R1/reader/scope-guard); the Result of the removal / creation / write is not discarded (R3/../result)
  R7 anchor callers    LayerRef::write_env / trait_api write_layer call write_to_layer_dir on every successful path, propagate
                       its Result and hand it <layers_dir>/<layer name>; read_env / read_layer read from the same directory
Not decided: byte-exact file names for exotic variable names (std::path stem/extension splitting),
"applies identically" at the value level, non-unix targets.

How the obligations are stated (so that they do not depend on one spelling of the code):
  writer side  on the interprocedural effects of write_to_layer_dir / the per-directory writer (Effects.expand with
               substituted arguments, guards_of along the call chain): loops, try_for_each closures, private helpers and
               `File::create(p)?.write_all(d)` are the same effects as the present `for` + `fs::write(p, d)`.  The values
               are taken with H.GrowSlicer: a table of (directory, delta) rows assembled in steps (`vec![..]` then
               `extend(self.process.iter().map(..))` / `push`) is the chain of its rows, so a loop over it is unrolled
               like a loop over a literal table; a Vec mutated in any way that is not an exact, once-executed append
               dominating all its readers is opaque (the writes through it are then not recognised => alarm).
               A Vec that is *planned* first and executed afterwards is the collection it was planned from: a Vec created
               empty and filled by exactly one push per iteration of one loop that every reader sees only after it ran to
               exhaustion is `collect(map(<iterated collection>, <loop body>))` (GrowSlicer._loop_built), a private helper
               that returns such a Vec or a collected pipeline is transparent, so the loop / try_for_each over the plan is
               unrolled into "for every entry of self.entries" with the planned (file name, value) substituted; `is_empty()`
               / `len()` of such a plan is that of self.entries.  A continue / break / filter / second push / any other
               in-place mutation (pop, truncate, retain, sort ..) keeps the Vec opaque => UNPROVEN, never silently OK.
               Having left an earlier loop by exhaustion is not a condition (H.loop_ran_out) unless that loop can also be
               left with the function succeeding.  A local closure called by name is entered like a private helper
               (H.EffectsX), `cond.then(|| effect)` is guarded by cond (H.guards_of).  Owned / borrowed copies of the raw
               bytes (`as_bytes().to_vec()`) are the raw bytes.  Obligations on values that are not modelled are UNPROVEN.
  reader side  (rules/C03_helpers.py) the scope table on value normal forms (success payloads, iterator algebra for maps
               collected from a pipeline, maps filled by a private helper; H.stored: `?` / unwrap_or_default / map /
               `is_dir().then(|| read(dir)).transpose()` / if-else helpers returning Ok(Some(..)) | Ok(None) around the
               stored read are transparent — whether the read happens is judged on the guards of the READ_ENV_DIR effect,
               where the receiver of `bool::then` counts as a guard); the per-file reads as effects with guards_of;
               the extension table / name / value by evaluating the reader's MIR once per extension scenario
               (`Path::extension` = None | Some(lit) | Some(unknown) | Some(non-UTF-8)) and observing what reaches the
               delta insert — nested `match`, a private `from_extension` helper, `map_or` + `?` in a closure, `zip`,
               `let .. else`, a lookup table are all just evaluated.  A row that cannot be evaluated is UNPROVEN.
               A two-phase reader (phase one fills a Vec with one push per listed file, phase two inserts per element of
               that Vec) is the same reader: a Vec created empty and mutated by nothing but push is the multiset of the
               pushed values (H.push_only; `next()` on it = Some(pushed value) | None in the evaluator), and the
               completeness / guard / must-insert obligations of the insert are then also demanded of the pushes
               (H.completeness_relay, must_insert's relayed activations).  Any other in-place mutation of a vector on
               that route (truncate, pop, retain, sort ...) makes the relay unrecognised => alarm.
               The key of a process environment is taken from all places where the result of that per-directory read is
               stored (the field assignment sees the private helper's returned map, the helper's inserts carry the key).
               The scope table is also read in every *frame* in which a READ_ENV_DIR effect of the layer reader runs (Effects
               chain with substituted arguments): a private non-generic body behind the public function, and a loop over a
               literal table of (directory name, &mut field) rows, unrolled per row, where `*target = read(..)?` stores into
               the field the row's reference stands for (H.reader_scope_table (e)).
  suffix table the writer's suffix is a *function of the entry's behaviour*: a piece of the file name that is not already a
               `match` is evaluated once per variant with the scenario evaluator (H.behaviour_function: a lookup in a shared
               (behaviour, suffix) table with find / find_map / position, map_or fallbacks, indexing are computed), a literal
               "." directly before bare suffixes is folded into them.  A piece that stays a computed value leaves the file
               name UNPROVEN (R2/writer/file-name), never VIOLATED.
  mkdir        `DirBuilder::create` is a directory creation (H.EffectsX vocabulary: confinement, order, result), recursive
               iff its builder was configured with recursive(true) (H.mkdir_recursive; undecided configuration => UNPROVEN).
"""
from . import layer_env_common as L
from . import C03_helpers as H
from .lib.effects import MUTATING
from .lib.paths import strip, LayerPaths
from .lib.value import vstr, walk, canon

Effects = H.EffectsX        # lib Effects + local closures called by name are entered like private helpers
guards_of = H.guards_of      # lib guards_of + the receiver of `cond.then(|| ..)` as a guard of what the closure does

SPEC_SCOPES = {'all': ('env',), 'build': ('env.build',), 'launch': ('env.launch',), 'process[*]': ('env.launch', '<key>')}
SPEC_SUFFIX = {'Append': '.append', 'Default': '.default', 'Delimiter': '.delim', 'Override': '.override', 'Prepend': '.prepend'}


def run(ctx, rep):
    prog, sl = ctx.prog, ctx.slicer
    L.resolve_roles(prog, sl)
    rep.rule('R1', 'scope -> directory table: writer = reader = spec; nested scope directories are skipped by the per-file reader')
    rep.rule('R2', 'behaviour <-> suffix table: writer = reader^-1 = spec; no extension => Override; unknown => ignored')
    rep.rule('R3', 'stale files: directory removed before (re)creation, unconditionally for all base scopes, launch before process dirs')
    rep.rule('R4', 'raw bytes: written data = as_bytes(value); read value = from_vec(fs::read(file)); name = file stem')
    rep.rule('R5', 'writer effects confined to <layer>/{env, env.build, env.launch}')
    rep.rule('R6', 'completeness: every entry of a delta is written (no filter / early exit / extra guard), every listed file and '
                   'process directory is read, independent of file contents; scope directories are created recursively')
    rep.rule('R7', 'anchor callers (LayerRef::write_env / read_env, trait_api write_layer / read_layer): the env is written '
                   'unconditionally, its result propagated, into / read from <layers_dir>/<layer name>')
    rep.not_decided = ['file-name splitting for exotic variable names (delegated to std::path)',
                       'equality of apply() results at the value level', 'non-unix cfg branches']
    # writer side: values in which a Vec grown through `&mut` (vec![..] + extend / push) before it is iterated is the
    # chain of its rows (H.GrowSlicer) — a table of (directory, delta) pairs assembled in steps is then unrolled by
    # Effects.expand like a literal table; the reader side keeps the shared slicer
    slw = H.GrowSlicer(prog)
    E = Effects(prog, slw)
    # ---- R1 ------------------------------------------------------------------------------------
    with H.closure_calls_expanded():
        wf, wt, wcalls = L.writer_scope_table(prog, slw)
    rf, rt, rdetail = H.reader_scope_table(prog, sl)
    rep.analysed(wf)
    rep.analysed(rf)
    wwhere = '%s:%d' % (wf.file, wf.line)
    rwhere = '%s:%d' % (rf.file, rf.line)
    rep.extra['scope_tables'] = {'writer': {k: list(map(str, v or [])) for k, v in wt.items()},
                                 'reader': {k: list(map(str, v or [])) for k, v in rt.items()},
                                 'spec': {k: list(v) for k, v in SPEC_SCOPES.items()}}
    for e, scope, cs, _, pathv in wcalls:
        if scope is None or cs is None:
            rep.unproven('R1', 'writer/unrecognised-write', e.where(), 'file write whose delta / directory is not recognised: %s (%s)' % (vstr(pathv)[:100], e.via()))
    unrecognised = [r for r in wcalls if r[1] is None or r[2] is None]
    # files opened through an OpenOptions configuration that is not understood (lib kind OPEN: mutating, contents unknown)
    # are writes the table does not see: a scope without a recognised write is then undecided, not missing
    opaque_opens = [e for e in E.expand(wf, 'may') if e.kind == 'OPEN']
    for e in opaque_opens:
        rep.unproven('R1', 'writer/unrecognised-write', e.where(), 'file opened with an OpenOptions configuration that is not recognised as create + truncate + write: %s (%s)'
                     % (vstr(e.path)[:100] if e.path is not None else '?', e.via()))
    unrecognised = unrecognised + opaque_opens
    for scope, want in SPEC_SCOPES.items():
        got = wt.get(scope)
        if got is None and unrecognised:
            # no recognised write for this scope while there are writes whose delta / directory is not recognised: undecided
            rep.unproven('R1', 'writer/' + scope, wwhere, 'no recognised file write persists scope %s (%d file write(s) not recognised)' % (scope, len(unrecognised)))
        else:
            rep.check(got == want, 'R1', 'writer/' + scope, wwhere, 'scope %s is written to %s' % (scope, '/'.join(want)),
                      'writer persists scope %s in %s, the spec says %s' % (scope, got, '/'.join(want)))
        gotr = rt.get(scope)
        if scope in wt and scope not in rt:
            rep.violated('R1', 'reader/' + scope, rwhere,
                         'scope %s is written to %s by write_to_layer_dir but never read back by read_from_layer_dir: '
                         'a written environment does not read back unchanged' % (scope, '/'.join(map(str, wt[scope] or ()))),
                         {'writer': rep.extra['scope_tables']['writer'], 'reader': rep.extra['scope_tables']['reader']})
        else:
            rep.check(gotr == want, 'R1', 'reader/' + scope, rwhere, 'scope %s is read from %s' % (scope, '/'.join(want)),
                      'reader takes scope %s from %s, the spec says %s' % (scope, gotr, '/'.join(want)))
    for scope in set(wt) | set(rt):
        if scope not in SPEC_SCOPES:
            rep.violated('R1', 'extra/' + scope, wwhere, 'scope %s is not in the spec table' % scope)
    # nested directories must be skipped by the per-file reader of the outer directory
    nested = [s for s, cs in wt.items() if cs and len(cs) > 1 and any(o != s and wt[o] == cs[:-1] for o in wt)]
    # (the reads are taken as interprocedural effects of the per-directory reader: directly in its body, in a private
    # helper or in a closure; the guards are those of every level of the call chain, boolean helpers inlined)
    h, reads = H.per_file_reads(prog, sl, Effects(prog, sl))
    rep.analysed(h)
    if not reads:
        rep.unproven('R1', 'reader/per-file-read', '%s:%d' % (h.file, h.line), 'no fs::read in the per-directory reader')
    for e, tests in reads:
        if nested:
            rep.check(bool(tests), 'R1', 'reader/skip-directories', e.where(),
                      'per-file read is guarded by a file-type test (%s)' % (tests and tests[0]),
                      'the writer creates %s inside a directory that the reader reads file by file, but the read of each entry is not '
                      'guarded by a file-type test: reading back a written per-process environment fails with EISDIR' % nested,
                      {'nested_scopes': nested, 'via': e.via()})
    # ---- R2 ------------------------------------------------------------------------------------
    with H.closure_calls_expanded():
        wd, ws, winfo = L.writer_suffix_table(prog, slw)
        if winfo.get('suffix_pushes') != 1 or winfo.get('odd') or winfo.get('name_parts') != ['NAME', 'SUFFIX']:
            # the same table on the normal form of the file-name pieces: the suffix as a function of the entry's behaviour
            # evaluated per variant (a lookup in a shared (behaviour, suffix) table = the `match`), literal text before it
            # folded into its arms (name + "." + suffix = name + ".suffix"); taken only when it decides the shape
            wd2, ws2, winfo2 = H.writer_suffix_table_nf(prog, slw)
            if winfo2.get('suffix_pushes') == 1 and not winfo2.get('odd') and winfo2.get('name_parts') == ['NAME', 'SUFFIX']:
                wd, ws, winfo = wd2, ws2, winfo2
    hd, rs, rinfo = H.reader_behaviour(prog, sl)
    rep.analysed(wd)
    wdw = '%s:%d' % (wd.file, wd.line)
    rep.extra['suffix_tables'] = {'writer': ws, 'reader': {str(k): v for k, v in rs.items()}}
    variants = [v['name'] for v in prog.adt(L.MB)['variants']]
    rep.check(sorted(variants) == sorted(SPEC_SUFFIX), 'R2', 'variants', wdw, 'ModificationBehavior has the five spec behaviours',
              'ModificationBehavior variants %s differ from the spec behaviours' % variants)
    if winfo.get('suffix_pushes') != 1 or winfo.get('odd'):
        rep.unproven('R2', 'writer/shape', wdw, 'file-name construction not recognised: %s' % {k: v for k, v in winfo.items() if k != 'push_call'})
    hdw = '%s:%d' % (hd.file, hd.line)
    if rinfo.get('odd') or rinfo.get('error'):
        rep.unproven('R2', 'reader/shape', hdw, 'what the reader inserts is not decided for every extension: %s'
                     % {k: v for k, v in rinfo.items() if k in ('odd', 'error')})
    undecided = rinfo.get('undecided', set())

    def rcheck(label, ok, subject, ok_msg, bad_msg):
        # a row the scenario evaluation could not decide is UNPROVEN under the row's own key, not a violation
        if label in undecided or rinfo.get('error'):
            rep.unproven('R2', subject, hdw, 'not decided: %s' % (rs.get(label),))
        else:
            rep.check(ok, 'R2', subject, hdw, ok_msg, bad_msg)
    wshape_odd = winfo.get('suffix_pushes') != 1 or winfo.get('odd')
    for v in SPEC_SUFFIX:
        if ws.get(v) is None and wshape_odd:
            rep.unproven('R2', 'writer/' + v, wdw, 'suffix of %s not decided: the file-name construction is not recognised' % v)
        else:
            rep.check(ws.get(v) == SPEC_SUFFIX[v], 'R2', 'writer/' + v, wdw, '%s -> %s' % (v, SPEC_SUFFIX[v]),
                      'writer uses suffix %r for %s, spec says %r' % (ws.get(v), v, SPEC_SUFFIX[v]))
        key = SPEC_SUFFIX[v][1:]
        rcheck(key, rs.get(key) == v, 'reader/' + v, '"%s" -> %s' % (key, v),
               'reader maps extension %r to %s, expected %s' % (key, rs.get(key), v))
    rcheck(None, rs.get(None) == 'Override', 'reader/no-extension', 'no extension => Override',
           'a file without extension reads as %s, the spec says override' % (rs.get(None),))
    rcheck('*', '*' in rs and rs.get('*') is None, 'reader/unknown-extension', 'unknown / non-UTF-8 extension => ignored',
           'unknown extensions are not ignored: %s' % (rs.get('*'),))
    # any further extension literal of the reader that makes it insert an entry is an undefined extension
    extra = [k for k in rs if k not in (None, '*') and ('.' + k) not in SPEC_SUFFIX.values()]
    rep.check(not extra, 'R2', 'reader/extra', hdw, 'reader accepts no further extensions', 'reader accepts undefined extensions %s' % extra)
    # the joined file name is <variable name> followed by <suffix>, nothing else
    pc = winfo.get('push_call')
    # (a piece that is neither the entry's name, nor a decided function of its behaviour, nor literal text is a computed
    # value the rule does not understand: the name is then undecided, not wrong)
    computed = [x for x in (winfo.get('name_parts') or ()) if x not in ('NAME', 'SUFFIX', 'SUFFIX-OF-ANOTHER-ENTRY') and not x.startswith("'")]
    if winfo.get('name_parts') != ['NAME', 'SUFFIX'] and (not winfo.get('name_parts') or computed or any(('vec-mutated' in x or x.startswith('?<')) for x in winfo['name_parts'])):
        rep.unproven('R2', 'writer/file-name', pc.where() if pc else wdw, 'the env file name is not decided (built from a value that is not modelled): %s' % winfo.get('name_parts'))
    else:
        rep.check(winfo.get('name_parts') == ['NAME', 'SUFFIX'], 'R2', 'writer/file-name', pc.where() if pc else wdw, 'file name = variable name + suffix',
                  'the env file name is built as %s, expected [NAME, SUFFIX]' % winfo.get('name_parts'))
    # ---- R3 ------------------------------------------------------------------------------------
    # stated on the interprocedural effects of the per-directory writer (removal / creation / writes may sit in its body,
    # in a private helper, or in a closure handed to try_for_each): each effect is located in the writer's CFG by the
    # block of the top-level call it is reached through; its guards are those of every level of the chain
    root = L.param_pred(wd, 1)
    weffs = []
    for e in E.expand(wd, 'may'):
        if e.kind in MUTATING and e.call is not None and not any(x.call is e.call and x.chain == e.chain for x in weffs):
            weffs.append(e)
    top_bb = lambda e: (e.chain[0].call if e.chain else e.call).bb
    rm = [e for e in weffs if e.kind == 'REMOVE_TREE' and e.path is not None and root(strip(e.path))]
    if len(rm) != 1:
        rep.violated('R3', 'dir-writer/remove', wdw, 'the per-directory writer does not remove its directory (found %d remove_dir_all on the path)' % len(rm))
    else:
        gs = [g for g in guards_of(E, rm[0]) if not (g[0].kind == 'variant' and g[0].enum == 'std::ops::ControlFlow') and not H.loop_ran_out(E, g[0], g[2])]
        exists = lambda val, oc: (oc is True and val[0] == 'call' and len(val[2]) == 1 and root(strip(val[2][0])) and
                                  val[1] in ('std::path::Path::exists', 'std::path::Path::try_exists', 'std::path::Path::is_dir'))
        only_exists = not gs or (len(gs) == 1 and gs[0][0].kind == 'bool' and any(exists(strip(val), oc) for val, oc in gs[0][1]))
        rep.check(only_exists, 'R3', 'dir-writer/remove-guard', rm[0].where(), 'removal is conditional only on the directory existing',
                  'removal of the old directory is conditional on more than its existence: %s' % [repr(g[0]) for g in gs])
        rm_bb = top_bb(rm[0])
        here = [g[0] for g in gs if g[0].fn is wd]
        sw = here[0].sw_bb if here else rm_bb
        for e in weffs:
            if e.kind in ('MKDIR', 'WRITE'):
                bb = top_bb(e)
                ok = wd.dominates(sw, bb) and bb not in wd.reachable(0, stop=[sw]) - {sw}
                after = rm_bb not in wd.reachable(bb)
                rep.check(ok and after, 'R3', 'dir-writer/order/' + e.call.name, e.where(), '%s happens after the removal point' % e.call.name.split('::')[-1],
                          '%s can happen before the old directory is removed' % e.call.name)
    # the per-directory writer runs on every base scope directory on every successful write (also when the new
    # delta is empty), and on env.launch before the per-process directories inside it
    with H.closure_calls_expanded():
        md = L.writer_must_dirs(prog, slw)
    base_must = [cs for cs, fa in md if not fa]
    for scope in ('all', 'build', 'launch'):
        want = SPEC_SCOPES[scope]
        rep.check(want in base_must, 'R3', 'layer-writer/unconditional/' + scope, wwhere,
                  '%s is rewritten on every successful write (also when the new delta is empty)' % '/'.join(want),
                  'the %s directory is not rewritten on every path: stale files of an earlier environment survive' % '/'.join(want))
    rep.check(any(len(cs) == 2 and cs[0] == 'env.launch' and fa for cs, fa in md), 'R3', 'layer-writer/unconditional/process[*]', wwhere,
              'every process scope is written on every successful write',
              'process scopes can be skipped (an early return / break inside the loop over self.process): which of them survive a rewrite depends on the map\'s iteration order')
    order = [cs for cs, fa in md]
    if ('env.launch',) in order:
        procs = [i for i, (cs, fa) in enumerate(md) if len(cs) == 2 and cs[0] == 'env.launch']
        rep.check(bool(procs) and order.index(('env.launch',)) < min(procs), 'R3', 'layer-writer/launch-before-process', wwhere,
                  'env.launch is rewritten before the per-process directories are created inside it',
                  'per-process directories are written before env.launch is wiped and recreated')
    # ---- R4 ------------------------------------------------------------------------------------
    # every file the per-directory writer can write (WRITE effects; `File::create(p)?.write_all(d)` carries d like
    # `fs::write(p, d)`): the data is as_bytes of the map value of the entry, the path is <dir>/<name>
    for e in weffs:
        if e.kind != 'WRITE':
            continue
        dv = strip(e.args[1]) if e.args and len(e.args) > 1 else ('unknown', 'no data attached to the created file')
        ok = False
        # (an owned / borrowed copy of the byte string is the same bytes: `as_bytes().to_vec()`, `into_vec()`, `as_slice()`)
        for _ in range(4):
            if dv[0] == 'call' and len(dv[2]) == 1 and dv[1] in BYTE_COPIES:
                dv = strip(dv[2][0])
        if dv[0] == 'call' and dv[1].endswith(RAW_BYTES) and len(dv[2]) == 1:
            coll, proj = L.loop_element(dv[2][0])
            ok = coll is not None and L.self_field(wd, coll) == 'entries' and proj == ('1',)
        if not ok and H.opaque(dv):
            rep.unproven('R4', 'writer/data', e.where(), 'written bytes not decided (taken from a value that is not modelled): ' + vstr(dv)[:120])
        else:
            rep.check(ok, 'R4', 'writer/data', e.where(), 'file content = as_bytes(map value), nothing else',
                      'written bytes are not the raw value: ' + vstr(dv)[:120])
        cs = L.comps(e.path, root) if e.path is not None else None
        if cs is None and e.path is not None:
            cs = L.comps(slw.inline_deep(e.path), root)
        rep.check(cs is not None and len(cs) == 1, 'R4', 'writer/file-path', e.where(), 'file is created directly inside the scope directory',
                  'file path is not <dir>/<name>: ' + vstr(e.path)[:120])
    # what reaches the delta insert (any scenario): name = stem of the entry's path, value = raw bytes of the same file
    if not rinfo.get('inserts'):
        rep.unproven('R4', 'reader/name', hdw, 'no insert into the delta is reached')
    rows = []
    for ic, _, kv0, vv0 in rinfo.get('inserts', ()):
        kv = strip(kv0)
        vv = strip(vv0)
        okk = kv[0] == 'call' and kv[1] == 'std::path::Path::file_stem' and len(kv[2]) == 1
        rd = strip(vv[2][0]) if (vv[0] == 'call' and vv[1].endswith('from_vec') and len(vv[2]) == 1) else None
        okv = bool(okk and rd is not None and rd[0] == 'call' and rd[1] == 'std::fs::read' and strip(rd[2][0]) == strip(kv[2][0]))
        rows.append((ic, okk, okv, kv, vv))
    for ic in {r[0] for r in rows}:
        mine = [r for r in rows if r[0] is ic]
        badk = [r for r in mine if not r[1]]
        badv = [r for r in mine if not r[2]]
        rep.check(not badk, 'R4', 'reader/name', ic.where(), 'variable name = file stem',
                  'variable name is not the file stem: ' + (H.show(badk[0][3])[:100] if badk else ''))
        rep.check(not badv, 'R4', 'reader/value', ic.where(), 'value = from_vec(fs::read(same file)), unmodified',
                  'read value is transformed: ' + (H.show(badv[0][4])[:140] if badv else ''))
    # ---- R5 ------------------------------------------------------------------------------------
    LP = LayerPaths(lambda v: False, lambda v: False, (L.param_pred(wf, 1),))
    n = 0
    for e in E.expand(wf, 'may'):
        if e.kind not in MUTATING:
            continue
        n += 1
        k = LP.classify(e.path)
        top = k
        chain = []
        while top is not None and top[0] in ('SUB', 'CHILD'):
            chain.append(top[2] if top[0] == 'SUB' else '*')
            top = top[1]
        first = chain[-1] if chain else None
        ok = top == ('DIR',) and first in ('env', 'env.build', 'env.launch')
        rep.check(ok, 'R5', 'writer/%s/%s@%s' % (e.call.fn.path.split('::')[-1], e.call.name, first), e.where(),
                  '%s below <layer>/%s' % (e.kind, first), '%s on %s: outside the env directories of the layer' % (e.kind, vstr(e.path)[:120]))
    rep.floor('R5', 'mutating_effects', n)
    new_obligations(ctx, rep, prog, sl, slw, E, wd, wf, rf, weffs, nested, root)


BYTE_COPIES = ('std::slice::<impl [T]>::to_vec', 'std::vec::Vec::<T, A>::as_slice', 'std::vec::Vec::<T>::from', 'std::slice::<impl [T]>::to_owned',
               'std::vec::Vec::<T, A>::into_boxed_slice')
RAW_BYTES = ('OsStrExt::as_bytes', 'OsStringExt::into_vec', 'std::ffi::OsStr::as_encoded_bytes', 'std::ffi::OsString::into_encoded_bytes')
DIR_TESTS = ('std::path::Path::is_dir', 'std::fs::FileType::is_dir', 'std::fs::Metadata::is_dir')
SCOPE_DIR_TESTS = ('std::path::Path::is_dir', 'std::path::Path::exists', 'std::path::Path::try_exists')


def _short(fn):
    return fn.path.split('::')[-1]


def new_obligations(ctx, rep, prog, sl, slw, E, wd, wf, rf, weffs, nested, root):
    from .lib.discard import result_fates, verdict
    wdw = '%s:%d' % (wd.file, wd.line)
    # ---- R3 (results) ---------------------------------------------------------------------------
    # the removal / creation / write only count when their failure is not silently dropped: at every level of the call
    # chain the Result is propagated (`?`, returned, matched with the error read) or panics
    seen = set()
    for e in weffs:
        for call in [l.call for l in e.chain] + [e.call]:
            if id(call) in seen or not (call.dty or '').startswith('std::result::Result<'):
                continue
            seen.add(id(call))
            vd = verdict(result_fates(prog, call.fn, call))
            subj = 'dir-writer/result/' + (call.name or '?').split('::')[-1]
            if vd == 'unproven':
                rep.unproven('R3', subj, call.where(), 'what happens to the Result of %s is not decided' % call.name)
            else:
                rep.check(vd in ('ok', 'panics'), 'R3', subj, call.where(), 'a failure of %s is propagated' % (call.name or '?').split('::')[-1],
                          'the Result of %s is discarded: when it fails the writer still reports success (stale files survive / files are missing)' % call.name)
    # ---- R6 writer -----------------------------------------------------------------------------
    is_entries = lambda v: H._is_entries(wd, v)
    writes = [e for e in weffs if e.kind == 'WRITE']
    covered = set()
    all_variants = {v['name'] for v in prog.adt(L.MB)['variants']}
    for e in writes:
        found, probs, unknown = H.completeness(E, e, is_entries)
        if found:
            probs = probs + H.per_iteration(E, e, is_entries)
        if probs:
            rep.violated('R6', 'writer/every-entry', e.where(), 'not every entry of the delta is written: ' + '; '.join(sorted(set(probs))))
        elif unknown or not found:
            rep.unproven('R6', 'writer/every-entry', e.where(), 'the file write is not recognised as running once per entry of self.entries: %s'
                         % ('; '.join(unknown) or 'no iteration over self.entries around it'))
        else:
            rep.holds('R6', 'writer/every-entry', e.where(), 'one file is written for every entry of self.entries (no filter, no early exit)')
        gu = []
        gp, variants = H.write_guard_problems(E, e, wd, gu)
        if gu and not gp:
            rep.unproven('R6', 'writer/entry-guards', e.where(), 'the write of an entry is conditional on %s, a test of a value that is not modelled' % gu)
        else:
            rep.check(not gp, 'R6', 'writer/entry-guards', e.where(), 'the write of an entry is conditional on nothing but earlier successes',
                      'the write of an entry is conditional on %s: entries for which it does not hold are silently not persisted' % (gp + gu))
        covered |= (all_variants if variants is None else variants)
    if not writes:
        rep.unproven('R6', 'writer/every-entry', wdw, 'no file write among the effects of the per-directory writer')
    else:
        rep.check(covered >= all_variants, 'R6', 'writer/behaviours', wdw, 'entries of every modification behaviour are written',
                  'entries with behaviour %s are never written' % sorted(all_variants - covered))
    mk = [e for e in weffs if e.kind == 'MKDIR']
    if not mk:
        rep.unproven('R6', 'writer/mkdir-recursive', wdw, 'no directory creation recognised in the per-directory writer')
    for e in mk:
        # (create_dir_all, or a DirBuilder configured with recursive(true); a builder whose configuration is not read off
        # its value is undecided, not a breach)
        rec = H.mkdir_recursive(slw, e)
        if rec is None and nested:
            rep.unproven('R6', 'writer/mkdir-recursive', e.where(), 'whether %s creates missing parents is not decided (builder configuration not recognised)' % e.call.name)
            continue
        rep.check(rec or not nested, 'R6', 'writer/mkdir-recursive', e.where(), 'scope directories are created with their missing parents',
                  '%s creates one level only, but %s lives inside a scope directory that is not created when its own delta is empty: '
                  'writing an environment with process entries and no launch entries fails' % (e.call.name, nested))
    # ---- R6 / R1 reader ------------------------------------------------------------------------
    h = prog.fn(L.R_DIR)
    hdw = '%s:%d' % (h.file, h.line)
    Ei = Effects(prog, sl, vocab={L.INSERT: ('INSERT', None), H.PUSH: ('PUSH', 0)})
    hroot = L.param_pred(h, 0)

    def listing_of(pred):
        def f(v):
            t = strip(v)
            return t[0] == 'call' and t[1] == 'std::fs::read_dir' and len(t[2]) == 1 and pred(t[2][0])
        return f
    ins = [e for e in Ei.expand(h, 'may') if e.kind == 'INSERT']
    if not ins:
        rep.unproven('R6', 'reader/every-file', hdw, 'no insert into the delta among the effects of the per-directory reader')
    for e in ins:
        # (the insert may run in a second phase, over a Vec that the listing loop fills with one push per file: the
        # obligations then hold for the push as well as for the insert)
        found, probs, unknown, relays = H.completeness_relay(Ei, e, listing_of(lambda a: hroot(strip(a))), h, allow_filter='file-type')
        if probs:
            rep.violated('R6', 'reader/every-file', e.where(), 'not every file of the directory is read: ' + '; '.join(sorted(set(probs))))
        elif unknown or not found:
            rep.unproven('R6', 'reader/every-file', e.where(), 'the insert is not recognised as running for every listed file: %s'
                         % ('; '.join(unknown) or 'no iteration over read_dir(<directory>) around it'))
        else:
            rep.holds('R6', 'reader/every-file', e.where(), 'the listing of the directory is visited to exhaustion')
        cg = H.content_guards(Ei, e)
        for pe in relays:
            cg = cg + [c for c in H.content_guards(Ei, pe) if c not in cg]
        rep.check(not cg, 'R6', 'reader/entry-guards', e.where(), 'whether a file becomes an entry does not depend on its content',
                  'whether a file becomes an entry depends on its content (%s): a written entry with such a value does not read back' % [repr(c) for c in cg])
    # under every extension scenario that yields an entry: a listed entry that is not a directory cannot be passed over
    # (a name- or content-dependent `continue`, a None smuggled into the behaviour) — evaluated on the scenario-pruned CFG
    _, rs6, rinfo6 = H.reader_behaviour(prog, sl)
    mi_probs, mi_unknown = [], []
    for ext in [None] + [x[1:] for x in SPEC_SUFFIX.values()]:
        if ext in rinfo6.get('undecided', set()) or rinfo6.get('error') or not isinstance(rs6.get(ext), str):
            continue     # that row is already reported under R2
        p6, u6 = H.must_insert(prog, sl, Ei, h, ext, listing_of(lambda a: hroot(strip(a))))
        mi_probs += ['extension %r: %s' % (ext, x) for x in p6]
        mi_unknown += ['extension %r: %s' % (ext, x) for x in u6]
    if mi_probs:
        rep.violated('R6', 'reader/must-insert', hdw, 'a spec-shaped env file does not always become an entry: ' + '; '.join(sorted(set(mi_probs)))[:600])
    elif mi_unknown:
        rep.unproven('R6', 'reader/must-insert', hdw, 'not decided that every env file becomes an entry: ' + '; '.join(sorted(set(mi_unknown)))[:600])
    else:
        rep.holds('R6', 'reader/must-insert', hdw, 'for no extension / each of the five suffixes every listed non-directory entry reaches the insert')
    rroot = L.param_pred(rf, 0)
    Ed = Effects(prog, sl, vocab={L.R_DIR: ('READ_ENV_DIR', 0)})
    launch = lambda a: L.comps(a, rroot) == ('env.launch',)
    listed = 0
    for e in Ed.expand(rf, 'may'):
        if e.kind != 'READ_ENV_DIR' or e.path is None:
            continue
        pv = strip(e.path)
        base_cs = L.comps(pv, rroot)
        if base_cs is not None:
            # a base scope directory is read iff it exists: every boolean decision the read runs under is an existence
            # test of that directory itself (or of a directory above it)
            scope = {v: k for k, v in SPEC_SCOPES.items()}.get(tuple(base_cs), '/'.join(map(str, base_cs)))
            bad, odd = [], []
            for cd, views, _ in guards_of(Ed, e):
                if cd.kind != 'bool':
                    continue
                ok = other = False
                for val, oc in views:
                    val = strip(val)
                    if val[0] == 'call' and len(val[2]) == 1 and (val[1] in SCOPE_DIR_TESTS or val[1] in H.FILE_TESTS):
                        tcs = L.comps(val[2][0], rroot)
                        if val[1] in SCOPE_DIR_TESTS and oc is True and tcs is not None and tuple(tcs) == tuple(base_cs)[:len(tcs)]:
                            ok = True
                        else:
                            other = True
                if not ok:
                    (bad if other else odd).append(repr(cd))
            dirname = '/'.join(map(str, base_cs))
            if bad or not odd:
                rep.check(not bad, 'R1', 'reader/scope-guard/' + scope, e.where(), 'the %s directory is read whenever it exists' % dirname,
                          'reading %s depends on a file-system test of something else / with another outcome (%s): an environment persisted there '
                          'is not read back when that does not hold' % (dirname, bad))
            else:
                rep.unproven('R1', 'reader/scope-guard/' + scope, e.where(), 'reading %s is conditional on %s, not recognised as an existence test of that directory' % (dirname, odd))
            continue
        ents = H.entry_elements(pv)
        if not ents:
            rep.unproven('R1', 'reader/process-dir-test', e.where(), 'directory read is neither a scope directory nor a listed entry: ' + vstr(pv)[:100])
            continue
        listed += 1
        ok = False
        foreign, odd = [], []
        for cd, views, _ in guards_of(Ed, e):
            if cd.kind == 'bool':
                known = False
                for val, oc in views:
                    val = strip(val)
                    if val[0] == 'call' and val[1] in DIR_TESTS and oc is True and (H.entry_elements(val) & ents):
                        ok = known = True
                    elif val[0] == 'call' and len(val[2]) == 1 and val[1] in SCOPE_DIR_TESTS and oc is True:
                        tcs = L.comps(val[2][0], rroot)
                        if tcs is not None and tuple(tcs) == ('env.launch',)[:len(tcs)]:
                            known = True
                if not known:
                    # a decision that does not even look at the entry cannot be `is this a process directory`
                    (odd if any(H.entry_elements(val) & ents for val, _ in views) else foreign).append(repr(cd))
        if foreign:
            rep.violated('R6', 'reader/process-guards', e.where(), 'whether a sub-directory of env.launch is read as a process environment depends on %s, '
                         'which is not a property of that directory: process environments are silently not read back when it does not hold' % foreign)
        elif odd:
            rep.unproven('R6', 'reader/process-guards', e.where(), 'the process read is conditional on %s, not recognised as a directory test' % odd)
        else:
            rep.holds('R6', 'reader/process-guards', e.where(), 'every sub-directory of env.launch is read as a process environment (no further condition)')
        rep.check(ok, 'R1', 'reader/process-dir-test', e.where(), 'only entries that are directories are read as process environments',
                  'an entry of env.launch is read as a process directory without testing that it is a directory: '
                  'reading an environment with launch-scope files fails (ENOTDIR)')
        found, probs, unknown = H.completeness(Ed, e, listing_of(launch), allow_filter='file-type')
        if probs:
            rep.violated('R6', 'reader/every-process-dir', e.where(), 'not every process directory is read: ' + '; '.join(sorted(set(probs))))
        elif unknown or not found:
            rep.unproven('R6', 'reader/every-process-dir', e.where(), 'the process read is not recognised as running for every entry of env.launch: %s'
                         % ('; '.join(unknown) or 'no iteration over read_dir(<layer>/env.launch) around it'))
        else:
            rep.holds('R6', 'reader/every-process-dir', e.where(), 'the listing of env.launch is visited to exhaustion')
    if nested and not listed:
        rep.unproven('R6', 'reader/every-process-dir', '%s:%d' % (rf.file, rf.line), 'no per-directory read of a listed entry of env.launch found')
    # the keys under which the result of one per-directory read (one call site, one listed entry) is stored: the read may
    # be seen both as the value assigned to the field (through the private helper that returns the filled map: no key at
    # that level) and at the helper's own inserts (with the key) — the obligation is on the union of the keys of that read
    groups = {}
    for sc, f, bb, pv, kvs, site in H.LISTED_KEYS:
        g = groups.setdefault((sc, site, canon(pv)), [f, pv, []])
        for k in kvs:
            if k is not None and not any(canon(k) == canon(o) for o in g[2]):
                g[2].append(k)
    for (sc, site, _), (f, pv, kvs) in groups.items():
        where = '%s:%d' % (f.file, f.line)
        ks = [k[1][0] if (k[0] == 'tuple' and len(k[1]) == 2) else k for k in kvs]
        if not ks:
            rep.unproven('R1', 'reader/process-key', where, 'key under which a listed process directory is stored is not recognised')
            continue
        for k in ks:
            pk = H.peel_name(sl, k)
            ok = pk[0] == 'call' and pk[1] == 'std::path::Path::file_name' and len(pk[2]) == 1 and strip(pk[2][0]) == pv
            rep.check(ok, 'R1', 'reader/process-key', where, 'process name = name of the directory, unmodified',
                      'the process name is not the unmodified directory name: ' + vstr(k)[:120])
    # ---- R7 anchor callers ---------------------------------------------------------------------------------
    Ec = Effects(prog, sl, vocab={L.W_LAYER: ('WRITE_ENV', 1), L.R_LAYER: ('READ_ENV', 0)})
    callers = prog.callers()
    tops = []
    ncall = 0
    for nm in (L.W_LAYER, L.R_LAYER):
        for c in callers.get(nm, []):
            f = c.fn
            if f.crate != wf.crate:
                continue
            ncall += 1
            top = f
            while top.kind == 'Closure' and top.parent in prog.fns:
                top = prog.fns[top.parent]
            if top not in tops:
                tops.append(top)
            if nm != L.W_LAYER:
                continue
            subj = _short(top)
            if f.kind == 'Closure':
                rep.unproven('R7', subj + '/unconditional', c.where(), 'write_to_layer_dir is called from a closure')
                continue
            sites = [s.bb for s in Ec.sites(f)]
            must = [x for x, _ in Ec.must_calls(f, sites)]
            rep.check(any(x is c for x in must), 'R7', subj + '/unconditional', c.where(), 'the layer env is written on every successful path',
                      'write_to_layer_dir is skipped on some successful path of %s: the files of a previously written environment survive' % _short(f))
            vd = verdict(result_fates(prog, f, c))
            if vd == 'unproven':
                rep.unproven('R7', subj + '/result', c.where(), 'what happens to the Result of write_to_layer_dir is not decided')
            else:
                rep.check(vd in ('ok', 'panics'), 'R7', subj + '/result', c.where(), 'a failed env write is propagated',
                          'the Result of write_to_layer_dir is discarded')
    rep.check(ncall >= 4, 'R7', 'callers', '%s:%d' % (wf.file, wf.line), '%d call sites of the layer env writer / reader in libcnb analysed' % ncall,
              'only %d call sites of write_to_layer_dir / read_from_layer_dir found in libcnb (struct_api and trait_api each have a writer and a reader)' % ncall)
    is_base = lambda v: v[0] in ('param', 'field')
    for top in tops:
        rep.analysed(top)
        for e in Ec.expand(top, 'may'):
            if e.kind not in ('WRITE_ENV', 'READ_ENV') or e.path is None:
                continue
            d = sl.inline_deep(e.path)
            cs = L.comps(d, is_base)
            ok = cs is not None and len(cs) == 1 and not isinstance(cs[0], str)
            rep.check(ok, 'R7', '%s/layer-dir' % _short(top), e.where(), 'the env is %s <layers_dir>/<layer name>' % ('written to' if e.kind == 'WRITE_ENV' else 'read from'),
                      'the directory handed to %s is not <layers_dir>/<layer name>: %s' % (e.call.name.split('::')[-1], vstr(d)[:120]))
