"""C03 — layer env on-disk layout and read-back.

Decided structurally:
  R1 scope/dir table   writer table (scope -> directory) = reader table = CNB spec table; a scope the
                       writer persists and the reader never reads (or vice versa) is a violation; where
                       the writer nests a scope directory inside another scope's directory, the per-file
                       read of the outer directory must be guarded by a file-type test (skip directories)
  R2 suffix table      writer {behaviour -> suffix} = inverse of the reader's string match = spec;
                       no extension => Override; unknown / non-UTF-8 extension => entry ignored
  R3 stale removal     the per-directory writer removes the directory (guarded only by its existence)
                       before anything is created; the layer writer invokes it unconditionally for the
                       three base scopes, and env.launch is written before the per-process directories
  R4 raw bytes         written bytes = as_bytes(map value); read value = from_vec(fs::read(file)),
                       variable name = file stem
  R5 confinement       all mutating effects of the writer are below <layer>/{env,env.build,env.launch}
Not decided: byte-exact file names for exotic variable names (std::path stem/extension splitting),
"applies identically" at the value level, non-unix targets.
"""
from . import layer_env_common as L
from .lib.effects import Effects, MUTATING
from .lib.guards import conditions
from .lib.paths import strip, LayerPaths
from .lib.value import vstr, walk

SPEC_SCOPES = {'all': ('env',), 'build': ('env.build',), 'launch': ('env.launch',), 'process[*]': ('env.launch', '<key>')}
SPEC_SUFFIX = {'Append': '.append', 'Default': '.default', 'Delimiter': '.delim', 'Override': '.override', 'Prepend': '.prepend'}
FILE_TESTS = {'std::path::Path::is_dir': False, 'std::path::Path::is_file': True, 'std::fs::FileType::is_dir': False,
              'std::fs::FileType::is_file': True, 'std::fs::Metadata::is_dir': False, 'std::fs::Metadata::is_file': True}


def run(ctx, rep):
    prog, sl = ctx.prog, ctx.slicer
    L.resolve_roles(prog, sl)
    rep.rule('R1', 'scope -> directory table: writer = reader = spec; nested scope directories are skipped by the per-file reader')
    rep.rule('R2', 'behaviour <-> suffix table: writer = reader^-1 = spec; no extension => Override; unknown => ignored')
    rep.rule('R3', 'stale files: directory removed before (re)creation, unconditionally for all base scopes, launch before process dirs')
    rep.rule('R4', 'raw bytes: written data = as_bytes(value); read value = from_vec(fs::read(file)); name = file stem')
    rep.rule('R5', 'writer effects confined to <layer>/{env, env.build, env.launch}')
    rep.not_decided = ['file-name splitting for exotic variable names (delegated to std::path)',
                       'equality of apply() results at the value level', 'non-unix cfg branches']
    E = Effects(prog, sl)
    # ---- R1 ------------------------------------------------------------------------------------
    wf, wt, wcalls = L.writer_scope_table(prog, sl)
    rf, rt, rdetail = L.reader_scope_table(prog, sl)
    rep.analysed(wf)
    rep.analysed(rf)
    wwhere = '%s:%d' % (wf.file, wf.line)
    rwhere = '%s:%d' % (rf.file, rf.line)
    rep.extra['scope_tables'] = {'writer': {k: list(map(str, v or [])) for k, v in wt.items()},
                                 'reader': {k: list(map(str, v or [])) for k, v in rt.items()},
                                 'spec': {k: list(v) for k, v in SPEC_SCOPES.items()}}
    for e, scope, cs, _, pathv in wcalls:
        if scope is None or cs is None:
            rep.unproven('R1', 'writer/unrecognised-write', e.where(), 'file write whose delta / directory is not recognised: %s (%s)' % (vstr(pathv)[:100], e.via()))
    for scope, want in SPEC_SCOPES.items():
        got = wt.get(scope)
        rep.check(got == want, 'R1', 'writer/' + scope, wwhere, 'scope %s is written to %s' % (scope, '/'.join(want)),
                  'writer persists scope %s in %s, the spec says %s' % (scope, got, '/'.join(want)))
        gotr = rt.get(scope)
        if scope in wt and scope not in rt:
            rep.violated('R1', 'reader/' + scope, rwhere,
                         'scope %s is written to %s by write_to_layer_dir but never read back by read_from_layer_dir: '
                         'a written environment does not read back unchanged' % (scope, '/'.join(map(str, wt[scope] or ()))),
                         {'writer': rep.extra['scope_tables']['writer'], 'reader': rep.extra['scope_tables']['reader']})
        else:
            rep.check(gotr == want, 'R1', 'reader/' + scope, rwhere, 'scope %s is read from %s' % (scope, '/'.join(want)),
                      'reader takes scope %s from %s, the spec says %s' % (scope, gotr, '/'.join(want)))
    for scope in set(wt) | set(rt):
        if scope not in SPEC_SCOPES:
            rep.violated('R1', 'extra/' + scope, wwhere, 'scope %s is not in the spec table' % scope)
    # nested directories must be skipped by the per-file reader of the outer directory
    nested = [s for s, cs in wt.items() if cs and len(cs) > 1 and any(o != s and wt[o] == cs[:-1] for o in wt)]
    h = prog.fn(L.R_DIR)
    rep.analysed(h)
    reads = [c for c in h.calls if c.is_('std::fs::read', 'std::fs::read_to_string')]
    if not reads:
        rep.unproven('R1', 'reader/per-file-read', '%s:%d' % (h.file, h.line), 'no fs::read in the per-directory reader')
    for c in reads:
        pv = sl.operand(h, c.args[0])
        guards = []
        for cd in conditions(h, c.bb, sl):
            if cd.kind == 'bool' and cd.value[0] == 'call' and FILE_TESTS.get(cd.value[1]) == cd.outcome:
                guards.append(cd)
        if nested:
            rep.check(bool(guards), 'R1', 'reader/skip-directories', c.where(),
                      'per-file read is guarded by a file-type test (%s)' % (guards and guards[0].value[1]),
                      'the writer creates %s inside a directory that the reader reads file by file, but the read of each entry is not '
                      'guarded by a file-type test: reading back a written per-process environment fails with EISDIR' % nested,
                      {'nested_scopes': nested})
    # ---- R2 ------------------------------------------------------------------------------------
    wd, ws, winfo = L.writer_suffix_table(prog, sl)
    hd, rs, rinfo = L.reader_suffix_table(prog, sl)
    rep.analysed(wd)
    wdw = '%s:%d' % (wd.file, wd.line)
    rep.extra['suffix_tables'] = {'writer': ws, 'reader': {str(k): v for k, v in rs.items()}}
    variants = [v['name'] for v in prog.adt(L.MB)['variants']]
    rep.check(sorted(variants) == sorted(SPEC_SUFFIX), 'R2', 'variants', wdw, 'ModificationBehavior has the five spec behaviours',
              'ModificationBehavior variants %s differ from the spec behaviours' % variants)
    if winfo.get('suffix_pushes') != 1 or winfo.get('odd'):
        rep.unproven('R2', 'writer/shape', wdw, 'file-name construction not recognised: %s' % {k: v for k, v in winfo.items() if k != 'push_call'})
    if rinfo.get('insert_calls') != 1 or rinfo.get('odd') or rinfo.get('error'):
        rep.unproven('R2', 'reader/shape', '%s:%d' % (hd.file, hd.line), 'behaviour match not recognised: %s' % {k: v for k, v in rinfo.items() if k != 'insert'})
    for v in SPEC_SUFFIX:
        rep.check(ws.get(v) == SPEC_SUFFIX[v], 'R2', 'writer/' + v, wdw, '%s -> %s' % (v, SPEC_SUFFIX[v]),
                  'writer uses suffix %r for %s, spec says %r' % (ws.get(v), v, SPEC_SUFFIX[v]))
        key = SPEC_SUFFIX[v][1:]
        rep.check(rs.get(key) == v, 'R2', 'reader/' + v, '%s:%d' % (hd.file, hd.line), '"%s" -> %s' % (key, v),
                  'reader maps extension %r to %s, expected %s' % (key, rs.get(key), v))
    rep.check(rs.get(None) == 'Override', 'R2', 'reader/no-extension', '%s:%d' % (hd.file, hd.line), 'no extension => Override',
              'a file without extension reads as %s, the spec says override' % rs.get(None))
    rep.check('*' in rs and rs.get('*') is None, 'R2', 'reader/unknown-extension', '%s:%d' % (hd.file, hd.line), 'unknown / non-UTF-8 extension => ignored',
              'unknown extensions are not ignored: %s' % (rs.get('*'),))
    extra = [k for k in rs if k not in (None, '*') and ('.' + k) not in SPEC_SUFFIX.values()]
    rep.check(not extra, 'R2', 'reader/extra', '%s:%d' % (hd.file, hd.line), 'reader accepts no further extensions', 'reader accepts undefined extensions %s' % extra)
    # the joined file name is <variable name> followed by <suffix>, nothing else
    pc = winfo.get('push_call')
    rep.check(winfo.get('name_parts') == ['NAME', 'SUFFIX'], 'R2', 'writer/file-name', pc.where() if pc else wdw, 'file name = variable name + suffix',
              'the env file name is built as %s, expected [NAME, SUFFIX]' % winfo.get('name_parts'))
    # ---- R3 ------------------------------------------------------------------------------------
    root = L.param_pred(wd, 1)
    rm = [c for c in wd.calls if c.is_('std::fs::remove_dir_all') and root(strip(sl.operand(wd, c.args[0])))]
    if len(rm) != 1:
        rep.violated('R3', 'dir-writer/remove', wdw, 'the per-directory writer does not remove its directory (found %d remove_dir_all on the path)' % len(rm))
    else:
        conds = [cd for cd in conditions(wd, rm[0].bb, sl) if not (cd.kind == 'variant' and cd.enum == 'std::ops::ControlFlow')]
        only_exists = (len(conds) == 1 and conds[0].kind == 'bool' and conds[0].outcome is True and conds[0].value[0] == 'call'
                       and conds[0].value[1] in ('std::path::Path::exists', 'std::path::Path::try_exists', 'std::path::Path::is_dir')
                       and root(strip(conds[0].value[2][0]))) or not conds
        rep.check(only_exists, 'R3', 'dir-writer/remove-guard', rm[0].where(), 'removal is conditional only on the directory existing',
                  'removal of the old directory is conditional on more than its existence: %s' % [repr(c) for c in conds])
        sw = conds[0].sw_bb if conds else rm[0].bb
        for c in wd.calls:
            if c.is_('std::fs::create_dir_all', 'std::fs::create_dir', 'std::fs::write', 'std::fs::File::create'):
                ok = wd.dominates(sw, c.bb) and c.bb not in wd.reachable(0, stop=[sw]) - {sw}
                after = rm[0].bb not in wd.reachable(c.bb)
                rep.check(ok and after, 'R3', 'dir-writer/order/' + c.name, c.where(), '%s happens after the removal point' % c.name.split('::')[-1],
                          '%s can happen before the old directory is removed' % c.name)
    # the per-directory writer runs on every base scope directory on every successful write (also when the new
    # delta is empty), and on env.launch before the per-process directories inside it
    md = L.writer_must_dirs(prog, sl)
    base_must = [cs for cs, fa in md if not fa]
    for scope in ('all', 'build', 'launch'):
        want = SPEC_SCOPES[scope]
        rep.check(want in base_must, 'R3', 'layer-writer/unconditional/' + scope, wwhere,
                  '%s is rewritten on every successful write (also when the new delta is empty)' % '/'.join(want),
                  'the %s directory is not rewritten on every path: stale files of an earlier environment survive' % '/'.join(want))
    order = [cs for cs, fa in md]
    if ('env.launch',) in order:
        procs = [i for i, (cs, fa) in enumerate(md) if len(cs) == 2 and cs[0] == 'env.launch']
        rep.check(bool(procs) and order.index(('env.launch',)) < min(procs), 'R3', 'layer-writer/launch-before-process', wwhere,
                  'env.launch is rewritten before the per-process directories are created inside it',
                  'per-process directories are written before env.launch is wiped and recreated')
    # ---- R4 ------------------------------------------------------------------------------------
    for c in wd.calls:
        if c.is_('std::fs::write'):
            dv = strip(sl.operand(wd, c.args[1]))
            ok = False
            if dv[0] == 'call' and dv[1].endswith('as_bytes') and len(dv[2]) == 1:
                coll, proj = L.loop_element(dv[2][0])
                ok = coll is not None and L.self_field(wd, coll) == 'entries' and proj == ('1',)
            rep.check(ok, 'R4', 'writer/data', c.where(), 'file content = as_bytes(map value), nothing else',
                      'written bytes are not the raw value: ' + vstr(dv)[:120])
            cs = L.comps(sl.operand(wd, c.args[0]), root)
            rep.check(cs is not None and len(cs) == 1, 'R4', 'writer/file-path', c.where(), 'file is created directly inside the scope directory',
                      'file path is not <dir>/<name>: ' + vstr(sl.operand(wd, c.args[0]))[:120])
    if rinfo.get('insert') is not None:
        ic = rinfo['insert']
        kv = strip(sl.operand(hd, ic.args[2]))
        vv = strip(sl.operand(hd, ic.args[3]))
        okk = kv[0] == 'call' and kv[1] == 'std::path::Path::file_stem'
        okv = (vv[0] == 'call' and vv[1].endswith('from_vec') and strip(vv[2][0])[0] == 'call' and strip(vv[2][0])[1] == 'std::fs::read'
               and strip(strip(vv[2][0])[2][0]) == strip(kv[2][0]) if okk else False)
        rep.check(okk, 'R4', 'reader/name', ic.where(), 'variable name = file stem', 'variable name is not the file stem: ' + vstr(kv)[:100])
        rep.check(okv, 'R4', 'reader/value', ic.where(), 'value = from_vec(fs::read(same file)), unmodified',
                  'read value is transformed: ' + vstr(vv)[:140])
    # ---- R5 ------------------------------------------------------------------------------------
    LP = LayerPaths(lambda v: False, lambda v: False, (L.param_pred(wf, 1),))
    n = 0
    for e in E.expand(wf, 'may'):
        if e.kind not in MUTATING:
            continue
        n += 1
        k = LP.classify(e.path)
        top = k
        chain = []
        while top is not None and top[0] in ('SUB', 'CHILD'):
            chain.append(top[2] if top[0] == 'SUB' else '*')
            top = top[1]
        first = chain[-1] if chain else None
        ok = top == ('DIR',) and first in ('env', 'env.build', 'env.launch')
        rep.check(ok, 'R5', 'writer/%s/%s@%s' % (e.call.fn.path.split('::')[-1], e.call.name, first), e.where(),
                  '%s below <layer>/%s' % (e.kind, first), '%s on %s: outside the env directories of the layer' % (e.kind, vstr(e.path)[:120]))
    rep.floor('R5', 'mutating_effects', n)
