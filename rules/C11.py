"""C11 — deleting or recreating a layer never touches anything outside that layer.

Decided structurally:
  R1 no-follow precondition  every function on the delete path that applies symlink-following
                             operations (chmod via set_permissions, read_dir) to a path it received
                             either tests that path itself without following links before those
                             operations, or every one of its call sites establishes "real directory" by
                             a no-follow type test of the directory entry the path came from
  R1b recursion by entry type descending into a child happens only under the entry's own (no-follow)
                             is_dir() == true; everything else is unlinked (remove_file does not follow)
  R2 confinement             all mutating effects of the recursive remover are on its argument or on
                             entries listed from it; all mutating effects of delete_layer are inside the
                             layer's path classes
  R3 completeness            delete_layer removes DIR, TOML and the SBOM file of every format
  R2 sbom-path / recreate    the SBOM path constructor the path classes rely on really is join(dir, name ++ ".sbom." ++ one distinct
                             suffix per format) (no extension *replacing*); every mutating effect of the public layer entry
                             points on the executions that create / recreate the layer (incl. read_layer's normalisation and the
                             writers of the create half) stays inside the layer's path classes
  R4 permission fixing       every directory listing on the delete path is preceded by a CHMOD of the same directory (same
                             function, combinator receiver, helper, or every call site) giving the owner rwx; std's
                             remove_dir_all (no permission fixing) is not used on the layer
  R5 recreate decisions      in the functions that branch on RestoredLayerAction / InvalidMetadataAction / ExistingLayerStrategy /
                             MetadataMigration: every way from the "throw it away" edge to a successful return runs checked calls
                             whose MUST effects (entry terms) remove DIR, TOML and every SBOM format of this layer; uncached_layer's
                             callbacks are the constant DeleteLayer
Not decided: TOCTOU races between the type test and the operation; kernel semantics; non-unix cfg branches; which error
kinds the NotFound-tolerant wrapper swallows (C12).

The obligations are stated on effects and path classes, not on the recursive spelling (C11_helpers):
  * "the remover" is every function that applies CHMOD / LIST to a path it received, itself or through the functions
    it hands that path to; a *descent* is any call that hands such a function an entry of the directory being emptied
    (the recursive call, or opening a child for an explicit work list) — R1b / R2 recursion-arg are checked on those;
  * an iterative remover keeps the directories being emptied in a work list: the invariant "every element is inside
    the tree of the argument" is proved by induction over the pushes and reads of the list then stand for a
    representative element (MAY facts: R1b, R2); R3 is derived on the plain values from "the list is empty at the
    success site, every pop is followed by a checked removal" and from alternatives of a helper's outcome that agree;
  * listings opened by a private helper and paths taken out of values built by private helpers are read through
    their normal forms (inline_deep / mk_unwrap);
  * "plan, then execute": a list that is built (push / extend / push inside a `for` over a literal table) and then only
    read is the equivalent iterator expression once(a).chain(xs.map(f)) (H.built_lists, seeded into the slicer), and a
    loop over what a private helper returns is a loop over that helper's list (H.EffectsC) — R2 / R3 / R5 see the same
    per-element effects as for the loop written in place; a conditional build step only contributes MAY elements;
  * MUST effects are context-sensitive like MAY effects (H.EffectsC): `executor(Plan::Recreate(..))` has the MUST effects
    of the executor's Recreate arm; a recreate decision that is re-encoded as data — by a match producing a private enum,
    by a closure handed to Result::map, by a private helper fn — is followed to where the data is consumed: the decision
    is located at the call that runs the re-encoder, calls that are handed the table are judged with the row of the
    decision variant, switches on the table are decision switches (H.recreate_decisions);
  * `p = base.to_path_buf(); p.push(name)` is `base.join(name)` — only when the appended-to local is a PathBuf
    (OsString::push / String::push_str add no separator) (H.path_pushes_as_join for the SBOM constructor; H.pathbuf_joins
    seeds the slicer with the join chain for every PathBuf local that is defined once and then only pushed onto, each
    push running exactly once before every read — a push that accumulates round a loop keeps its concat reading);
  * "an entry of directory D" is a *value class*, not the spelling `entry.path()`: `D.join(entry.file_name())` with
    `entry` listed from the same D is `entry.path()` by std's definition (H.entry_paths_nf; byte-preserving
    OsString/OsStr/Path conversions of the name are transparent, lossy ones and joins to any other directory are not);
    "listed from D" looks through `?`, Some/Ok, `Option<Result>::transpose`, by_ref/peekable/fuse and private helpers
    that open or advance the listing (H.listing_dirs); the no-follow type test of an entry discharges R1 / R1b for
    every spelling of that entry's path, also behind a private path-building helper;
  * for a work list of (directory, its listing) pairs "the listing component lists the path component" is part of the
    proved invariant (Worklist.validate), so the same reading holds for `current.join(entry.file_name())` on the element
    on top of the stack; a hand-over to a function that only passes the path on (`remove_entry(&path, file_type)`) is
    guarded when every way from there to a real CHMOD / LIST function runs under the entry's no-follow test (guards_of
    at every level of the chain, in the remover's terms);
  * R1b unlink-guard is a cut condition, not "the else branch": every way to the remove_file — from the function's
    entry and from the call itself round the loop — crosses an edge that says "not a real directory" about this entry
    (is_dir() == false, is_symlink() == true, is_file() == true), so `is_symlink() || !is_dir()` and
    `match (is_dir(), is_symlink())` are the same guard as `if is_dir() {..} else {..}`.
"""
from .lib.effects import Effects, MUTATING, guards_of, vocab_lookup
from .lib.guards import conditions, conditions_ctx
from .lib.paths import sbom_formats_covered, LayerPaths, cls_str, strip, _listed_from
from .lib.value import vstr, walk
from . import C11_helpers as H
from .C11_helpers import FOLLOWING       # CHMOD, LIST: operate on the link target

NOFOLLOW_TRUE = {'std::fs::FileType::is_dir': True, 'std::fs::Metadata::is_dir': True,
                 'std::fs::FileType::is_symlink': False, 'std::fs::Metadata::is_symlink': False,
                 'std::path::Path::is_symlink': False}
NOFOLLOW_NOT_DIR = {'std::fs::FileType::is_dir': False, 'std::fs::Metadata::is_dir': False,
                    'std::fs::FileType::is_symlink': True, 'std::fs::Metadata::is_symlink': True,
                    'std::path::Path::is_symlink': True,
                    # the kinds of a FileType are mutually exclusive: a regular file is not a directory
                    'std::fs::FileType::is_file': True, 'std::fs::Metadata::is_file': True}


_SL = [None]     # slicer of the current run: path values are compared in their normal form (H.entry_paths_nf)


def _nofollow_root(v, path_value):
    """does boolean test value `v` rest on a no-follow stat of `path_value` (or of the dir entry it came from)"""
    r = _nofollow_root_1(v, path_value)
    if r is None and _SL[0] is not None:
        # the path in its normal form: private path-building helpers opened, `dir.join(entry.file_name())` with entry
        # listed from dir read as `entry.path()`
        sl = _SL[0]
        pv, tv = H.simplify(sl, path_value), H.simplify(sl, v)      # reads of a validated work list: the representative
        for cand in (H.entry_paths_nf(sl, pv), H.entry_paths_nf(sl, sl.inline_deep(pv))):
            if cand != path_value:
                r = _nofollow_root_1(tv, cand)
                if r:
                    break
    return r


def _nofollow_root_1(v, path_value):
    for x in walk(v):
        if x[0] != 'call':
            continue
        if x[1] in ('std::path::Path::symlink_metadata', 'std::fs::symlink_metadata') and x[2] and strip(x[2][0]) == strip(path_value):
            return 'symlink_metadata(path)'
        if x[1] == 'std::path::Path::is_symlink' and x[2] and strip(x[2][0]) == strip(path_value):
            return 'is_symlink(path)'
        if x[1] in ('std::fs::DirEntry::file_type', 'std::fs::DirEntry::metadata') and x[2]:
            pv = strip(path_value)
            if pv[0] == 'call' and pv[1] == 'std::fs::DirEntry::path' and strip(pv[2][0]) == strip(x[2][0]):
                return 'DirEntry::file_type(entry)'
    return None


def established(fn, bb, path_value, slicer):
    """is 'path_value is a real directory / not a symlink' established on every path reaching bb"""
    for c in conditions_ctx(fn.prog, fn, bb, slicer):
        if c.kind != 'bool':
            continue
        for value, outcome in c.views():
            if value[0] != 'call':
                continue
            want = NOFOLLOW_TRUE.get(value[1])
            if want is None or outcome != want:
                continue
            root = _nofollow_root(value, path_value)
            if root:
                return '%s == %s on %s' % (value[1].split('::')[-1], want, root)
    return None


def _nofollow_why(value, outcome, path_value):
    if value[0] != 'call':
        return None
    want = NOFOLLOW_TRUE.get(value[1])
    if want is None or outcome != want:
        return None
    root = _nofollow_root(value, path_value)
    if root:
        return '%s == %s on %s' % (value[1].split('::')[-1], want, root)
    return None


def established_eff(E, e, path_value):
    """the same fact from the guards at every level of the call chain that leads to effect e (a test made by a caller
    of the helper that contains the operation), everything in the entry function's terms"""
    for cd, views, _subj in guards_of(E, e):
        if cd.kind != 'bool':
            continue
        for value, outcome in views:
            w = _nofollow_why(value, outcome, path_value)
            if w:
                return w
    return None


def unlink_guarded(prog, sl, E, e):
    """REMOVE_FILE effect e on a listed entry rests on a no-follow type test that says "not a real directory": the
    else-branch of the entry's own is_dir(), or the path's own symlink_metadata saying it is a symlink"""
    local = sl.operand(e.call.fn, e.call.args[0])

    def says_not_dir(value, outcome, *paths):
        return value[0] == 'call' and NOFOLLOW_NOT_DIR.get(value[1]) is outcome and any(_nofollow_root(value, p) for p in paths)
    for c in conditions_ctx(prog, e.call.fn, e.call.bb, sl):
        if c.kind == 'bool' and any(says_not_dir(v, oc, e.path, local) for v, oc in c.views()):
            return True
    for cd, views, _subj in guards_of(E, e):
        if cd.kind == 'bool' and any(says_not_dir(v, oc, e.path) for v, oc in views):
            return True
    # a compound test (`is_symlink() || !is_dir()`, `is_file() || is_symlink()`) reaches the unlink over several edges,
    # none of which dominates it: every way to the call — from the function's entry, and from the call itself round a
    # loop to the next entry — must cross an edge that says "not a real directory" about this entry
    f, bb = e.call.fn, e.call.bb
    m = e.mapping or {}
    cut = {(cd.sw_bb, cd.target) for cd in H.bool_edges(f, sl)
           if any(says_not_dir(v, oc, e.path, local) or says_not_dir(E.subst(v, m), oc, e.path) for v, oc in cd.views())}
    if cut and bb in f.reachable(0):
        return not H.reaches_avoiding(f, [0], bb, cut) and not H.reaches_avoiding(f, list(f.succs(bb)), bb, cut)
    return False


def run(ctx, rep):
    # lists that are built and then only read ("plan, then execute") are read as the equivalent iterator expression
    from .lib import paths as _paths
    seeds = H.built_lists(ctx.prog, ctx.slicer)
    # `p = base.to_path_buf(); p.push(a)` is `base.join(a)` for every obligation on path classes
    seeds.update(H.pathbuf_joins(ctx.prog, H.seeded_slicer(ctx.prog, seeds, base=ctx.slicer)))
    sl0 = H.seeded_slicer(ctx.prog, seeds, base=ctx.slicer)
    saved = _paths.SLICER
    if seeds and saved is not None:
        _paths.SLICER = sl0
    try:
        _run(ctx.prog, sl0, seeds, rep)
    finally:
        _paths.SLICER = saved


def _run(prog, sl0, seeds, rep):
    rep.rule('R1', 'symlink-following operations on a received path are preceded by a no-follow type test (in the function or at every call site)')
    rep.rule('R1b', 'recursion into children only under the entry\'s own no-follow is_dir(); other entries are unlinked')
    rep.rule('R2', 'mutating effects of the remover stay on its argument / listed entries; delete_layer stays inside the layer')
    rep.rule('R3', 'delete_layer removes DIR, TOML and every SBOM format file')
    rep.rule('R4', 'permission fixing: a directory is made accessible (owner rwx) before it is listed; no std remove_dir_all on the layer')
    rep.rule('R5', 'every decision of the layer APIs to throw the existing layer away is followed by a complete, checked deletion of that layer')
    rep.not_decided = ['TOCTOU races between the type test and the operation', 'kernel symlink semantics']
    from . import layer_roles
    ROLES = layer_roles.roles(prog, sl0)
    LayerPaths.sbom_path_fn = ROLES['SBOM_PATH'] or LayerPaths.sbom_path_fn
    # the delete routine / remover by their effects (layer_roles anchors on the spelling of one remove_file call)
    ROLES = dict(ROLES)
    ROLES['DELETE'], ROLES['REMOVER'] = H.delete_roles(prog, sl0, ROLES)
    dl = prog.fn(ROLES['DELETE'] or 'libcnb::layer::shared::delete_layer')
    reach = prog.reach([dl])
    lib = [f for _, f in sorted(reach.items()) if f.crate == 'libcnb']
    # an iterative remover keeps the directories being emptied in a work list instead of call frames: reads of a list
    # whose invariant "every element is inside the tree of the argument" is proved get a representative element (sl);
    # MUST facts are derived on the plain values (EM: drained lists, alternatives that agree)
    wls, sl = H.abstract_worklists(prog, sl0, lib, seeds)
    _SL[0] = sl
    E = H.EffectsC(prog, sl)
    EM = H.EffectsX(prog, sl0, wls) if wls else E
    callers = prog.callers()
    n_follow = 0
    for f in lib:
        rep.analysed(f)
        direct = []
        for c in f.calls:
            ve = vocab_lookup(c)
            if ve and ve[0] in FOLLOWING:
                direct.append((c, ve[0], sl.operand(f, c.args[ve[1]])))
        for c, kind, pv in direct:
            n_follow += 1
            rep.sites()
            pvs = strip(pv)
            subj = '%s/%s' % (f.path, c.name)
            why = established(f, c.bb, pv, sl)
            if why:
                rep.holds('R1', subj, c.where(), '%s is preceded by a no-follow test in the function: %s' % (kind, why))
                continue
            if pvs[0] != 'param':
                rep.violated('R1', subj, c.where(), '%s follows symlinks on %s without a no-follow type test' % (kind, vstr(pv)[:100]))
                continue
            # obligation moves to every call site of f
            sites = [cs for cs in callers.get(f.path, []) if not cs.indirect and cs.name == f.path]
            if not sites:
                rep.unproven('R1', subj, c.where(), 'no call site of %s found to discharge the no-follow precondition' % f.path)
            for cs in sites:
                g = cs.fn
                av = sl.operand(g, cs.args[pvs[2]])
                w2 = established(g, cs.bb, av, sl)
                s2 = '%s/%s@%s' % (f.path, c.name, g.path)
                if w2:
                    rep.holds('R1', s2, cs.where(), 'call site establishes a real directory: ' + w2)
                else:
                    rep.violated('R1', s2, cs.where(),
                                 '%s passes %s to %s, which applies %s (follows symlinks) to it, but never tests without following links '
                                 'that it is a real directory: if it is a symlink, the link target outside the layer is chmod-ed and emptied'
                                 % (g.path, vstr(av)[:80], f.path, kind),
                                 {'callee': f.path, 'operation': c.name, 'argument': vstr(av)})
    rep.floor('R1', 'following_ops', n_follow)

    # ---- R1b / R2 on the remover: every function that applies CHMOD / LIST to a path it received -------------------
    # (the recursive remover itself; with the traversal split up, also the helper that opens a directory and the
    # function that drives the traversal).  A *descent* is a call that hands such a function an entry of the directory
    # being emptied — the recursive call, or opening a child for the work list.
    rm = prog.fn(ROLES['REMOVER'] or 'libcnb::util::remove_dir_recursively')
    F = H.followers(prog, sl, [f for f in lib if f.path != dl.path and not f.path.startswith(dl.path + '::{closure')])
    F.setdefault(rm.path, 0)
    ED = Effects(prog, sl, vocab={p: ('DESCEND', j) for p, j in F.items()})
    F0 = H.direct_followers(prog, sl, [prog.fns[p] for p in F if p in prog.fns])
    F0.setdefault(rm.path, 0)
    ED0 = Effects(prog, sl, vocab={p: ('DESCEND', j) for p, j in F0.items()})
    for gp, j in sorted(F.items()):
        g = prog.fns[gp]
        rep.analysed(g)
        LP = H.param_paths(sl, g, j)
        for e in ED.expand(g, 'may'):
            if e.kind != 'DESCEND':
                continue
            k = LP.classify(e.path)
            recursive = e.call.name == g.path
            ok = k is not None and (k[0] == 'CHILD' or (k == ('DIR',) and not recursive))
            rep.check(ok, 'R2', 'remover/recursion-arg', e.where(),
                      'recurses into an entry listed from its own argument' if ok and k[0] == 'CHILD' else 'hands its own argument on',
                      'recursion target is not an entry of the directory being removed: ' + vstr(e.path)[:120])
            if ok and k[0] == 'CHILD':
                av = sl.operand(e.call.fn, e.call.args[F[e.call.name]]) if e.call.name in F and F[e.call.name] < len(e.call.args) else e.path
                w = established(e.call.fn, e.call.bb, av, sl) or established_eff(ED, e, e.path)
                if not w and e.call.name in F and e.call.name not in F0:
                    # handed to a function that only passes the path on (`remove_entry(&entry.path(), entry.file_type()?)`):
                    # the obligation is met when every way from this hand-over to a function that really chmods / lists
                    # what it is given runs under the entry's no-follow test (guards at every level, in g's terms)
                    deep = [d for d in ED0.expand(g, 'may') if d.kind == 'DESCEND'
                            and any(getattr(l, 'call', l) is e.call for l in d.chain)]
                    ws = [established_eff(ED0, d, d.path) for d in deep]
                    if ws and all(ws):
                        w = 'inside %s: %s' % (e.call.name.split('::')[-1], ws[0])
                rep.check(bool(w), 'R1b', 'remover/recursion-guard', e.where(), 'recursion guarded by ' + str(w),
                          'recursion into a child is not guarded by the entry\'s own no-follow is_dir(): a symlinked directory would be followed')
        for e in E.expand(g, 'may'):
            if e.kind in MUTATING:
                k = LP.classify(e.path)
                subj = 'remover/%s' % e.call.name
                ok = k is not None and (k == ('DIR',) or k[0] == 'CHILD')
                rep.check(ok, 'R2', subj, e.where(), '%s on %s' % (e.kind, 'the argument' if k == ('DIR',) else 'a listed entry'),
                          '%s on a path that is neither the argument nor one of its entries: %s' % (e.kind, vstr(e.path)[:120]))
                if e.kind == 'REMOVE_FILE' and ok and k[0] == 'CHILD':
                    rep.check(unlink_guarded(prog, sl, E, e), 'R1b', 'remover/unlink-guard', e.where(),
                              'non-directories (incl. symlinks) are unlinked, not followed',
                              'remove_file on an entry is not the else-branch of the no-follow is_dir test')

    # ---- R2 / R3 on delete_layer ------------------------------------------------------------------
    is_ld = lambda v: v[0] == 'param' and v[1] == dl.path and v[2] == 0
    is_ln = lambda v: v[0] == 'param' and v[1] == dl.path and v[2] == 1
    LD = H.TreePaths(sl, is_ld, is_ln)
    for e in E.expand(dl, 'may'):
        if e.kind in MUTATING:
            k = LD.classify(e.path)
            subj = 'delete_layer/%s/%s@%s' % (e.call.fn.path.split('::')[-1], e.call.name, cls_str(k))
            rep.check(LD.inside_layer(k), 'R2', subj, e.where(), '%s on %s' % (e.kind, cls_str(k)),
                      '%s on a path outside <layers>/<name>, <name>.toml and the SBOM files: %s' % (e.kind, vstr(e.path)[:140]))
    must = EM.expand(dl, 'must')
    kinds = [(e.kind, LD.classify(e.path), e.forall) for e in must]
    has_dir = any(k in ('REMOVE_DIR', 'REMOVE_TREE', 'REMOVE_FILE') and c == ('DIR',) for k, c, _ in kinds)
    has_toml = any(k == 'REMOVE_FILE' and c == ('TOML',) for k, c, _ in kinds)
    all_variants = sorted(v['name'] for v in prog.adt('libcnb_data::sbom::SbomFormat')['variants'])
    sb_ok = sorted(sbom_formats_covered([e for e in must if e.kind == 'REMOVE_FILE'], LD.classify)) == all_variants
    where = '%s:%d' % (dl.file, dl.line)
    rep.check(has_dir, 'R3', 'delete_layer/DIR', where, 'layer directory removed on every success path', 'layer directory is not always removed')
    rep.check(has_toml, 'R3', 'delete_layer/TOML', where, 'layer TOML removed on every success path', 'layer TOML is not always removed')
    rep.check(sb_ok, 'R3', 'delete_layer/SBOM', where, 'SBOM file of every format removed', 'SBOM files are not removed for every format')

    H.sbom_path_shape(prog, sl0, LayerPaths.sbom_path_fn, rep)

    # ---- R5: every recreate decision of the public layer APIs runs the complete deletion ---------------------------
    H.recreate_decisions(prog, sl, E, EM, rep, lambda is_ld, is_ln: H.TreePaths(sl, is_ld, is_ln))
    H.uncached_always_deletes(prog, sl0, rep)

    # ---- R4: permission fixing ------------------------------------------------------------------------------------
    n_list = H.chmod_before_list(prog, sl, E, lib, rep)
    rep.check(n_list >= 1, 'R4', 'chmod-before-list/subjects', where, '%d directory listing(s) on the delete path' % n_list,
              'no directory listing found on the delete path: the rule lost its subjects')
    H.chmod_modes(prog, sl, lib, rep)
    for e in E.expand(dl, 'may'):
        if e.kind == 'REMOVE_TREE' and LD.inside_layer(LD.classify(e.path)):
            rep.violated('R4', 'delete_layer/std-remove-dir-all', e.where(),
                         'std::fs::remove_dir_all does not fix permissions: a nested read-only or non-executable directory makes '
                         'the deletion of the layer fail (%s)' % vstr(e.path)[:100])
