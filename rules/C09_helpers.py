"""Helpers of rule C09: path conditions, validator regions, lifted values.

The obligations of C09 are stated on *path conditions*: for a block of a function, the set of acyclic entry->block
paths, each a conjunction of literals (the branch decisions taken).  Unlike edge dominance (`guards.conditions`) this
also sees guards spelled with `||` / `&&`, `matches!`, named intermediate booleans, early returns and closures run by
`bool::then`; a boolean that is assigned in several places is resolved to the assignment that lies on the path; a tested
call of a workspace predicate function that decides by control flow (`fn ok(..) -> bool { matches!(..) }`) is replaced by
the ways through its body that return the tested outcome (PathConds.pred_alts), in the caller's terms.

    paths(fn, bb) -> [ (Lit, ...) , ... ]      every way of reaching bb (closures: joined with the ways of reaching
                                               the call that runs them; inside / behind loops: the simple paths, i.e.
                                               the decisions before the loop and those of the current iteration)
    holds_on_all(paths, pred)                  pred holds on every consistent path (and there is one)

A conjunction of independent literals entails a clause iff it contains one of the clause's literals, so entailment
is decided per path; treating correlated atoms as independent only makes the check more conservative.
"""
from .lib.guards import _discr_info, conditions, creation_site
from .lib.mir import op_place, op_const
from .lib.paths import strip
from .lib.value import canon, subst, walk

IT = 'std::iter::Iterator::'


class Lit:
    """one branch decision: kind 'bool' (outcome True/False) | 'variant' (outcome frozenset of names) | 'int'"""
    __slots__ = ('kind', 'key', 'outcome', 'value')

    def __init__(self, kind, value, outcome):
        self.kind = kind
        self.value = value
        self.key = pull_key(value)      # canonical, but two pulls from one iterator are different values
        self.outcome = outcome

    def __repr__(self):
        from .lib.value import vstr
        return 'Lit(%s %s == %s)' % (self.kind, vstr(self.value)[:120], sorted(self.outcome) if isinstance(self.outcome, frozenset) else self.outcome)


class _TooMany(Exception):
    pass


class _KeyedPath:
    """a conjunction compared by its literals (for removing duplicates)"""
    __slots__ = ('path', 'k')

    def __init__(self, path):
        self.path = path
        self.k = tuple((l.kind, l.key, l.outcome) for l in path)

    def __hash__(self):
        return hash(self.k)

    def __eq__(self, other):
        return self.k == other.k


def _opaque_phi(v):
    """a join of boolean literals: the value of a predicate whose body decides by control flow — inlining it would
    forget what is decided"""
    return v[0] == 'phi' and any(x[0] == 'const' for x in v[1])


def norm_bool(sl, v, oc, phi_ok=True):
    """normal form of a tested boolean: negations peeled, `a != b` read as `!(a == b)`, private boolean helpers
    replaced by what they return (phi_ok=False: only when that is a single expression)"""
    for _ in range(8):
        if v[0] == 'un' and v[1] == 'Not':
            v, oc = v[2], (not oc)
            continue
        if v[0] == 'call' and v[1].endswith('::ne') and len(v[2]) == 2:
            v, oc = ('call', v[1][:-4] + '::eq') + tuple(v[2:]), (not oc)
            continue
        if v[0] == 'call':
            iv = sl.inline_call(v)
            if iv is not None and iv != v and (phi_ok or not _opaque_phi(iv)):
                v = iv
                continue
        break
    return fold_len(v), oc


_EXPANDED = ('std::option::Option::<T>::and_then', 'std::result::Result::<T, E>::and_then', 'std::option::Option::<T>::filter')
_PASSTHROUGH = ('std::option::Option::<T>::ok_or', 'std::option::Option::<T>::ok_or_else', 'std::option::Option::<T>::map',
                'std::result::Result::<T, E>::map', 'std::result::Result::<T, E>::map_err', 'std::result::Result::<T, E>::ok',
                'std::option::Option::<T>::inspect', 'std::result::Result::<T, E>::inspect', 'std::result::Result::<T, E>::inspect_err')
_PAYLOAD_KEEPING = ('std::result::Result::<T, E>::ok', 'std::option::Option::<T>::ok_or', 'std::option::Option::<T>::ok_or_else',
                    'std::result::Result::<T, E>::map_err', 'std::result::Result::<T, E>::inspect_err', 'std::option::Option::<T>::inspect',
                    'std::result::Result::<T, E>::inspect')


def variant_lit(o, is_option, success):
    """the decision "o is Some / Ok" (success) or "o is None / Err", stated on the value behind adapters that keep
    success and failure apart the same way: `r.ok()` is Some iff r is Ok, `o.ok_or(e)` is Ok iff o is Some"""
    for _ in range(8):
        if o[0] == 'call' and o[1] in _PAYLOAD_KEEPING and o[2]:
            is_option = o[1].startswith('std::option::Option::')
            o = o[2][0]
            continue
        if o[0] == 'call' and o[1] in ('std::option::Option::<T>::map', 'std::result::Result::<T, E>::map') and len(o[2]) == 2:
            o = o[2][0]
            continue
        break
    names = ('Some', 'None') if is_option else ('Ok', 'Err')
    return Lit('variant', o, frozenset([names[0] if success else names[1]]))


_SUCC = {'Some': 'Ok', 'None': 'Err', 'Ok': 'Some', 'Err': 'None'}


def peel_variant(l, prog=None):
    """a decision about the variant of `r.ok()` / `o.ok_or(e)` / `r.map_err(f)` / `x.map(f)` restated on r / o / x itself
    (Some <-> Ok, None <-> Err): the same literal whichever adapter the code matched through; `x?` continuing / breaking
    is x being Ok / Err (Some / None)"""
    o, names = l.value, l.outcome
    for _ in range(8):
        if o[0] == 'call' and o[1] == 'std::ops::Try::branch' and len(o[2]) == 1 and names and names <= {'Continue', 'Break'}:
            inner = o[2][0]
            k = _known_kind(prog, inner) if prog is not None else None
            if k is None and inner[0] == 'call':
                k = True if inner[1].startswith('std::option::Option::') else False if inner[1].startswith('std::result::Result::') else None
            if k is None:
                break
            tr = {'Continue': 'Some', 'Break': 'None'} if k else {'Continue': 'Ok', 'Break': 'Err'}
            o, names = inner, frozenset(tr[n] for n in names)
            continue
        if not (o[0] == 'call' and o[2]) or not names <= {'Some', 'None', 'Ok', 'Err'}:
            break
        if o[1] in ('std::result::Result::<T, E>::ok', 'std::option::Option::<T>::ok_or', 'std::option::Option::<T>::ok_or_else'):
            o, names = o[2][0], frozenset(_SUCC[n] for n in names)
        elif o[1] in ('std::result::Result::<T, E>::map_err', 'std::result::Result::<T, E>::inspect_err', 'std::option::Option::<T>::inspect',
                      'std::result::Result::<T, E>::inspect') or \
                (o[1] in ('std::option::Option::<T>::map', 'std::result::Result::<T, E>::map') and len(o[2]) == 2):
            o = o[2][0]
        else:
            break
    return l if o is l.value else Lit('variant', o, names)


def drop_adapters(v, depth=0):
    """v with every `unwrap(adapter(x))` inside it rewritten to `unwrap(x)` for adapters that keep the success payload
    (`.ok()`, ok_or, map_err, filter, ..): one normal form of "the payload of x" however it was passed along"""
    if not isinstance(v, tuple) or not v or depth > 40:
        return v
    if v[0] in ('const', 'param', 'fnitem', 'constitem', 'unknown', 'closure_env', 'upvar'):
        return v
    if v[0] == 'unwrap' and len(v) == 2:
        o = v[1]
        for _ in range(8):
            if o[0] == 'call' and (o[1] in _PAYLOAD_KEEPING or o[1] == 'std::option::Option::<T>::filter') and o[2]:
                o = o[2][0]
                continue
            break
        return ('unwrap', drop_adapters(o, depth + 1))
    return tuple(drop_adapters(x, depth + 1) if isinstance(x, tuple) else x for x in v)


def payload_nf(sl, o):
    """success payload of an Option / Result in normal form (adapters that keep the payload peeled)"""
    for _ in range(8):
        if o[0] == 'call' and (o[1] in _PAYLOAD_KEEPING or o[1] == 'std::option::Option::<T>::filter') and o[2]:
            o = o[2][0]
            continue
        break
    return drop_adapters(sl.mk_unwrap(o, 1))


_ON_SUCCESS = {'and_then': 1, 'map': 1, 'filter': 1, 'is_some_and': 1, 'is_ok_and': 1, 'is_none_or': 1, 'inspect': 1, 'map_or': 2,
               'map_or_else': 2}
_ON_FAILURE = {'or_else': 1, 'unwrap_or_else': 1, 'ok_or_else': 1, 'map_err': 1, 'inspect_err': 1, 'map_or_else': 1, 'is_err_and': 1}


def combinator_use(prog, sl, fn, parent, c):
    """closure fn is handed to call c of parent: ('success' | 'failure', receiver value, payload the closure receives
    as its argument | None) when c is an Option / Result combinator that runs the closure only when its receiver is
    Some / Ok (on the payload) resp. None / Err; else None"""
    n = c.name or c.decl or ''
    if not n.startswith(('std::option::Option::', 'std::result::Result::')) or len(c.args) < 2:
        return None
    meth = n.rsplit('::', 1)[-1]
    which = []
    for i, a in enumerate(c.args):
        v = strip(sl.operand(parent, a))
        if v[0] == 'closure' and v[1] == fn.path:
            which.append(i)
    if len(which) != 1 or which[0] == 0:
        return None
    recv = sl.operand(parent, c.args[0])
    if _ON_SUCCESS.get(meth) == which[0]:
        return 'success', recv, payload_nf(sl, recv)
    if _ON_FAILURE.get(meth) == which[0]:
        return 'failure', recv, None
    return None


def _known_kind(prog, v):
    """True: v is an Option, False: a Result, None: not known"""
    if v[0] == 'agg' and v[1] in ('std::option::Option', 'std::result::Result'):
        return v[1] == 'std::option::Option'
    if v[0] == 'call':
        c = call_of(prog, v)
        ty = (c.dty or '') if c is not None else ''
        ty = ty.lstrip('&')
        if ty.startswith('std::option::Option<'):
            return True
        if ty.startswith('std::result::Result<'):
            return False
    return None


def success_ways(PC, v, depth=0):
    """the ways an Option / Result valued expression is Some / Ok, as a disjunction of conjunctions of literals
    ([] = never, [()] = always); None when nothing is known.  Counterpart of failure_ways."""
    sl = PC.sl
    if depth > 8 or not isinstance(v, tuple) or not v:
        return None
    v = with_statics(PC.prog, sl, v)
    if v[0] == 'agg' and v[1] in ('std::option::Option', 'std::result::Result'):
        return [()] if v[2] in ('Some', 'Ok') else []
    if v[0] != 'call' or not v[2]:
        return None
    n, a = v[1], v[2]
    if n.endswith(('bool>::then', 'bool>::then_some')) or n in ('core::bool::<impl bool>::then', 'core::bool::<impl bool>::then_some'):
        return PC._ways(a[0], True) if len(a) == 2 else None
    if n in _PASSTHROUGH:
        return success_ways(PC, a[0], depth + 1)
    if n == 'std::option::Option::<T>::filter' and len(a) == 2:
        inner = success_ways(PC, a[0], depth + 1)
        pred = PC.closure_ways(a[1], (payload_nf(sl, a[0]),), True)
        if inner is None or pred is None:
            return None
        return [tuple(w) + tuple(x) for w in inner for x in pred]
    if n in ('std::option::Option::<T>::and_then', 'std::result::Result::<T, E>::and_then') and len(a) == 2:
        inner = success_ways(PC, a[0], depth + 1)
        body = sl.apply_closure(strip(a[1]), (payload_nf(sl, a[0]),))
        rest = success_ways(PC, body, depth + 1) if body is not None else None
        if inner is None or rest is None:
            return None
        return [tuple(w) + tuple(x) for w in inner for x in rest]
    k = _known_kind(PC.prog, v)
    if k is None:
        return None
    return [(variant_lit(v, k, True),)]


class PathConds:
    def __init__(self, prog, sl, limit=3000, scope=None):
        # scope: the paths of the functions of one validator region.  A crate-private helper shared by several validators
        # (`parse_ascii_digits` called by BuildpackVersion's and by BuildpackApi's try_from) is then reached only through
        # its call sites inside that region: what the *other* validator tests in front of its call says nothing here
        self.prog = prog
        self.sl = sl
        self.limit = limit
        self.scope = scope
        self._cache = {}
        self._bpaths = {}
        self._ctx = {}
        self._ctx_args = {}
        self._expanding = []

    # ---- values on a path ---------------------------------------------------------------------------
    def resolve(self, fn, op, path):
        """value of operand `op` at the end of `path` (list of blocks): a local assigned in several places denotes
        the assignment that lies last on the path"""
        sl = self.sl
        if op_const(op) is not None:
            return sl.operand(fn, op)
        pl = op_place(op)
        if pl is None or len(pl) != 1 or 1 <= pl[0] <= fn.argc:
            return sl.operand(fn, op)
        defs = fn.whole_defs(pl[0])
        if not defs:
            return sl.operand(fn, op)
        d, at = None, len(path)
        if len(defs) == 1:
            d = defs[0]
            if d[1] in path:
                at = path.index(d[1]) + 1
        else:
            for i in range(len(path) - 1, -1, -1):
                ds = [x for x in defs if x[1] == path[i]]
                if ds:
                    d, at = ds[-1], i + 1
                    break
            if d is not None and any(self.is_header(fn, b) for b in path[at:]) and any(fn.in_loop(x[1]) for x in defs if x is not d):
                # a loop was entered after that assignment and the local is also assigned inside a loop: loop-carried,
                # the assignment on the (simple) path need not be the one that is current
                return sl.operand(fn, op)
        if d is None:
            return sl.operand(fn, op)
        if d[0] == 'stmt':
            rv = d[3]
            if rv['r'] == 'use':
                return self.resolve(fn, rv['o'], path[:at])
            return sl._rvalue(fn, rv, set(), 0, None)
        if d[0] == 'call':
            return sl._call_value(fn, d[3], set(), 0)
        return sl.operand(fn, op)

    def is_header(self, fn, b):
        """b is the target of a back edge (it dominates one of its predecessors)"""
        return any(fn.dominates(b, p) for p in fn.preds()[b] if p in fn.reachable(0))

    def edge_literal(self, fn, b, s, path):
        """decision taken on the edge b->s: Lit | None (no decision) | False (edge infeasible on this path)"""
        t = fn.blocks[b]['t']
        if t['t'] != 'switch' or op_const(t['o']) is not None:
            return None
        labels = [v for v, tb in t['targets'] if tb == s] + (['else'] if t['else'] == s else [])
        listed = [v for v, _ in t['targets']]
        di = _discr_info(fn, b, t['o'])
        if di:
            place, vmap, _enum = di
            names = set()
            for lab in labels:
                if lab == 'else':
                    names |= {n for v, n in vmap.items() if v not in listed}
                else:
                    names.add(vmap.get(lab, str(lab)))
            l = peel_variant(Lit('variant', self.sl.place(fn, place), frozenset(names)), self.prog)
            # the variant of a value built by and_then / filter / bool::then: the ways it is Some / Ok (resp. None / Err)
            v = l.value
            if v[0] == 'call' and v[2] and (v[1] in _EXPANDED or v[1].endswith(('bool>::then', 'bool>::then_some'))) and len(self._expanding) < 3:
                ways = None
                self._expanding.append('<variant>')
                try:
                    if l.outcome in (frozenset(['Some']), frozenset(['Ok'])):
                        ways = success_ways(self, v)
                    elif l.outcome in (frozenset(['None']), frozenset(['Err'])):
                        ways = failure_ways(self, v)
                finally:
                    self._expanding.pop()
                if ways is not None and len(ways) <= 16:
                    ways = [tuple(w) for w in ways if consistent(w)]
                    return ('alts', ways) if ways else False
            return l
        val = self.resolve(fn, t['o'], path)
        if t.get('oty') == 'bool':
            if labels == ['else'] and listed == [0]:
                oc = True
            elif labels == [0]:
                oc = False
            elif labels == [1]:
                oc = True
            elif labels == ['else'] and listed == [1]:
                oc = False
            else:
                return None
            return self.bool_literal(val, oc)
        if labels == ['else']:
            return Lit('int', val, ('not', tuple(listed)))
        if 'else' not in labels and len(labels) == 1:
            if val[0] == 'const' and isinstance(val[1], int) and not isinstance(val[1], bool):
                return None if val[1] == labels[0] else False
            return Lit('int', val, labels[0])
        return None

    def bool_literal(self, val, oc):
        """the decision `val == oc` of a boolean value: Lit | None (always so) | False (never so) | ('alts', [conjunction..])
        when val is a call of a workspace predicate that decides by control flow"""
        val = with_statics(self.prog, self.sl, val)
        v2, oc2 = norm_bool(self.sl, val, oc, phi_ok=False)
        ways = self.combinator_ways(v2, oc2)
        if ways is not None:
            ways = [w for w in ways if consistent(w)]
            return ('alts', ways) if ways else False
        if v2[0] == 'call' and v2[1] in self.prog.fns and self.prog.fns[v2[1]].kind == 'Closure' and len(v2[2]) == 2 \
                and strip(v2[2][0])[0] == 'closure' and strip(v2[2][1])[0] == 'tuple' and len(self._expanding) < 3:
            # a boolean closure called directly (`let only_digits = |s: &str| ..; if only_digits(x)`): what it returns
            self._expanding.append('<closure-call>')
            try:
                ways = self.closure_ways(v2[2][0], tuple(strip(v2[2][1])[1]), oc2)
            finally:
                self._expanding.pop()
            if ways is not None:
                ways = [tuple(w) for w in ways if consistent(w)]
                return ('alts', ways) if ways else False
        if v2[0] == 'call' and v2[1] in self.prog.fns:
            # a predicate function deciding by control flow: the ways through its body that return this outcome
            alts = self.pred_alts(v2, oc2)
            if alts is not None:
                return ('alts', alts) if alts else False
        val, oc = norm_bool(self.sl, val, oc)
        if val[0] == 'const' and isinstance(val[1], bool):
            return None if val[1] == oc else False
        return Lit('bool', val, oc)

    def _ways(self, val, oc):
        """the ways `val == oc`, as a disjunction of conjunctions"""
        lit = self.bool_literal(val, oc)
        if lit is False:
            return []
        if lit is None:
            return [()]
        if isinstance(lit, tuple):
            return [tuple(a) for a in lit[1]]
        return [(lit,)]

    def combinator_ways(self, v, oc, depth=0):
        """a boolean produced by an Option / Result combinator, as the ways it has the value oc:
            o.is_some_and(p) / r.is_ok_and(p)   true: o is Some(x) and p(x);  false: o is None, or Some(x) and !p(x)
            o.is_none_or(p)                     true: None, or Some(x) and p(x)
            o.map_or(d, p)                      the default d when None, else p(x)
            o.is_some() / is_none() / r.is_ok() / is_err()
        with `o is Some` stated on the Result behind `.ok()` (`r.ok()` is Some iff r is Ok) and x in the success-payload
        normal form, so that the same literals arise as from `match` / `if let` / `?` spellings; None: not such a value"""
        if v[0] != 'call' or not v[2] or len(self._expanding) > 6:
            return None
        n, a = v[1], v[2]
        opt = n.startswith('std::option::Option::')
        if not opt and not n.startswith('std::result::Result::'):
            return None
        meth = n.rsplit('::', 1)[-1]
        if meth in ('is_some', 'is_ok', 'is_none', 'is_err') and len(a) == 1:
            return [(variant_lit(a[0], opt, (meth in ('is_some', 'is_ok')) == oc),)]
        if meth in ('is_some_and', 'is_ok_and', 'is_none_or') and len(a) == 2:
            default, cl = (meth == 'is_none_or'), a[1]
        elif meth == 'map_or' and len(a) == 3 and strip(a[1])[0] == 'const' and isinstance(strip(a[1])[1], bool):
            default, cl = strip(a[1])[1], a[2]
        else:
            return None
        inner = self.closure_ways(cl, (payload_nf(self.sl, a[0]),), oc)
        if inner is None:
            return None
        some = variant_lit(a[0], opt, True)
        out = [(some,) + tuple(w) for w in inner]
        if default == oc:
            out.insert(0, (variant_lit(a[0], opt, False),))
        return out

    def pred_alts(self, v, oc, depth=0):
        """`helper(args) == oc` for a workspace function returning bool, as the disjunction of the ways through its
        body that return oc: [conjunction of literals in the caller's terms, ...]; None when they cannot be enumerated.
        `fn ok(r, v) -> bool { matches!(Regex::new(r).and_then(|r| r.is_match(v)), Ok(true)) }` tested true yields
        the single way `is_match(unwrap(Regex::new(r)), v)` is Ok and its payload is true."""
        g = self.prog.fns.get(v[1])
        if g is None or g.kind == 'Closure':
            return None
        return self._body_alts(g, {(g.path, i): a for i, a in enumerate(v[2]) if i < g.argc}, oc)

    def closure_ways(self, cl, args, oc):
        """the ways the boolean closure `cl`, applied to `args`, returns oc: its returned expression, or — when the body
        decides by control flow (`matches!`, `if`, early return) — the ways through the body that return oc"""
        cl = strip(cl)
        body = self.sl.apply_closure(cl, tuple(args))
        if body is None:
            return None
        b2, _ = norm_bool(self.sl, body, oc, phi_ok=False)
        g = self.prog.fns.get(cl[1]) if cl[0] == 'closure' else None
        if g is not None and (_opaque_phi(b2) or b2[0] == 'phi'):
            alts = self._body_alts(g, {(g.path, 1 + i): a for i, a in enumerate(args)}, oc)
            if alts is not None:
                return [tuple(a) for a in alts]
        return self._ways(body, oc)

    def _body_alts(self, g, m, oc):
        if g.ret != 'bool' or g.partial_defs(0) or g.path in self._expanding or len(self._expanding) > 2:
            return None
        live = g.reachable(0)
        defs = [d for d in g.whole_defs(0) if d[1] in live]
        blocks = [d[1] for d in defs]
        if not defs or len(set(blocks)) != len(blocks):
            return None
        if any((g.reachable(b) - {b}) & set(blocks) or g.in_loop(b) for b in blocks):
            return None     # a later assignment would override this one
        out = []
        self._expanding.append(g.path)
        try:
            for d in defs:
                if d[0] == 'stmt':
                    rv = self.sl._rvalue(g, d[3], set(), 0, None)
                elif d[0] == 'call':
                    rv = self.sl._call_value(g, d[3], set(), 0)
                else:
                    return None
                rv, want = norm_bool(self.sl, rv, oc)
                if rv[0] == 'const' and isinstance(rv[1], bool):
                    if rv[1] != want:
                        continue
                    tail = ()
                else:
                    tail = (Lit('bool', rv, want),)
                lp = self.local_paths(g, d[1])
                if lp is None:
                    return None
                for p in lp:
                    out.append(tuple(Lit(l.kind, subst(l.value, m, self.sl), l.outcome) for l in p + tail))
                if len(out) > self.limit:
                    return None
        finally:
            self._expanding.pop()
        return [kp.path for kp in dict.fromkeys(_KeyedPath(p) for p in out)]

    # ---- paths --------------------------------------------------------------------------------------
    def local_paths(self, fn, bb):
        """literal tuples of all acyclic entry->bb paths of fn; None when the region has a cycle or too many paths"""
        key = (fn.path, bb)
        if key in self._cache:
            return self._cache[key]
        res = self._local_paths(fn, bb)
        self._cache[key] = res
        return res

    def _local_paths(self, fn, bb):
        if bb not in fn.reachable(0):
            return []
        preds = fn.preds()
        back = set()
        work = [bb]
        while work:
            b = work.pop()
            if b in back:
                continue
            back.add(b)
            work.extend(preds[b])
        sub = back & fn.reachable(0)
        # A region with loops: the simple entry->bb paths (no block twice).  Every execution reaching bb yields one of
        # them when its cycles are cut out (what remains are the decisions before the loop and those of the *last* pass
        # through each block, i.e. of the current iteration), and all literals of that path hold at bb: a literal is a
        # necessary condition, about the values of the iteration in which it was decided.  Loop-carried locals are not
        # resolved to an assignment on the path (resolve) and do not take part in contradictions (consistent).
        out = []
        steps = [0]
        bpaths = self._bpaths[(fn.path, bb)] = []

        def go(b, path, lits):
            if b == bb:
                out.append(tuple(lits))
                bpaths.append(list(path))
                if len(out) > self.limit:
                    raise _TooMany()
                return
            steps[0] += 1
            if steps[0] > 200 * self.limit:
                raise _TooMany()
            seen = []
            for s in fn.succs(b):
                if s in seen or s not in sub or s in path:
                    continue
                seen.append(s)
                lit = self.edge_literal(fn, b, s, path)
                if lit is False:
                    continue
                if isinstance(lit, tuple):      # ('alts', ..): one continuation per way of deciding the predicate
                    for alt in lit[1]:
                        go(s, path + [s], lits + list(alt))
                    continue
                go(s, path + [s], lits + [lit] if lit is not None else lits)
        try:
            go(0, [0], [])
        except (_TooMany, RecursionError):
            return None
        return out

    def dominating(self, fn, bb):
        """fallback: the edge-dominance conditions of bb as one conjunction"""
        lits = []
        for cd in conditions(fn, bb, self.sl):
            if cd.kind == 'bool':
                v, oc = norm_bool(self.sl, cd.value, cd.outcome)
                lits.append(Lit('bool', v, oc))
            elif cd.kind == 'variant':
                lits.append(Lit('variant', cd.subject, cd.outcome))
            else:
                lits.append(Lit('int', cd.value, cd.outcome))
        return [tuple(lits)]

    def context(self, fn):
        """ways of reaching the point that runs closure fn: the call its value is handed to (or the place where it is
        created); `cond.then(|| ..)` runs the closure only when cond is true"""
        if fn.path in self._ctx:
            return self._ctx[fn.path]
        self._ctx[fn.path] = [()]   # recursion guard
        if fn.kind != 'Closure':
            res = self._ctx[fn.path] = self.caller_context(fn)
            return res
        parent, cb = creation_site(self.prog, fn)
        res = [()]
        if parent is not None:
            at, extras, binds = cb, [()], []
            users = [c for c in parent.calls if not c.indirect and any(g is fn for g in self.prog.fn_item_args(c))]
            if len(users) == 1 and parent.dominates(cb, users[0].bb):
                # the closure value is moved into exactly one call: it cannot run unless that call is reached
                c = users[0]
                at = c.bb
                if c.decl and c.decl.endswith('bool>::then') and len(c.args) == 2:
                    # `cond.then(|| ..)`: the closure runs only when cond is true (a private predicate deciding by
                    # control flow is replaced by the ways through its body that return true, as on a branch); a
                    # condition computed by control flow (`a && b`) is the assignment that lies on the path
                    lp = self.local_paths(parent, at)
                    bps = self._bpaths.get((parent.path, at)) or []
                    if lp is not None and len(bps) == len(lp) and lp:
                        pctx = self.context(parent)
                        if len(pctx) * len(lp) > self.limit:
                            pctx = [()]
                        res = []
                        for lits, bp in zip(lp, bps):
                            for extra in self._then_ways(self.resolve(parent, c.args[0], bp)):
                                res.extend(cx + lits + extra for cx in pctx)
                        self._ctx[fn.path] = res
                        return res
                    extras = self._then_ways(self.sl.operand(parent, c.args[0]))
                else:
                    # `opt.and_then(|x| ..)`, `opt.filter(|x| ..)`, `res.map(|x| ..)`, `opt.unwrap_or_else(|| ..)`: the closure
                    # runs only when the receiver is Some / Ok (resp. None / Err), on the receiver's payload
                    cu = combinator_use(self.prog, self.sl, fn, parent, c)
                    if cu is not None:
                        mode, recv, payload = cu
                        ways = success_ways(self, recv) if mode == 'success' else failure_ways(self, recv)
                        if ways is not None:
                            extras = [tuple(w) for w in ways if consistent(w)]
                        if payload is not None and strip(payload)[0] not in ('const', 'unknown'):
                            binds = [(pull_key(strip(payload)), ('param', fn.path, 1, fn.local_name(2)))]
            res = [p + extra for p in self.paths(parent, at) for extra in extras]
            if binds:
                # what is known about the payload is known about the parameter that receives it (both statements are
                # kept: the one in the enclosing function's terms and the one in the closure's)
                out = []
                for p in res:
                    extra = []
                    for l in p:
                        rv = _rebind(l.value, binds)
                        if rv != l.value:
                            extra.append(Lit(l.kind, rv, l.outcome))
                    out.append(tuple(p) + tuple(extra))
                res = out
        self._ctx[fn.path] = res
        return res

    def _then_ways(self, cond):
        """the ways `cond` is true, as conjunctions to append to a path"""
        lit = self.bool_literal(cond, True)
        if lit is False:
            return []
        if isinstance(lit, tuple):
            return [tuple(a) for a in lit[1]]
        return [(lit,)] if lit is not None else [()]

    def caller_context(self, fn):
        """a crate-private function only runs from its call sites: the ways of reaching them, with what each site tests
        about the values it passes re-expressed on the function's parameters (`if ok(x) { helper(x) }` guards the body
        of helper by ok(param)).  No information ([()]) for public functions and functions also used as values."""
        if fn.vis == 'pub' or fn.kind not in ('Fn', 'AssocFn') or fn.impl_trait:
            return [()]
        refs = self.prog.callers().get(fn.path, [])
        if self.scope is not None:
            refs = [cs for cs in refs if cs.fn.path in self.scope]
        sites = [cs for cs in refs if not cs.indirect and cs.name == fn.path and cs.fn.path != fn.path]
        if not sites or len(sites) != len(refs):
            return [()]
        out, maps = [], []
        for cs in sites:
            g = cs.fn
            binds = []
            m = {}
            for i, a in enumerate(cs.args[:fn.argc]):
                m[(fn.path, i)] = self.sl.operand(g, a)
                av = strip(self.sl.operand(g, a))
                if av[0] not in ('const', 'unknown'):
                    binds.append((pull_key(av), ('param', fn.path, i, fn.local_name(i + 1))))
            for p in self.paths(g, cs.bb):
                # what the site has decided, on the function's parameters — and, where that differs, as the site said it
                reb = [Lit(l.kind, _rebind(l.value, binds), l.outcome) for l in p]
                out.append(tuple(reb) + tuple(l for l, r in zip(p, reb) if r.key != l.key))
                maps.append(m)
            if len(out) > self.limit:
                return [()]
        self._ctx_args[fn.path] = maps
        return out

    def paths(self, fn, bb):
        lp = self.local_paths(fn, bb)
        if lp is None:
            lp = self.dominating(fn, bb)
        ctx = self.context(fn)
        if ctx == [()] and not self._ctx_args.get(fn.path):
            return lp
        if len(lp) * len(ctx) > self.limit:
            ctx = [()]
        maps = self._ctx_args.get(fn.path)
        if not maps or len(maps) != len(ctx):
            return [c + p for c in ctx for p in lp]
        # a private function reached from a call site: what its own decisions say about the values passed at that site
        # (`fn pick(matched: bool, ..) { if matched { .. } }` called as `pick(r.is_match(v).unwrap_or(false), ..)`)
        out = []
        for c, m in zip(ctx, maps):
            for p in lp:
                extra, dead = [], False
                for l in p:
                    sv = subst(l.value, m, self.sl)
                    if sv == l.value:
                        continue
                    if l.kind == 'bool':
                        r = self.bool_literal(sv, l.outcome)
                        if r is False:
                            # the site passes a constant that decides this branch the other way (`helper(s, false)` with
                            # `if allow_leading_zeros { .. }` inside): this way through the body is not taken from this site
                            dead = True
                            break
                        if isinstance(r, Lit):
                            extra.append(r)
                        elif isinstance(r, tuple) and len(r[1]) == 1:
                            extra.extend(r[1][0])
                    else:
                        extra.append(peel_variant(Lit(l.kind, sv, l.outcome)) if l.kind == 'variant' else Lit(l.kind, sv, l.outcome))
                if not dead:
                    out.append(tuple(c) + tuple(p) + tuple(extra))
        return out


def _rebind(v, binds):
    """v with every occurrence of a bound argument value replaced by the parameter it is passed as"""
    if not isinstance(v, tuple) or not v:
        return v
    cv = pull_key(strip(v))
    for k, pv in binds:
        if cv == k:
            return pv
    if v[0] in ('const', 'param', 'fnitem', 'constitem', 'unknown', 'closure_env', 'upvar'):
        return v
    return tuple(_rebind(x, binds) if isinstance(x, tuple) else x for x in v)


def consistent(path):
    from .lib.value import _contains_cycle
    seen = {}
    for l in path:
        if _contains_cycle(l.value):
            continue    # a loop-carried value denotes different things at different times: no contradiction follows
        if l.kind == 'bool':
            if seen.setdefault(l.key, l.outcome) != l.outcome:
                return False
        elif l.kind == 'variant':
            prev = seen.get(('v', l.key))
            cur = l.outcome if prev is None else (prev & l.outcome)
            if not cur:
                return False
            seen[('v', l.key)] = cur
    return True


def holds_on_all(paths, pred):
    """pred(path) holds on every feasible path, and there is at least one"""
    ps = [p for p in (paths or []) if consistent(p)]
    return bool(ps) and all(pred(p) for p in ps)


# ---- regions and lifting --------------------------------------------------------------------------------

def region(prog, root):
    """functions of root's crate that root may enter: its closures, private helpers, fn items handed to adapters"""
    fs = prog.reach([root], stop=lambda f: f.crate != root.crate)
    out = [f for f in fs.values() if f.crate == root.crate]
    # statics the region refers to (a regex compiled once into a lazily initialised static): their initialisers are
    # part of what the root computes with
    for _ in range(3):
        more = [s for s in static_fns(prog, out) if s not in out and s.crate == root.crate]
        if not more:
            break
        for f in prog.reach(more, stop=lambda f: f.crate != root.crate).values():
            if f.crate == root.crate and f not in out:
                out.append(f)
    return out


def lift(prog, sl, f, vals, top, depth=4):
    """values of function f re-expressed at its callers until they no longer mention f's parameters or `top` is
    reached (closure calls `f(a, b)` pass their arguments as one tuple).  Returns [(Fn, [values])]."""
    owners = {x[1] for v in vals for x in walk(v) if x[0] == 'param'}
    while f.path not in owners and f.kind == 'Closure' and f.path != top.path and f.parent in prog.fns:
        f = prog.fns[f.parent]      # captured variables are already expressed in the enclosing function's terms
    has_param = f.path in owners
    if not has_param or f.path == top.path or depth <= 0:
        return [(f, vals)]
    sites = [cs for cs in prog.callers().get(f.path, []) if not cs.indirect and cs.name == f.path and cs.fn.path != f.path]
    if not sites and f.kind == 'Closure':
        # a closure run by an Option / Result combinator on the payload of its receiver: `opt.and_then(|x| g(x))`
        parent, cb = creation_site(prog, f)
        users = [c for c in parent.calls if not c.indirect and any(g is f for g in prog.fn_item_args(c))] if parent is not None else []
        cu = combinator_use(prog, sl, f, parent, users[0]) if len(users) == 1 else None
        if cu is not None and cu[0] == 'success' and cu[2] is not None:
            m = {(f.path, 1): cu[2]}
            return lift(prog, sl, parent, [subst(v, m, sl) for v in vals], top, depth - 1)
    if not sites:
        return [(f, vals)]
    out = []
    for cs in sites:
        g = cs.fn
        argv = [sl.operand(g, a) for a in cs.args]
        if f.kind == 'Closure' and len(argv) == 2 and strip(argv[1])[0] == 'tuple':
            argv = [argv[0]] + list(strip(argv[1])[1])
        m = {(f.path, i): a for i, a in enumerate(argv)}
        out.extend(lift(prog, sl, g, [subst(v, m, sl) for v in vals], top, depth - 1))
    return out


# ---- recognisers ------------------------------------------------------------------------------------------

def same(a, b):
    return canon(strip(a)) == canon(strip(b))


def is_digits_test(prog, sl, v, parsed):
    """v = parsed.bytes()/chars().all(|c| c.is_ascii_digit())"""
    if not (v[0] == 'call' and v[1] == IT + 'all' and len(v[2]) == 2):
        return False
    src, cl = strip(v[2][0]), strip(v[2][1])
    if not (src[0] == 'call' and src[1] in ('core::str::<impl str>::bytes', 'core::str::<impl str>::chars') and same(src[2][0], parsed)):
        return False
    if cl[0] == 'closure' and cl[1] in prog.fns:
        body = prog.fns[cl[1]]
        bv = strip(sl.local(body, 0))
        return bv[0] == 'call' and bv[1].endswith('is_ascii_digit') and strip(bv[2][0])[0] == 'param'
    return cl[0] == 'fnitem' and cl[1].endswith('is_ascii_digit')


def is_nondigit_test(prog, sl, v, parsed):
    """v = parsed.bytes()/chars().any(|c| !c.is_ascii_digit()) or parsed.contains(|c: char| !c.is_ascii_digit()) — false
    exactly when all are digits (De Morgan; a non-ASCII char consists of bytes none of which is an ASCII digit)"""
    if v[0] == 'call' and v[1] == 'core::str::<impl str>::contains' and len(v[2]) == 2 and same(v[2][0], parsed):
        cl = strip(v[2][1])
    elif v[0] == 'call' and v[1] == IT + 'any' and len(v[2]) == 2:
        src, cl = strip(v[2][0]), strip(v[2][1])
        if not (src[0] == 'call' and src[1] in ('core::str::<impl str>::bytes', 'core::str::<impl str>::chars') and same(src[2][0], parsed)):
            return False
    else:
        return False
    if cl[0] == 'closure' and cl[1] in prog.fns:
        body = prog.fns[cl[1]]
        bv = strip(sl.local(body, 0))
        if bv[0] == 'un' and bv[1] == 'Not':
            bv = strip(bv[2])
            return bv[0] == 'call' and bv[1].endswith('is_ascii_digit') and strip(bv[2][0])[0] == 'param'
    return False


def is_starts_with(v, parsed, ch):
    return v[0] == 'call' and v[1] == 'core::str::<impl str>::starts_with' and len(v[2]) == 2 and same(v[2][0], parsed) \
        and strip(v[2][1]) == ('const', ch)


def is_eq_const(v, parsed, s):
    if not (v[0] == 'call' and v[1].endswith('::eq') and len(v[2]) == 2):
        return False
    a, b = v[2]
    return (same(a, parsed) and strip(b) == ('const', s)) or (same(b, parsed) and strip(a) == ('const', s))


def pipeline(v):
    """adapter names of an iterator expression from its source outwards, and the source value:
    split('.').map(f).collect() -> (['map', 'collect'], split call)"""
    names = []
    v = strip(v)
    while v[0] == 'call' and v[2] and (v[1].startswith(IT) or v[1] in ('std::iter::FromIterator::from_iter', 'std::iter::DoubleEndedIterator::rev')):
        names.append(v[1].split('::')[-1])
        v = strip(v[2][0])
    names.reverse()
    return names, v


# ---- pulling from an iterator by hand ---------------------------------------------------------------------

def pulls(sl, fn):
    """`let mut it = <iterator>; it.next(); it.next(); ..`: (iterator value, [next Calls in execution order]) when every
    `next()` of fn pulls from one iterator local that is defined once, used for nothing else and not pulled in a loop"""
    nexts = [c for c in fn.calls if not c.indirect and c.decl == IT + 'next' and c.args]
    if not nexts:
        return None
    locs = set()
    for c in nexts:
        pl = op_place(c.args[0])
        if not pl or len(pl) != 1:
            return None
        ds = fn.whole_defs(pl[0])
        if len(ds) != 1 or ds[0][0] != 'stmt' or ds[0][3]['r'] != 'ref' or not ds[0][3].get('mut') or len(ds[0][3]['p']) != 1:
            return None
        locs.add(ds[0][3]['p'][0])
    if len(locs) != 1:
        return None
    it = locs.pop()
    if len(fn.whole_defs(it)) != 1 or fn.partial_defs(it):
        return None
    uses = [u for u in fn.uses_of(it) if u[1] != 'drop' and u[0] in fn.reachable(0)]
    if len(uses) != len(nexts) or any(u[1] != 'stmt' or u[3] != 'refmut' for u in uses):
        return None
    if any(fn.in_loop(c.bb) for c in nexts):
        return None
    order = sorted(nexts, key=lambda c: len(fn.dominators().get(c.bb, ())))
    if any(not fn.dominates(a.bb, b.bb) or a.bb == b.bb for a, b in zip(order, order[1:])):
        return None
    return sl.local(fn, it), order


def pull_status(conds, fn, call):
    """what the branch decisions `conds` say about the result of one `it.next()`:
    subset of {'some', 'none', 'valid'} ('valid': the yielded Option element is itself Some)"""
    site = (fn.path, call.bb)
    st = set()
    for cd in conds:
        if cd.kind != 'variant' or cd.subject is None:
            continue
        s, depth, flat = cd.subject, 0, False
        while s[0] == 'unwrap':
            s, depth = s[1], depth + 1
        if s[0] == 'call' and s[1].startswith('std::option::Option::') and s[1].endswith('::flatten') and len(s[2]) == 1 and depth == 0:
            s, flat = s[2][0], True
        if not (s[0] == 'call' and s[1] == IT + 'next' and len(s) > 3 and s[3] == site):
            continue
        oc = set(cd.outcome)
        if flat:
            if oc == {'Some'}:
                st |= {'some', 'valid'}
        elif depth == 0:
            if oc == {'Some'}:
                st.add('some')
            elif oc == {'None'}:
                st.add('none')
        elif depth == 1 and oc == {'Some'}:
            st.add('valid')
    return st


# ---- destructuring ----------------------------------------------------------------------------------------------

def is_field_alias(fn, dest, bb):
    """`dest = move <x.field>` only renames the field: dest is a whole local assigned exactly once, in a block that every
    execution of fn passes (it dominates all return blocks and is in no loop), and never written partially"""
    if len(dest) != 1:
        return False
    loc = dest[0]
    if len(fn.whole_defs(loc)) != 1 or fn.partial_defs(loc) or fn.in_loop(bb):
        return False
    rets = fn.return_blocks()
    return bool(rets) and all(fn.dominates(bb, r) for r in rets)


def field_alias_value(sl, fn, pl):
    """('field', base, name) when place `pl` is a whole local that is_field_alias of a field"""
    if not pl or len(pl) != 1 or 1 <= pl[0] <= fn.argc:
        return None
    ds = fn.whole_defs(pl[0])
    if len(ds) != 1 or ds[0][0] != 'stmt' or ds[0][3]['r'] != 'use' or not is_field_alias(fn, (pl[0],), ds[0][1]):
        return None
    src = op_place(ds[0][3]['o'])
    if not src or len(src) < 2:
        return None
    v = strip(sl.place(fn, src))
    return v if v[0] == 'field' else None


# ---- regex-match decisions ------------------------------------------------------------------------------------

def match_literal(sl, lit):
    """(is_match call value, polarity) when the literal decides P = `is_match(..) == Ok(true)`:
    polarity True: the literal implies P; False: it excludes P (Err, Ok(false), `.unwrap_or(false)` false)"""
    v = lit.value
    if lit.kind == 'variant':
        if v[0] == 'call' and v[1] == 'fancy_regex::Regex::is_match' and 'Ok' not in lit.outcome:
            return v, False
        return None
    if lit.kind != 'bool':
        return None
    # normal form of the tested boolean: the success payload of the match result, whichever way it was taken out of
    # the Result (unwrap_or(false), unwrap_or_default(), `== Ok(true)`, a `map` / `and_then` over the compiled regex)
    for _ in range(6):
        if v[0] == 'call' and v[1].endswith('unwrap_or') and len(v[2]) == 2 and strip(v[2][1]) == ('const', False):
            v = sl.mk_unwrap(v[2][0], 1)
        elif v[0] == 'call' and v[1] in ('std::result::Result::<T, E>::unwrap_or_default', 'std::option::Option::<T>::unwrap_or_default') and len(v[2]) == 1:
            v = sl.mk_unwrap(v[2][0], 1)       # bool::default() is false
        elif v[0] == 'call' and v[1].endswith('::eq') and len(v[2]) == 2:
            # `r.is_match(v).ok() == Some(true)` / `r.is_match(v) == Ok(true)`: true iff the match result is Ok(true)
            nv = None
            for x, y in (v[2], v[2][::-1]):
                y = strip(y)
                if y[0] == 'agg' and y[2] in ('Some', 'Ok') and len(y[3]) == 1 and strip(y[3][0][1]) == ('const', True):
                    nv = payload_nf(sl, x)
                    break
            if nv is None:
                break
            v = nv
        elif v[0] == 'unwrap':
            nv = payload_nf(sl, v[1])
            if nv == v:
                break
            v = nv
        else:
            break
    if v[0] != 'unwrap':
        return None
    m = strip(v)
    if m[0] == 'call' and m[1] == 'fancy_regex::Regex::is_match' and len(m[2]) == 2:
        return m, lit.outcome
    return None


def deser_chain(prog, sl, ds):
    """(converter Call, String::deserialize Call) when the success payload of `deserialize` is
    conv(success payload of String::deserialize(d)) — whether spelled with `?`, and_then, map or match"""
    nf = sl.mk_unwrap(sl.local(ds, 0), 1)
    if nf[0] != 'unwrap':
        return None
    cv = nf[1]
    if not (cv[0] == 'call' and len(cv) > 3 and cv[3] and len(cv[2]) == 1):
        return None
    src = cv[2][0]
    if not (src[0] == 'unwrap' and src[1][0] == 'call' and len(src[1]) > 3 and src[1][3]):
        return None

    def call_at(site):
        g = prog.fns.get(site[0])
        return g.call_at(site[1]) if g is not None else None
    conv, sc = call_at(cv[3]), call_at(src[1][3])
    if conv is None or sc is None or not (sc.full and 'for std::string::String>::deserialize' in sc.full):
        return None
    return conv, sc


def display_pieces(sl, dsp):
    """what a Display::fmt writes, as format pieces (literal strings and values), when its result is one formatter
    call: write!(f, "..", ..) / f.write_str(&format!(..)) / f.write_str(x) / f.pad(x) / Display::fmt(x, f)"""
    import re
    v = strip(sl.local(dsp, 0))
    if v[0] != 'call' or len(v[2]) != 2:
        return display_pieces_seq(sl.prog, sl, dsp)
    n = re.sub(r'<[^<>]*>', '', v[1])
    if n.endswith(('Formatter::::write_fmt', 'Formatter::::write_str', 'Formatter::::pad', 'Formatter::write_fmt', 'Formatter::write_str', 'Formatter::pad')):
        text = v[2][1]
    elif n.endswith('Display::fmt') or v[1].endswith(' as std::fmt::Display>::fmt'):
        text = v[2][0]
    else:
        return None
    text = strip(text)
    return list(text[1]) if text[0] == 'fmt' else [text]


# ---- rendered text ----------------------------------------------------------------------------------------------

def seq_elems(sl, v, depth=0):
    """the elements of a finite literal sequence in order, with map closures applied:
    [a, b].map(f) / [a, b].iter().map(f).collect::<Vec<_>>() / once(a).chain([b]) -> [f(a), f(b)]; None when the
    elements are not a fixed list (joins of alternatives, filters, unknown sources)"""
    v = strip(v)
    if depth > 8:
        return None
    if v[0] == 'array':
        return list(v[1])
    if v[0] != 'call' or not v[2]:
        return None
    name, args = v[1], v[2]
    if name == 'std::iter::once' and len(args) == 1:
        return [args[0]]
    if name == IT + 'chain' and len(args) == 2:
        a, b = seq_elems(sl, args[0], depth + 1), seq_elems(sl, args[1], depth + 1)
        return None if a is None or b is None else a + b
    if (name == IT + 'map' or (name.startswith('std::array::<impl [') and name.endswith('::map'))) and len(args) == 2:
        src = seq_elems(sl, args[0], depth + 1)
        if src is None:
            return None
        out = [sl.apply_closure(strip(args[1]), (e,)) for e in src]
        return None if any(r is None for r in out) else out
    if len(args) == 1 and (name in (IT + 'collect', 'std::iter::FromIterator::from_iter', IT + 'cloned', IT + 'copied') or
                           (not name.startswith(IT) and name.endswith(('::iter', '::into_iter', '::to_vec', '::as_slice', '::into_vec')))):
        return seq_elems(sl, args[0], depth + 1)
    return None


def text_pieces(sl, v, depth=0):
    """what a string-valued expression renders, as format pieces (literal text, or a value standing for its Display
    output) — the same list for `format!("{}.{}", a, b)`, `[a, b].map(|x| x.to_string()).join(".")`,
    `a.to_string() + "." + &b.to_string()`"""
    v = strip(v)
    if depth > 6:
        return [v]
    out = []
    if v[0] == 'const' and isinstance(v[1], str):
        out = [v[1]]
    elif v[0] == 'fmt':
        for p in v[1]:
            out.extend([p] if isinstance(p, str) else text_pieces(sl, p, depth + 1))
    elif v[0] == 'call' and v[1].endswith('ToString>::to_string') and len(v[2]) == 1:
        out = text_pieces(sl, v[2][0], depth + 1)
    elif v[0] == 'call' and v[1].startswith('std::slice::<impl [') and v[1].endswith(('::join', '::concat')) and 1 <= len(v[2]) <= 2:
        elems = seq_elems(sl, v[2][0])
        sep = text_pieces(sl, v[2][1], depth + 1) if len(v[2]) == 2 else []
        if elems is None or not all(isinstance(p, str) for p in sep):
            return [v]
        for i, e in enumerate(elems):
            if i:
                out.extend(sep)
            out.extend(text_pieces(sl, e, depth + 1))
    else:
        return [v]
    merged = []
    for p in out:
        if isinstance(p, str) and merged and isinstance(merged[-1], str):
            merged[-1] += p
        elif p != '':
            merged.append(p)
    return merged


# ==== deepening round: what is validated is what was given, what is produced is what was validated ==================

def call_of(prog, v):
    """the Call fact behind a ('call', name, args, site) value"""
    if v[0] != 'call' or len(v) < 4 or not v[3]:
        return None
    g = prog.fns.get(v[3][0])
    return g.call_at(v[3][1]) if g is not None else None


def is_param(v, fn, idx):
    v = strip(v)
    return v[0] == 'param' and v[1] == fn.path and v[2] == idx


def deser_input(prog, sl, ds):
    """(converter Call, value handed to it, String::deserialize Call | None) read off the normal form of the success
    payload of `deserialize`; None when the payload is not one conversion call of one argument"""
    nf = sl.mk_unwrap(sl.local(ds, 0), 1)
    if nf[0] != 'unwrap':
        return None
    cv = nf[1]
    if cv[0] != 'call' or len(cv[2]) != 1:
        return None
    conv = call_of(prog, cv)
    if conv is None:
        return None
    inp = cv[2][0]
    sc = None
    if inp[0] == 'unwrap' and inp[1][0] == 'call':
        c = call_of(prog, inp[1])
        if c is not None and c.full and 'for std::string::String>::deserialize' in c.full and len(inp[1][2]) == 1 \
                and is_param(inp[1][2][0], ds, 0):
            sc = c
    return conv, inp, sc


def lifted_to(prog, sl, g, vals, top):
    """vals of g re-expressed in top's terms: [values] per call chain; None entries where a chain does not end in top"""
    out = []
    for t, vs in lift(prog, sl, g, list(vals), top):
        out.append(vs if t.path == top.path else None)
    return out


def fmt_conversions(prog, fn):
    """how the format machinery is used in everything fn may enter in its crate: [(what, where)] for every placeholder
    that is not a plain `{}` (flags, width, precision) and every argument not formatted with Display"""
    from .lib.value import decode_fmt_template
    bad = []
    for g in region(prog, fn):
        for c in g.calls:
            d = c.decl or ''
            if d.startswith('core::fmt::rt::Argument::') and '::new_' in d:
                kind = d.split('::new_')[-1].split('::')[0]
                ty = (c.full or '').split('::new_' + kind + '::<')[-1].rstrip('>')
                # Debug and Display of a primitive integer are the same text
                if kind != 'display' and not (kind == 'debug' and ty in ('u8', 'u16', 'u32', 'u64', 'u128', 'usize')):
                    bad.append(('argument formatted with %s' % kind, c.where()))
            elif d.startswith('std::fmt::Arguments::') and d.endswith('::new') and c.args:
                k = c.args[0]
                tpl = None
                pl = op_place(k)
                if pl is not None and len(pl) >= 1:
                    # template: `_n = const b".."; _m = &_n` -> the constant
                    loc = pl[0]
                    for _ in range(4):
                        ds = g.whole_defs(loc)
                        if len(ds) != 1 or ds[0][0] != 'stmt':
                            break
                        rv = ds[0][3]
                        if rv['r'] == 'ref':
                            loc = rv['p'][0]
                            continue
                        if rv['r'] == 'use' and isinstance(rv['o'], dict) and 'k' in rv['o']:
                            vv = rv['o']['k'].get('v')
                            if isinstance(vv, dict) and 'bytes' in vv:
                                tpl = vv['bytes'].encode('latin-1') if isinstance(vv['bytes'], str) else bytes(vv['bytes'])
                            break
                        if rv['r'] == 'use':
                            p2 = op_place(rv['o'])
                            if p2:
                                loc = p2[0]
                                continue
                        break
                if tpl is None:
                    bad.append(('format template not a constant', c.where()))
                    continue
                i = 0
                while i < len(tpl):
                    n = tpl[i]
                    i += 1
                    if n == 0:
                        break
                    if n < 0x80:
                        i += n
                    elif n == 0x80:
                        i += 2 + (tpl[i] | (tpl[i + 1] << 8))
                    elif n == 0xC0:
                        pass
                    else:
                        if n & 7:
                            bad.append(('placeholder with flags / width / precision', c.where()))
                        if n & 1:
                            i += 4
                        if n & 2:
                            i += 2
                        if n & 4:
                            i += 2
                        if n & 8:
                            i += 2
            elif d.startswith('std::fmt::Arguments::') and d.endswith('::new_v1_formatted'):
                bad.append(('formatted placeholders', c.where()))
    return bad


def payloads(sl, v, depth=0):
    """the values an Option/Result-valued expression can carry as its success payload, None/Err alternatives dropped:
    a set of values; `('unwrap', call)` stands for the success payload of an opaque call.  The same set for
    `if ok { s.parse().ok() } else { None }`, `ok.then(|| s.parse().ok()).flatten()`, `ok.then(|| s.parse().ok())?`"""
    if depth > 10:
        return {('unknown', 'depth')}
    if v[0] == 'unwrap':
        out = set()
        for p in payloads(sl, v[1], depth + 1):
            out |= payloads(sl, p, depth + 1) if p[0] != 'unwrap' else {('unwrap', p)}
        return out
    if v[0] == 'phi':
        out = set()
        for x in v[1]:
            out |= payloads(sl, x, depth + 1)
        return out
    if v[0] == 'agg' and v[1] in ('std::option::Option', 'std::result::Result'):
        if v[2] in ('None', 'Err'):
            return set()
        return {v[3][0][1]} if len(v[3]) == 1 else {('unknown', 'agg')}
    if v[0] == 'call' and v[2]:
        n, a = v[1], v[2]
        if n.endswith('FromResidual::from_residual'):
            return set()    # `x?` leaving with the failure of x: None / Err, no success payload
        if n in ('std::result::Result::<T, E>::ok', 'std::option::Option::<T>::ok_or', 'std::option::Option::<T>::ok_or_else',
                 'std::result::Result::<T, E>::map_err', 'std::option::Option::<T>::filter'):
            return payloads(sl, a[0], depth + 1)
        if n.endswith('>::flatten') and n.startswith('std::option::Option::'):
            out = set()
            for p in payloads(sl, a[0], depth + 1):
                out |= payloads(sl, p, depth + 1)
            return out
        if n.endswith('bool>::then') or n == 'core::bool::<impl bool>::then':
            r = sl.apply_closure(strip(a[1]), ()) if len(a) == 2 else None
            return {r} if r is not None else {('unknown', 'then')}
        if n.endswith('bool>::then_some') or n == 'core::bool::<impl bool>::then_some':
            return {a[1]} if len(a) == 2 else {('unknown', 'then_some')}
        if n in ('std::option::Option::<T>::and_then', 'std::result::Result::<T, E>::and_then') and len(a) == 2:
            out = set()
            for p in payloads(sl, a[0], depth + 1):
                r = sl.apply_closure(strip(a[1]), (p,))
                if r is None:
                    return {('unknown', 'and_then')}
                out |= payloads(sl, r, depth + 1)
            return out
        if n in ('std::option::Option::<T>::map', 'std::result::Result::<T, E>::map') and len(a) == 2:
            out = set()
            for p in payloads(sl, a[0], depth + 1):
                r = sl.apply_closure(strip(a[1]), (p,))
                out.add(r if r is not None else ('unknown', 'map'))
            return out
        if n in sl.prog.fns:
            # a workspace helper: what it returns, in the caller's terms
            iv = sl.inline_call(v)
            if iv is not None and iv != v:
                return payloads(sl, iv, depth + 1)
    return {('unwrap', v)}


# ==== robustness round 3 ==============================================================================================

PARSE_STREAM = "syn::parse::ParseBuffer::<'a>::parse"


def _instantiate(ty, links):
    """type argument `ty` of a call inside a generic private helper, instantiated along the call chain: a bare generic
    parameter name is bound by matching the helper's declared return / argument types against the types at its call"""
    import re
    for l in reversed(links):
        if ty is None or not re.fullmatch(r'[A-Z]\w*', ty):
            break
        h = None
        for n in (l.call.res, l.call.name, l.call.decl):
            h = h or (n and l.call.fn.prog.fns.get(n))
        if h is None:
            return None
        pat = re.escape(h.ret or '').replace(re.escape(ty), '(.+)', 1) if re.search(r'\b%s\b' % ty, h.ret or '') else None
        m = re.fullmatch(pat, l.call.dty or '') if pat else None
        if m is None:
            ga = getattr(l.call, 'ga', None) or []
            if len(ga) == 1:
                ty = ga[0]
                continue
            return None
        ty = m.group(1)
    return ty


def stream_reads(prog, sl, g):
    """the tokens a syn Parse impl takes from its input stream on every successful run, in execution order, through
    private helpers (generic ones instantiated at their call): ([(type read, Eff)], [Eff of reads that happen only on
    some runs])"""
    from .lib.effects import Effects, Link
    vocab = {PARSE_STREAM: ('STREAM', 0)}
    # `<T as Parse>::parse(input)` for a type T outside the workspace is what `input.parse::<T>()` runs
    for h in region(prog, g):
        for c in h.calls:
            if c.decl == 'syn::parse::Parse::parse' and c.res and c.res not in prog.fns and len(c.args) == 1:
                vocab[c.res] = ('STREAM', 0)
    E = Effects(prog, sl, vocab=vocab)
    must = [e for e in E.expand(g, 'must') if e.kind == 'STREAM']
    may = [e for e in E.expand(g, 'may') if e.kind == 'STREAM']

    def key(e):
        return tuple((l.call.fn.path, l.call.bb) for l in e.chain if isinstance(l, Link)) + ((e.call.fn.path, e.call.bb),)
    always = {key(e) for e in must}
    out = []
    for e in must:
        ga = getattr(e.call, 'ga', None) or []
        ty = ga[-1] if ga else None
        out.append((_instantiate(ty, [l for l in e.chain if isinstance(l, Link)]), e))
    return out, [e for e in may if key(e) not in always or e.forall is not None]


def read_top(e):
    """the call in the entry function through which read e happens"""
    return e.chain[0].call if e.chain else e.call


def read_result(prog, sl, g, v, e):
    """v (a value of g) is the success payload of stream read e itself: the call it names is the one that (through
    private helpers) performs e, on g's own input stream, and what that call returns is e's result, unmodified"""
    v = strip(v)
    c = call_of(prog, v)
    top = read_top(e)
    if c is None or c is not top or not is_param(e.path, g, 0):
        return False
    if not e.chain:
        return len(v[2]) == 1 and is_param(v[2][0], g, 0)
    iv = sl.inline_deep(('unwrap', v))
    if iv[0] != 'unwrap' or iv[1][0] != 'call':
        return False
    core = iv[1]
    return call_of(prog, core) is e.call and len(core[2]) == 1 and is_param(core[2][0], g, 0)


def failure_ways(PC, v, depth=0):
    """the ways an Option / Result valued expression is None / Err, as a disjunction of conjunctions of literals
    ([] = never, [()] = always); None when that is not decided by the combinators understood here:
        Some(..)/Ok(..) never, None/Err(..) always;  cond.then(f) / cond.then_some(x): iff cond is false (a private
        predicate deciding by control flow: the ways through its body that return false);
        x.ok_or(e) / x.ok_or_else(f) / x.map(f) / x.map_err(f) / x.ok() / x.inspect(..): iff x is"""
    sl = PC.sl
    if depth > 8 or not isinstance(v, tuple) or not v:
        return None
    v = with_statics(PC.prog, sl, v)
    if v[0] == 'agg' and v[1] in ('std::option::Option', 'std::result::Result'):
        return [()] if v[2] in ('None', 'Err') else []
    if v[0] == 'phi':
        return None
    if v[0] != 'call' or not v[2]:
        return None
    n, a = v[1], v[2]
    if n.endswith(('bool>::then', 'bool>::then_some')) or n in ('core::bool::<impl bool>::then', 'core::bool::<impl bool>::then_some'):
        if len(a) != 2:
            return None
        lit = PC.bool_literal(a[0], False)
        if lit is False:
            return []
        if lit is None:
            return [()]
        if isinstance(lit, tuple):
            return [tuple(x) for x in lit[1]]
        return [(lit,)]
    if n in _PASSTHROUGH:
        return failure_ways(PC, a[0], depth + 1)
    if n == 'std::option::Option::<T>::filter' and len(a) == 2:
        # None when the receiver is None, or it is Some(x) and the predicate is false on x
        inner, some = failure_ways(PC, a[0], depth + 1), success_ways(PC, a[0], depth + 1)
        pred = PC.closure_ways(a[1], (payload_nf(sl, a[0]),), False)
        if inner is None or some is None or pred is None:
            return None
        return [tuple(w) for w in inner] + [tuple(w) + tuple(x) for w in some for x in pred]
    if n in ('std::option::Option::<T>::and_then', 'std::result::Result::<T, E>::and_then') and len(a) == 2:
        inner, some = failure_ways(PC, a[0], depth + 1), success_ways(PC, a[0], depth + 1)
        body = sl.apply_closure(strip(a[1]), (payload_nf(sl, a[0]),))
        rest = failure_ways(PC, body, depth + 1) if body is not None else None
        if inner is None or some is None or rest is None:
            return None
        return [tuple(w) for w in inner] + [tuple(w) + tuple(x) for w in some for x in rest]
    k = _known_kind(PC.prog, v)
    if k is not None and depth > 0:
        return [(variant_lit(v, k, False),)]     # an opaque Option / Result behind a combinator: None / Err, as a decision
    return None


def fold_len(v, depth=0):
    """v with the length of a fixed-size array replaced by the constant it is: `[x; N].len()`, `[a, b, c].len()` —
    whatever was stored into the array since (its content does not matter to the length)"""
    if not isinstance(v, tuple) or not v or depth > 30:
        return v
    if v[0] in ('const', 'param', 'fnitem', 'constitem', 'unknown', 'closure_env', 'upvar'):
        return v
    if v[0] == 'call' and v[1] == 'core::slice::<impl [T]>::len' and len(v[2]) == 1:
        a = v[2][0]
        while a[0] in ('unwrap', 'updated'):
            a = a[1]
        if a[0] == 'repeat' and str(a[2]).isdigit():
            return ('const', int(a[2]))
        if a[0] == 'array':
            return ('const', len(a[1]))
    return tuple(fold_len(x, depth + 1) if isinstance(x, tuple) else x for x in v)


# ---- loops that count what they iterate -------------------------------------------------------------------------

class CountingLoop:
    """`let mut k = 0; for x in <iter> { ..; k += 1 }`: k is assigned nowhere else, never borrowed mutably, and the
    increment lies on every way round the loop exactly once.  Invariant: at the loop head k is the number of elements
    taken so far that completed the body; on the exhaustion edge (next() == None) it is the number of elements of
    <iter>, provided every element's iteration reached the latch — which holds for whatever is reached only through
    that edge."""

    def __init__(self, fn, loop, k, inc_bb, inc_si):
        self.fn, self.loop, self.k, self.inc_bb, self.inc_si = fn, loop, k, inc_bb, inc_si


def _loops(fn, sl):
    from .lib.effects import find_loops
    return find_loops(fn, sl)


def _int_const(op):
    from .lib.mir import const_value
    k = op_const(op)
    v = const_value(k) if k is not None else None
    return v if isinstance(v, int) and not isinstance(v, bool) else None


def counting_loops(fn, sl):
    loops = _loops(fn, sl)
    out = []
    for L in loops:
        if getattr(L, 'exhaust', None) is None:
            continue
        if any(L2 is not L and L.header in L2.body and L2.header != L.header for L2 in loops):
            continue    # nested in another loop: "after the loop" is not one point in time
        inner = [L2 for L2 in loops if L2.header != L.header and L2.header in L.body]
        for k in range(fn.argc + 1, len(fn.locals)):
            ds = fn.whole_defs(k)
            if len(ds) != 2 or fn.partial_defs(k) or any(d[0] != 'stmt' for d in ds):
                continue
            init = [d for d in ds if d[1] not in L.body]
            step = [d for d in ds if d[1] in L.body]
            if len(init) != 1 or len(step) != 1:
                continue
            d0, d1 = init[0], step[0]
            if not (d0[3]['r'] == 'use' and _int_const(d0[3]['o']) == 0 and fn.dominates(d0[1], L.header) and not fn.in_loop(d0[1])):
                continue
            # k = k + 1 (checked: `tmp = AddWithOverflow(copy k, 1); assert; k = move tmp.0`, unchecked: `k = Add(copy k, 1)`)
            rv = d1[3]
            add = None
            if rv['r'] == 'bin':
                add = rv
            elif rv['r'] == 'use':
                pl = op_place(rv['o'])
                if pl and len(pl) == 2 and pl[1] == '.0':
                    td = fn.whole_defs(pl[0])
                    if len(td) == 1 and td[0][0] == 'stmt' and td[0][3]['r'] == 'bin' and not fn.partial_defs(pl[0]) and td[0][1] in L.body \
                            and (td[0][1] == d1[1] or fn.dominates(td[0][1], d1[1])):
                        add = td[0][3]
            if add is None or add.get('op') not in ('Add', 'AddWithOverflow', 'AddUnchecked'):
                continue
            ops = [add['a'], add['b']]
            if not any(op_place(o) == [k] for o in ops) or not any(_int_const(o) == 1 for o in ops):
                continue
            if not all(fn.dominates(d1[1], l) or d1[1] == l for l in L.latches):
                continue
            if any(d1[1] in L2.body for L2 in inner):
                continue
            if any(u[3] in ('refmut',) for u in fn.uses_of(k)):
                continue
            out.append(CountingLoop(fn, L, k, d1[1], d1[2]))
    return out


def _after(fn, L, bb):
    from .lib.guards import edge_dominates
    return edge_dominates(fn, L.exhaust[0], L.exhaust[1], bb)


def _reads_after(fn, L, op, k, bb, depth=0):
    """operand `op`, evaluated in block bb, is the value local k has after loop L ran to exhaustion"""
    pl = op_place(op)
    if pl is None or len(pl) != 1 or depth > 6:
        return False
    if pl[0] == k:
        return _after(fn, L, bb)
    ds = fn.whole_defs(pl[0])
    if len(ds) != 1 or ds[0][0] != 'stmt' or ds[0][3]['r'] != 'use' or fn.partial_defs(pl[0]):
        return False
    return _reads_after(fn, L, ds[0][3]['o'], k, ds[0][1], depth + 1)


def _array_len(fn, loc):
    import re
    m = re.fullmatch(r'\[.*; (\d+)\]', fn.locals[loc].get('ty') or '') if 0 <= loc < len(fn.locals) else None
    return int(m.group(1)) if m else None


def _const_operand(fn, op, depth=0):
    """integer an operand denotes: a literal, or the length of a fixed-size array local (`arr.len()`)"""
    n = _int_const(op)
    if n is not None or depth > 6:
        return n
    pl = op_place(op)
    if pl is None or len(pl) != 1:
        return None
    ds = fn.whole_defs(pl[0])
    if len(ds) != 1 or fn.partial_defs(pl[0]):
        return None
    d = ds[0]
    if d[0] == 'stmt' and d[3]['r'] in ('use', 'cast') and 'o' in d[3]:
        return _const_operand(fn, d[3]['o'], depth + 1)
    if d[0] == 'stmt' and d[3]['r'] == 'ref' and len(d[3]['p']) == 1:
        return ('arr', d[3]['p'][0])
    if d[0] == 'call' and d[3].is_('core::slice::<impl [T]>::len') and len(d[3].args) == 1:
        a = _const_operand(fn, d[3].args[0], depth + 1)
        if isinstance(a, tuple) and a[0] == 'arr':
            return _array_len(fn, a[1])
    return None


def exact_count(fn, sl, cl, bb):
    """N when block bb is reached only after the counting loop ran to exhaustion and under `k == N`, tested after
    the loop: the iterated expression has exactly N elements there"""
    L = cl.loop
    if not _after(fn, L, bb):
        return None
    for cd in conditions(fn, bb, sl):
        if cd.kind != 'bool' or not isinstance(cd.outcome, bool) or not _after(fn, L, cd.sw_bb):
            continue
        t = fn.blocks[cd.sw_bb]['t']
        pl = op_place(t.get('o'))
        if t['t'] != 'switch' or pl is None or len(pl) != 1:
            continue
        ds = fn.whole_defs(pl[0])
        # `k == N` taken as true, or `k != N` taken as false
        if len(ds) != 1 or ds[0][0] != 'stmt' or ds[0][3]['r'] != 'bin' or fn.partial_defs(pl[0]) \
                or ds[0][3].get('op') != ('Eq' if cd.outcome else 'Ne'):
            continue
        eb = ds[0][1]
        if not _after(fn, L, eb):
            continue
        a, b = ds[0][3]['a'], ds[0][3]['b']
        for x, y in ((a, b), (b, a)):
            if _reads_after(fn, L, x, cl.k, eb):
                n = _const_operand(fn, y)
                if isinstance(n, int):
                    return n
    return None


def loop_element(fn, sl, L):
    """the value bound by `for x in ..` / `while let Some(x) = it.next()`: the payload of the loop's next()"""
    return ('unwrap', sl._call_value(fn, L.next_call, set(), 0))


def split_source(v):
    """(adapter names, split call) of an iterated expression with `into_iter` / `by_ref` read as transparent"""
    names, src = pipeline(v)
    return [n for n in names if n not in ('into_iter', 'by_ref')], src


def filled_array_reads(fn, sl, cl, v, bb):
    """v = A[i] read in block bb, A a fixed-size array local of length N that the counting loop fills: the only element
    writes are `A[j] = x` with j a copy of the counter taken in the same iteration before the increment, in a block on
    every way round the loop; bb is reached only with exactly N elements iterated and i < N.  Then slot i holds what
    iteration i stored (the initial content is never read): the values stored, else None."""
    if not (isinstance(v, tuple) and v[0] == 'index' and isinstance(v[2], str)):
        return None
    import re
    m = re.fullmatch(r'\[(\d+)\]', v[2])
    base = v[1]
    slot = int(m.group(1)) if m else None
    im = re.fullmatch(r'\[_(\d+)\]', v[2])
    if im is not None:      # `A[i]` with `i = const n`
        ds = fn.whole_defs(int(im.group(1)))
        if len(ds) == 1 and ds[0][0] == 'stmt' and ds[0][3]['r'] == 'use' and not fn.partial_defs(int(im.group(1))):
            slot = _int_const(ds[0][3]['o'])
    if slot is None or base[0] != 'updated' or base[1][0] not in ('repeat', 'array'):
        return None
    L = cl.loop
    # which local: the array written by index inside the loop
    cands = []
    for loc in range(fn.argc + 1, len(fn.locals)):
        n = _array_len(fn, loc)
        pds = fn.partial_defs(loc)
        if n is None or not pds:
            continue
        if canon(sl.local(fn, loc)) == canon(base):
            cands.append((loc, n, pds))
    if len(cands) != 1:
        return None
    loc, n, pds = cands[0]
    if not (0 <= slot < n) or exact_count(fn, sl, cl, bb) != n or len(fn.whole_defs(loc)) != 1:
        return None
    # the symbolic read does not say when it happens: every indexed read of A must lie behind the loop and `k == N`
    reads = [u for u in fn.uses_of(loc) if len(u[4]) >= 2 and str(u[4][1]).startswith('[') and u[0] in fn.reachable(0)]
    if not reads or any(exact_count(fn, sl, cl, u[0]) != n for u in reads):
        return None
    if any(u[3] == 'refmut' for u in fn.uses_of(loc)):
        return None
    for d in pds:
        if d[0] != 'stmt' or len(d[4]) != 2 or d[4][0] != loc:
            return None
        im = re.fullmatch(r'\[_(\d+)\]', str(d[4][1]))
        if im is None or d[1] not in L.body:
            return None
        j = int(im.group(1))
        jd = fn.whole_defs(j)
        if len(jd) != 1 or jd[0][0] != 'stmt' or jd[0][3]['r'] != 'use' or op_place(jd[0][3]['o']) != [cl.k] or fn.partial_defs(j):
            return None
        jb, wb = jd[0][1], d[1]
        # copy of k -> write -> increment, in this order within one iteration, the write on every way round
        if jb not in L.body or not (jb == wb or fn.dominates(jb, wb)) or (jb == wb and jd[0][2] > d[2]):
            return None
        if not (wb == cl.inc_bb or fn.dominates(wb, cl.inc_bb)) or (wb == cl.inc_bb and d[2] > cl.inc_si):
            return None
        if jb == cl.inc_bb and jd[0][2] > cl.inc_si:
            return None
        if fn.dominates(cl.inc_bb, jb) and cl.inc_bb != jb:
            return None
    return [val for _, val in base[2]]


# ==== robustness round 4 ==============================================================================================
# ---- values kept in statics -----------------------------------------------------------------------------------------
# A loop-invariant computation hoisted into a lazily initialised static (`static RX: LazyLock<T> = LazyLock::new(init)`,
# `static RX: OnceLock<T>` + `RX.get_or_init(init)`) denotes what `init()` returns: the initialiser has no parameters and
# captures nothing, so its value is the one every call computed before.  The facts name a static at its use only by an
# allocation id and its type (`{alloc7: &LazyLock<..>}`); which static item that is follows from Rust's scoping: a static
# declared inside a function can only be named inside that function (its closures and nested items), so among the
# immutable statics of that type the candidates are those declared at module level and those declared in a function that
# encloses every user of the id.  Exactly one candidate: that is the one.

_STATIC_PP = None
LAZY_TYPES = ('std::sync::LazyLock<', 'std::cell::LazyCell<', 'once_cell::sync::Lazy<', 'once_cell::unsync::Lazy<')
ONCE_TYPES = ('std::sync::OnceLock<', 'std::cell::OnceCell<', 'once_cell::sync::OnceCell<', 'once_cell::unsync::OnceCell<')
_TABLES = {}


def _static_pp(pp):
    global _STATIC_PP
    if _STATIC_PP is None:
        import re
        _STATIC_PP = re.compile(r'^\{alloc\d+: &(.+)\}$')
    m = _STATIC_PP.match(pp) if isinstance(pp, str) else None
    return m.group(1) if m else None


def _const_pps(node, out):
    """pretty-printed forms of the un-named constants used in a MIR fragment"""
    if isinstance(node, dict):
        k = node.get('k')
        if isinstance(k, dict) and 'item' not in k and 'fn' not in k and isinstance(k.get('pp'), str) and k['pp'].startswith('{alloc'):
            out.append(k['pp'])
        for x in node.values():
            if isinstance(x, (dict, list)):
                _const_pps(x, out)
    elif isinstance(node, list):
        for x in node:
            if isinstance(x, (dict, list)):
                _const_pps(x, out)


def static_table(prog):
    """{pp of a static reference: (static Fn, [(user Fn, number of occurrences)])} for the references that name exactly
    one immutable static (see above)"""
    key = id(prog)
    if key in _TABLES and _TABLES[key][0] is prog:
        return _TABLES[key][1]
    users = {}
    for g in prog.fns.values():
        if g.derived or (g.kind or '').startswith('Static'):
            continue
        pps = []
        _const_pps(g.blocks, pps)
        for pp in pps:
            if _static_pp(pp) is not None:
                d = users.setdefault(pp, {})
                d[g.path] = d.get(g.path, 0) + 1
    statics = [s for s in prog.fns.values() if (s.kind or '').startswith('Static') and 'mutability: Not' in s.kind]
    table = {}
    for pp, us in users.items():
        ty = _static_pp(pp)
        ufs = [prog.fns[p] for p in us]
        if len({g.crate for g in ufs}) != 1:
            continue
        cands = []
        for s in statics:
            if s.ret != ty or s.crate != ufs[0].crate:
                continue
            scope = s.parent if s.parent in prog.fns else None
            if scope is None and s.path.rsplit('::', 1)[0] in prog.fns:
                scope = s.path.rsplit('::', 1)[0]
            if scope is None or all(g.path == scope or g.path.startswith(scope + '::') for g in ufs):
                cands.append(s)
        if len(cands) == 1:
            table[pp] = (cands[0], [(prog.fns[p], n) for p, n in us.items()])
    _TABLES[key] = (prog, table)
    return table


def _run_init(sl, init):
    init = strip(init)
    if init[0] == 'cast':
        init = strip(init[1])
    if init[0] == 'closure' and not init[2]:
        return sl.apply_closure(init, ())
    if init[0] == 'fnitem' and init[1] in sl.prog.fns and sl.prog.fns[init[1]].argc == 0:
        return sl.apply_closure(init, ())
    return None


def lazy_content(prog, sl, pp):
    """what dereferencing the lazily initialised static behind `pp` yields: the value of its initialiser; else None"""
    row = static_table(prog).get(pp)
    if row is None:
        return None
    s = row[0]
    if not (s.ret or '').startswith(LAZY_TYPES):
        return None
    v = strip(sl.local(s, 0))
    if v[0] == 'call' and v[1].endswith('::new') and len(v[2]) == 1:
        return _run_init(sl, v[2][0])
    return None


def once_content(prog, sl, v):
    """v = ONCE.get_or_init(init) on a write-once static: what init() yields, when every use of that static in the
    program is a get_or_init with the same initialiser value (whoever comes first, the cell holds that value)"""
    if not (v[0] == 'call' and v[1].endswith('::get_or_init') and len(v[2]) == 2 and v[2][0][0] == 'constitem'):
        return None
    pp = v[2][0][2]
    row = static_table(prog).get(pp)
    if row is None or not (row[0].ret or '').startswith(ONCE_TYPES):
        return None
    mine = _run_init(sl, v[2][1])
    if mine is None or any(x[0] in ('param', 'upvar', 'closure_env', 'unknown') for x in walk(mine)):
        return None
    for g, n in row[1]:
        inits = [c for c in g.calls if (c.name or '').endswith('::get_or_init') and len(c.args) == 2
                 and sl.operand(g, c.args[0]) == ('constitem', None, pp)]
        if len(inits) != n:
            return None     # the static is also used in another way (set, take, handed on)
        for c in inits:
            other = _run_init(sl, sl.operand(g, c.args[1]))
            if other is None or canon(other) != canon(mine):
                return None
    return mine


def with_statics(prog, sl, v, depth=0):
    """v with references to lazily initialised / write-once statics replaced by the value they hold"""
    if not isinstance(v, tuple) or not v or depth > 40:
        return v
    if v[0] == 'constitem':
        if v[1] is None and _static_pp(v[2]) is not None:
            c = lazy_content(prog, sl, v[2])
            if c is not None:
                return c
        return v
    if v[0] in ('const', 'param', 'fnitem', 'unknown', 'closure_env', 'upvar'):
        return v
    if v[0] == 'call' and len(v) > 2 and len(v[2]) == 2 and v[1].endswith('::get_or_init'):
        c = once_content(prog, sl, v)
        if c is not None:
            return c
    if not any(x[0] == 'constitem' for x in walk(v) if isinstance(x, tuple) and x):
        return v
    return tuple(with_statics(prog, sl, x, depth + 1) if isinstance(x, tuple) else x for x in v)


def static_fns(prog, fns):
    """the statics the functions `fns` refer to (resolved as above), with everything their initialisers may enter"""
    table = static_table(prog)
    out = []
    for g in fns:
        pps = []
        _const_pps(g.blocks, pps)
        for pp in pps:
            row = table.get(pp)
            if row is not None and row[0] not in out:
                out.append(row[0])
    return out


# ---- Serialize of a string newtype ------------------------------------------------------------------------------------

def serialize_forms(prog, sl, t):
    """how `Serialize for t` hands the value to the serializer, derived or hand-written alike: a list with one entry per
    way serialize returns — 'newtype' for `serializer.serialize_newtype_struct(<constant name>, &self.0)`, 'str' for
    the stored string itself (`serialize_str(&self.0)`, `self.0.serialize(serializer)`, `collect_str(&self.0)`), else a
    rendering of the value; None when there is not exactly one impl.  In both accepted forms the only data the
    serializer sees is field 0 of self, unmodified, and the serializer is the one passed in."""
    import re
    from .lib.value import vstr
    rx = re.escape(t)
    fs = [f for p, f in prog.fns.items() if re.search(r"Serialize for %s>::serialize$" % rx, p) or re.search(r"^<%s as .*Serialize>::serialize$" % rx, p)]
    if len(fs) != 1:
        return None
    f = fs[0]
    v = sl.inline_deep(sl.local(f, 0))
    alts = v[1] if v[0] == 'phi' else [v]

    def stored(x):
        x = strip(x)
        return (x[0] == 'field' and x[2] == '0' and is_param(x[1], f, 0)) or self_as_field0(prog, sl, f, x)
    out = []
    for a in alts:
        a = strip(a)
        form = None
        if a[0] == 'call':
            meth = re.sub(r'<[^<>]*>', '', a[1]).rsplit('::', 1)[-1]
            args = a[2]
            if meth == 'serialize_newtype_struct' and len(args) == 3 and is_param(args[0], f, 1) and strip(args[1])[0] == 'const' and stored(args[2]):
                form = 'newtype'
            elif meth in ('serialize_str', 'collect_str') and len(args) == 2 and is_param(args[0], f, 1) and stored(args[1]):
                form = 'str'
            elif meth == 'serialize' and len(args) == 2 and stored(args[0]) and is_param(args[1], f, 1):
                form = 'str'
        out.append(form or vstr(a)[:100])
    return out


# ---- the two halves of an API version ----------------------------------------------------------------------------------

def pull_key(v):
    """canon(v), except that calls of Iterator::next keep their site: two pulls from one iterator are different values"""
    if not isinstance(v, tuple) or not v:
        return v
    if v[0] == 'call' and len(v) == 4:
        if v[1] == IT + 'next':
            return ('call', v[1], tuple(pull_key(x) for x in v[2]), v[3])
        return ('call', v[1], tuple(pull_key(x) for x in v[2]))
    if v[0] == 'icall' and len(v) == 4:
        return ('icall', pull_key(v[1]), tuple(pull_key(x) for x in v[2]))
    return tuple(pull_key(x) if isinstance(x, tuple) else x for x in v)


def is_splitn2(v, tf):
    """v = <param 0 of tf>.splitn(2, '.')"""
    v = strip(v)
    return v[0] == 'call' and v[1] == 'core::str::<impl str>::splitn' and len(v[2]) == 3 and is_param(v[2][0], tf, 0) \
        and strip(v[2][1]) == ('const', 2) and strip(v[2][2]) == ('const', '.')


def splitn_halves(prog, sl, tf):
    """`let mut it = value.splitn(2, '.')` pulled exactly twice, in order: the first item is the text before the first
    '.' (the whole string when there is none; it always exists, so whatever stands in for a missing item is never used),
    the second item is the complete remainder and exists iff there is a '.' — the pair split_once('.') yields.
    Returns ({keys of values denoting the first half}, {keys of values denoting the second half with "0" standing in when
    it is missing}) or None."""
    from .lib.tables import arm_defs
    pl = pulls(sl, tf)
    if pl is None or not is_splitn2(pl[0], tf) or len(pl[1]) != 2:
        return None
    n = [sl._call_value(tf, c, set(), 0) for c in pl[1]]
    firsts, seconds = {pull_key(('unwrap', n[0]))}, set()
    for c in tf.calls:
        if c.indirect or not c.args or not (c.name or '').startswith('std::option::Option::'):
            continue
        a0 = sl.operand(tf, c.args[0])
        meth = c.name.rsplit('::', 1)[-1]
        if a0 == n[0] and meth in ('unwrap_or', 'unwrap_or_default', 'unwrap_or_else'):
            firsts.add(pull_key(strip(sl._call_value(tf, c, set(), 0))))
        if a0 == n[1] and meth == 'unwrap_or' and len(c.args) == 2 and strip(sl.operand(tf, c.args[1])) == ('const', '0'):
            seconds.add(pull_key(strip(sl._call_value(tf, c, set(), 0))))
    # `match it.next() { Some(m) => m, None => "0" }` / let-else spellings of the default
    for loc in range(tf.argc + 1, len(tf.locals)):
        if len(tf.whole_defs(loc)) != 2:
            continue
        some = none = False
        for bi, v, conds in arm_defs(tf, loc, sl):
            vs = [cd for cd in conds if cd.kind == 'variant' and cd.subject is not None and cd.subject == n[1]]
            if v == ('unwrap', n[1]) and any(cd.outcome == frozenset(['Some']) for cd in vs):
                some = True
            elif strip(v) == ('const', '0') and any(cd.outcome == frozenset(['None']) for cd in vs):
                none = True
        if some and none:
            seconds.add(pull_key(strip(sl.local(tf, loc))))
    return (firsts, seconds) if seconds else None


def decision_core(v):
    """the value whose being Some / Ok decides the variant of v: `?` (Try::branch) and adapters that only convert or
    build the failure value (`ok_or`, `ok_or_else`, `map_err`, `.ok()`) leave success and failure as they were"""
    for _ in range(12):
        if v[0] == 'call' and v[2] and (v[1] in _PAYLOAD_KEEPING or v[1] in ('std::ops::Try::branch', 'std::ops::FromResidual::from_residual')):
            v = v[2][0]
            continue
        break
    return v


# ---- "consists of ASCII digits only" --------------------------------------------------------------------------------
# The sign guard of an integer parse is the statement  D(s): every character of s is an ASCII digit.  It is recognised as
# a *quantifier* over the characters / bytes of s (all, !any, !contains, find(..).is_none(), trim_*_matches(..).is_empty(),
# a loop that leaves on the first offending element) applied to a *character predicate*, and the predicate is decided by
# evaluating it on one representative of every character class — whatever it is built from (`is_ascii_digit`,
# `is_digit(10)`, `matches!(c, '0'..='9')`, `('0'..='9').contains(&c)`, comparisons).

_DIGITS = frozenset(range(48, 58))
_CHAR_DOMAIN = tuple(range(0, 128)) + (0x80, 0xE9, 0xFF, 0x0663, 0x0967, 0xFF11, 0x1D7CE, 0x10FFFF)
_BYTE_DOMAIN = tuple(range(0, 256))
_SRC_NAMES = ('core::str::<impl str>::bytes', 'core::str::<impl str>::chars')
_THROUGH = ('core::str::<impl str>::as_bytes', 'std::str::<impl str>::as_bytes', 'core::slice::<impl [T]>::iter', IT + 'copied', IT + 'cloned',
            'std::iter::IntoIterator::into_iter', IT + 'by_ref', 'std::string::String::as_str', 'std::string::String::as_bytes')


def chars_of(v):
    """s when v iterates the characters / bytes of the string s in order (`s.chars()`, `s.bytes()`, `s.as_bytes().iter()`,
    with copied / into_iter / by_ref in between), else None"""
    v = strip(v)
    seen_src = False
    for _ in range(8):
        if v[0] == 'call' and v[2] and v[1] in _SRC_NAMES:
            return v[2][0]
        if v[0] == 'call' and v[2] and (v[1] in _THROUGH or (v[1].endswith('::into_iter') and len(v[2]) == 1)):
            if v[1].endswith('::iter'):
                seen_src = True
            v = strip(v[2][0])
            continue
        break
    return v if seen_src else None


def _ev(prog, sl, v, subj, ch, PC, depth=0):
    """value of expression v when the sub-value `subj` (canonical) is the character / byte with code ch: int | bool | None"""
    if not isinstance(v, tuple) or not v or depth > 12:
        return None
    if canon(strip(v)) == subj:
        return ch
    k = v[0]
    if k == 'unwrap' or k == 'updated':
        return _ev(prog, sl, v[1], subj, ch, PC, depth + 1)
    if k == 'const':
        c = v[1]
        if isinstance(c, bool) or isinstance(c, int):
            return c
        if isinstance(c, str) and len(c) == 1:
            return ord(c)
        return None
    if k == 'cast':
        return _ev(prog, sl, v[1], subj, ch, PC, depth + 1) if str(v[2]) in ('u32', 'u64', 'usize', 'i32', 'i64', 'u16', 'u128', 'char') else None
    if k == 'un' and v[1] == 'Not':
        x = _ev(prog, sl, v[2], subj, ch, PC, depth + 1)
        return (not x) if isinstance(x, bool) else None
    if k == 'bin':
        a, b = _ev(prog, sl, v[2], subj, ch, PC, depth + 1), _ev(prog, sl, v[3], subj, ch, PC, depth + 1)
        if a is None or b is None:
            return None
        ops = {'Le': lambda: a <= b, 'Lt': lambda: a < b, 'Ge': lambda: a >= b, 'Gt': lambda: a > b, 'Eq': lambda: a == b, 'Ne': lambda: a != b}
        if v[1] in ops and isinstance(a, bool) == isinstance(b, bool):
            return ops[v[1]]()
        if v[1] in ('BitAnd', 'BitOr') and isinstance(a, bool) and isinstance(b, bool):
            return (a and b) if v[1] == 'BitAnd' else (a or b)
        return None
    if k == 'call' and v[2]:
        n, a = v[1], v[2]
        x = _ev(prog, sl, a[0], subj, ch, PC, depth + 1)
        last = n.rsplit('::', 1)[-1]
        if n.startswith(('std::char::methods::<impl char>::', 'core::num::<impl u8>::', 'core::char::methods::<impl char>::')) and isinstance(x, int) and not isinstance(x, bool):
            if last == 'is_ascii_digit' and len(a) == 1:
                return 48 <= x <= 57
            if last == 'is_digit' and len(a) == 2 and _ev(prog, sl, a[1], subj, ch, PC, depth + 1) == 10:
                return 48 <= x <= 57
            if last == 'is_ascii' and len(a) == 1:
                return x < 128
            return None
        if n.endswith(('::eq', '::ne')) and len(a) == 2:
            y = _ev(prog, sl, a[1], subj, ch, PC, depth + 1)
            if x is None or y is None or isinstance(x, bool) != isinstance(y, bool):
                return None
            return (x == y) if last == 'eq' else (x != y)
        if n == 'std::ops::RangeInclusive::<Idx>::contains' and len(a) == 2:
            r = strip(a[0])
            y = _ev(prog, sl, a[1], subj, ch, PC, depth + 1)
            if r[0] == 'call' and r[1] == 'std::ops::RangeInclusive::<Idx>::new' and len(r[2]) == 2 and isinstance(y, int):
                lo, hi = (_ev(prog, sl, z, subj, ch, PC, depth + 1) for z in r[2])
                if isinstance(lo, int) and isinstance(hi, int):
                    return lo <= y <= hi
            return None
        return None
    return None


def _lit_holds(prog, sl, l, subj, ch, PC):
    """truth of one path literal for character ch: True | False | None (not evaluable)"""
    if l.kind != 'bool':
        return None
    x = _ev(prog, sl, l.value, subj, ch, PC)
    return (x == l.outcome) if isinstance(x, bool) else None


def pred_class(PC, p):
    """'digit' when the one-argument predicate p (closure or fn item over a char / byte) is true exactly for the ASCII
    digits, 'nondigit' when exactly for everything else; None otherwise (or when it cannot be evaluated)"""
    prog, sl = PC.prog, PC.sl
    p = strip(p)
    if p[0] == 'cast':
        p = strip(p[1])
    if p[0] == 'fnitem':
        return 'digit' if p[1].endswith('::is_ascii_digit') else None
    if p[0] != 'closure' or p[1] not in prog.fns:
        return None
    key = ('predclass', p[1])
    if key not in PC._cache:
        PC._cache[key] = None
        PC._cache[key] = _pred_class(PC, p)
    return PC._cache[key]


def _pred_class(PC, p):
    prog, sl = PC.prog, PC.sl
    g = prog.fns[p[1]]
    if g.argc != 2 or g.ret != 'bool':
        return None
    ty = (g.locals[2].get('ty') or '').lstrip('&').replace('mut ', '').strip()
    dom = _BYTE_DOMAIN if ty == 'u8' else _CHAR_DOMAIN if ty == 'char' else None
    if dom is None:
        return None
    par = ('param', g.path, 1, g.local_name(2))
    subj = canon(par)
    body = sl.local(g, 0)
    ways = None
    if body[0] == 'phi' or _opaque_phi(body):
        ways = PC._body_alts(g, {}, True)
        if ways is None:
            return None
    acc = set()
    for ch in dom:
        if ways is None:
            x = _ev(prog, sl, body, subj, ch, PC)
            if not isinstance(x, bool):
                return None
        else:
            x = False
            for w in ways:
                hs = [_lit_holds(prog, sl, l, subj, ch, PC) for l in w]
                if any(h is None for h in hs):
                    return None
                if all(hs):
                    x = True
                    break
        if x:
            acc.add(ch)
    digits = {c for c in dom if c in _DIGITS}
    if acc == digits:
        return 'digit'
    if acc == set(dom) - digits:
        return 'nondigit'
    return None


def digits_quant(PC, v, parsed):
    """'all' when the boolean v is D(parsed) (every character an ASCII digit), 'some-non' when v is its negation"""
    prog, sl = PC.prog, PC.sl
    if v[0] == 'un' and v[1] == 'Not':
        q = digits_quant(PC, v[2], parsed)
        return {'all': 'some-non', 'some-non': 'all'}.get(q)
    if v[0] != 'call' or not v[2]:
        return None
    n, a = v[1], v[2]
    if n in (IT + 'all', IT + 'any') and len(a) == 2:
        s = chars_of(a[0])
        if s is None or not same(s, parsed):
            return None
        c = pred_class(PC, a[1])
        if n == IT + 'all':
            return 'all' if c == 'digit' else None
        return 'some-non' if c == 'nondigit' else None
    if n == 'core::str::<impl str>::contains' and len(a) == 2 and same(a[0], parsed):
        return 'some-non' if pred_class(PC, a[1]) == 'nondigit' else None
    if n == 'core::str::<impl str>::is_empty' and len(a) == 1:
        t = strip(a[0])
        if t[0] == 'call' and t[1] in ('core::str::<impl str>::trim_start_matches', 'core::str::<impl str>::trim_end_matches', 'core::str::<impl str>::trim_matches') \
                and len(t[2]) == 2 and same(t[2][0], parsed) and pred_class(PC, t[2][1]) == 'digit':
            return 'all'
        return None
    g = prog.fns.get(n)
    if g is not None and g.ret == 'bool' and g.kind != 'Closure':
        i = scan_fn(PC, g)
        if i is not None and i < len(a) and same(a[i], parsed):
            return 'all'
    return None


def digits_literal(PC, l, parsed):
    """True: literal l says D(parsed); False: it says not D(parsed); None: it is no such test"""
    v = l.value
    if l.kind == 'bool':
        q = digits_quant(PC, v, parsed)
        if q is None:
            return None
        return (q == 'all') == l.outcome
    if l.kind == 'variant' and v[0] == 'call' and len(v[2]) == 2 and l.outcome in (frozenset(['None']), frozenset(['Some'])):
        # s.find(|c| !digit(c)) / s.chars().position(|c| !digit(c)): None iff there is no offending character
        s = None
        if v[1] in ('core::str::<impl str>::find', 'core::str::<impl str>::rfind'):
            s = v[2][0]
        elif v[1] in (IT + 'find', IT + 'position', IT + 'rposition'):
            s = chars_of(v[2][0])
        if s is not None and same(s, parsed) and pred_class(PC, v[2][1]) == 'nondigit':
            return l.outcome == frozenset(['None'])
    return None


# ---- the same statement established by a loop -------------------------------------------------------------------------

def scan_loops(PC, fn):
    """[(loop, string value)]: loops `for c in s.chars() / s.bytes()` that leave on the first character that is no ASCII
    digit: every way round the loop has decided "the element is a digit", and every exit other than exhaustion has decided
    "it is not" — the exhaustion edge is taken iff D(s)."""
    prog, sl = PC.prog, PC.sl
    key = ('scan', fn.path)
    if key in PC._cache:
        return PC._cache[key]
    PC._cache[key] = []
    out = []
    for L in _loops(fn, sl):
        if getattr(L, 'exhaust', None) is None or L.collection is None:
            continue
        s = chars_of(L.collection)
        if s is None:
            continue
        if any(c is not L.next_call and c.args and c.decl and c.decl.startswith(IT) and canon(strip(sl.operand(fn, c.args[0]))) == canon(strip(L.collection))
               for c in fn.calls):
            continue    # somebody else pulls from the same iterator
        subj = canon(strip(loop_element(fn, sl, L)))

        def decided(bb, want_digit):
            # on every way to bb the decisions about the current element hold only for digits (resp. only for non-digits)
            ps = PC.local_paths(fn, bb)
            ps = [p for p in (ps or []) if consistent(p)]
            if not ps:
                return False
            dom = _CHAR_DOMAIN
            digits = {c for c in dom if c in _DIGITS}
            for p in ps:
                holds = set(dom)
                for l in p:
                    if l.kind != 'bool':
                        continue
                    vals = [(ch, _ev(prog, sl, l.value, subj, ch, PC)) for ch in dom]
                    if any(not isinstance(x, bool) for _, x in vals):
                        continue
                    holds &= {ch for ch, x in vals if x == l.outcome}
                if want_digit and not (holds <= digits):
                    return False
                if not want_digit and (holds & digits):
                    return False
            return True
        def decided_edge(b, x):
            # leaving the loop over the edge b -> x: the decisions on the way to b together with the one taken on the edge
            ps = PC.local_paths(fn, b)
            bps = PC._bpaths.get((fn.path, b)) or []
            if ps is None or len(ps) != len(bps) or not ps:
                return False
            dom = _CHAR_DOMAIN
            digits = {c for c in dom if c in _DIGITS}
            for lits, bp in zip(ps, bps):
                el = PC.edge_literal(fn, b, x, bp)
                if el is False:
                    continue
                ways = [tuple(a) for a in el[1]] if isinstance(el, tuple) else [(el,)] if el is not None else [()]
                for w in ways:
                    p = tuple(lits) + tuple(w)
                    if not consistent(p):
                        continue
                    holds = set(dom)
                    for l in p:
                        if l.kind != 'bool':
                            continue
                        vals = [(ch, _ev(prog, sl, l.value, subj, ch, PC)) for ch in dom]
                        if any(not isinstance(v, bool) for _, v in vals):
                            continue
                        holds &= {ch for ch, v in vals if v == l.outcome}
                    if holds & digits:
                        return False
            return True
        if not L.latches or not all(decided(lb, True) for lb in L.latches):
            continue
        exits = [(b, x) for b in L.body for x in fn.succs(b) if x not in L.body and (b, x) != tuple(L.exhaust)
                 and fn.blocks[x]['t']['t'] != 'unreachable']
        if not all(decided_edge(b, x) for b, x in exits):
            continue
        out.append((L, s))
    PC._cache[key] = out
    return out


def scanned(PC, fn, bb, parsed):
    """block bb of fn is reached only through the exhaustion of a digits scan over `parsed`"""
    return any(same(s, parsed) and _after(fn, L, bb) for L, s in scan_loops(PC, fn))


def scan_fn(PC, g):
    """i when the boolean workspace function g returns true exactly if its i-th argument consists of ASCII digits only,
    decided by a digits scan: every `true` is returned after the scan's exhaustion, every `false` on leaving it early"""
    key = ('scanfn', g.path)
    if key in PC._cache:
        return PC._cache[key]
    PC._cache[key] = None
    res = None
    loops = scan_loops(PC, g)
    live = g.reachable(0)
    defs = [d for d in g.whole_defs(0) if d[1] in live]
    if len(loops) == 1 and defs and not g.partial_defs(0) and all(d[0] == 'stmt' and d[3]['r'] == 'use' for d in defs):
        L, s = loops[0]
        s = strip(s)
        ok = s[0] == 'param' and s[1] == g.path
        for d in defs:
            k = op_const(d[3]['o'])
            from .lib.mir import const_value
            val = const_value(k) if k is not None else None
            if not isinstance(val, bool):
                ok = False
            elif val:
                ok = ok and _after(g, L, d[1])
            else:
                ok = ok and d[1] not in L.body and not _after(g, L, d[1]) and all(p in L.body or g.dominates(L.header, p) for p in g.preds()[d[1]])
        if ok:
            res = s[2]
    PC._cache[key] = res
    return res


def scan_step_literal(PC, fn, l, parsed):
    """l is the decision "the digits scan over `parsed` in fn is exhausted / yields another character" """
    if l.kind != 'variant' or l.value[0] != 'call' or l.value[1] != IT + 'next' or len(l.value) < 4 or not l.value[2]:
        return False
    s = chars_of(l.value[2][0])
    if s is None or not same(s, parsed):
        return False
    return any(l.value[3] == (fn.path, L.next_call.bb) and same(s2, parsed) for L, s2 in scan_loops(PC, fn))


# ---- redundant leading zero -----------------------------------------------------------------------------------------

def len_le1(l, parsed):
    """True: literal l says len(parsed) <= 1; False: it says len(parsed) >= 2; None: neither.  A string of at most one
    character has no redundant leading zero, and a longer one that starts with '0' has."""
    v = l.value
    if l.kind != 'bool' or v[0] != 'bin' or len(v) != 4:
        return None

    def is_len(x):
        x = strip(x)
        return x[0] == 'call' and x[1] in ('core::str::<impl str>::len', 'std::string::String::len') and len(x[2]) == 1 and same(x[2][0], parsed)

    def num(x):
        x = strip(x)
        return x[1] if x[0] == 'const' and isinstance(x[1], int) and not isinstance(x[1], bool) else None
    op, a, b = v[1], v[2], v[3]
    if is_len(b) and num(a) is not None:
        a, b = b, a
        op = {'Lt': 'Gt', 'Gt': 'Lt', 'Le': 'Ge', 'Ge': 'Le'}.get(op, op)
    if not is_len(a) or num(b) is None:
        return None
    k = num(b)
    # the set of lengths for which the comparison is true must be {0, 1} (or {1}) / its complement {2, 3, ..}
    table = {('Le', 1): True, ('Lt', 2): True, ('Gt', 1): False, ('Ge', 2): False, ('Eq', 1): True, ('Ne', 1): None}
    r = table.get((op, k))
    if r is None:
        return None
    if op == 'Eq':
        return True if l.outcome else None      # len == 1; its negation (0 or >= 2) says nothing
    return r if l.outcome else (not r)


def zero_prefix_literal(l, parsed):
    """'no' when l says parsed does not start with '0', 'just' when it says parsed == "0", 'other' when it is such a test
    with the opposite outcome; None: l is no test of a leading zero"""
    v = l.value
    if l.kind == 'bool':
        if is_starts_with(v, parsed, '0'):
            return 'no' if l.outcome is False else 'other'
        if is_eq_const(v, parsed, '0'):
            return 'just' if l.outcome is True else 'other'
        if v[0] == 'call' and v[1] == 'core::str::<impl str>::is_empty' and len(v[2]) == 1:
            r = v[2][0]
            r = r[1] if r[0] == 'unwrap' else r
            if r[0] == 'call' and r[1] == 'core::str::<impl str>::strip_prefix' and len(r[2]) == 2 and same(r[2][0], parsed) and strip(r[2][1]) == ('const', '0'):
                return 'just' if l.outcome is True else 'other'
        return None
    if l.kind == 'variant' and v[0] == 'call' and v[1] == 'core::str::<impl str>::strip_prefix' and len(v[2]) == 2 and same(v[2][0], parsed) \
            and strip(v[2][1]) == ('const', '0'):
        return 'no' if l.outcome == frozenset(['None']) else 'other'
    return None


# ---- components collected into a Vec and taken by position ------------------------------------------------------------
# `let parts: Vec<&str> = value.split('.').collect();` keeps every component (nothing is mapped, filtered or cut
# off), so  len(parts) == 3  says "exactly three components" and  parts[0], parts[1], parts[2]  are all of them.

_SEQ_VIEWS = ('std::vec::Vec::<T, A>::as_slice', 'std::ops::Deref::deref', 'std::convert::AsRef::as_ref', 'std::borrow::Borrow::borrow',
              'core::slice::<impl [T]>::iter')


def _seq_base(v):
    v = strip(v)
    for _ in range(6):
        if v[0] == 'call' and v[1] in _SEQ_VIEWS and len(v[2]) == 1:
            v = strip(v[2][0])
            continue
        break
    return v


def collected_components(sl, tf):
    """the value `split(<argument of tf>, '.').collect::<Vec<&str>>()` when tf collects the components unchanged and
    that is the only thing it does with the split iterator; else None"""
    found = []
    for c in tf.calls:
        if c.indirect or not c.decl or not c.args:
            continue
        if c.decl.startswith(IT) or c.decl == 'std::iter::FromIterator::from_iter':
            names, src = split_source(sl.operand(tf, c.args[0]))
            if src[0] == 'call' and src[1] == 'core::str::<impl str>::split':
                found.append((c, names))
    if len(found) != 1:
        return None
    c, names = found[0]
    if names or not (c.decl.endswith('::collect') or c.decl.endswith('::from_iter')) or (c.dty or '') not in ('std::vec::Vec<&str>', "std::vec::Vec<&'_ str>"):
        return None
    src = split_source(sl.operand(tf, c.args[0]))[1]
    if not (len(src[2]) == 2 and is_param(src[2][0], tf, 0) and strip(src[2][1]) == ('const', '.')):
        return None
    return strip(sl._call_value(tf, c, set(), 0))


def slot_of(v, coll):
    """i when v is element i of the collected sequence `coll`: coll[i], coll.as_slice()[i], a slice-pattern binding"""
    v = strip(v)
    key = canon(coll)
    if v[0] == 'index' and isinstance(v[2], str) and canon(_seq_base(v[1])) == key:
        import re
        m = re.fullmatch(r'\[(\d+)\]', v[2])
        return int(m.group(1)) if m else None
    if v[0] == 'call' and v[1] in ('std::ops::Index::index',) and len(v[2]) == 2 and canon(_seq_base(v[2][0])) == key:
        i = strip(v[2][1])
        return i[1] if i[0] == 'const' and isinstance(i[1], int) and not isinstance(i[1], bool) else None
    return None


def length_is(cd, coll, n):
    """edge-dominance condition cd says len(coll) == n"""
    v = cd.value
    if cd.kind != 'bool' or v is None or v[0] != 'bin' or len(v) != 4 or not isinstance(cd.outcome, bool):
        return False
    if not ((v[1] == 'Eq' and cd.outcome) or (v[1] == 'Ne' and not cd.outcome)):
        return False
    key = canon(coll)
    for a, b in ((v[2], v[3]), (v[3], v[2])):
        if strip(b) != ('const', n):
            continue
        a = strip(a)
        if a[0] == 'un' and a[1] == 'PtrMetadata' and canon(_seq_base(a[2])) == key:
            return True
        if a[0] == 'call' and a[1] in ('std::vec::Vec::<T, A>::len', 'core::slice::<impl [T]>::len') and len(a[2]) == 1 and canon(_seq_base(a[2][0])) == key:
            return True
    return False


def slot_calls(prog, sl, tf, coll):
    """[(slot index, Call, index of the argument)] for the calls of tf that are handed an element of coll itself"""
    out = []
    for c in tf.calls:
        argv = [sl.operand(tf, a) for a in c.args]
        flat = []
        for j, a in enumerate(argv):
            sa = strip(a)
            if sa[0] == 'tuple' and j == 1 and len(argv) == 2:      # closure call: arguments as one tuple
                flat.extend((j2 + 1, x) for j2, x in enumerate(sa[1]))
            else:
                flat.append((j, a))
        for j, a in flat:
            i = slot_of(a, coll)
            if i is not None:
                out.append((i, c, j))
    return out


def pull_slot_calls(prog, sl, tf, pulled):
    """[(pull index, Call, index of the argument)] for the calls of tf that are handed the item of the i-th `next()`
    itself (pulled = the next Calls in execution order)"""
    items = [sl._call_value(tf, c, set(), 0) for c in pulled]
    out = []
    for c in tf.calls:
        if c in pulled:
            continue
        argv = [sl.operand(tf, a) for a in c.args]
        flat = []
        for j, a in enumerate(argv):
            sa = strip(a)
            if sa[0] == 'tuple' and j == 1 and len(argv) == 2:
                flat.extend((j2 + 1, x) for j2, x in enumerate(sa[1]))
            else:
                flat.append((j, a))
        for j, a in flat:
            for i, it in enumerate(items):
                if a[0] == 'unwrap' and strip(a) == it:
                    out.append((i, c, j))
    return out


def slots_validated(prog, sl, tf, bb, coll, n, is_validator, calls=None):
    """block bb is reached only when len(coll) == n and, for every i < n, a validator applied to element i succeeded
    (is_validator(call): an integer parse or a function of the validator region yielding Option<u64>); with `calls`
    (slot index, Call, argument index) given, only the second half is decided, for those slots"""
    conds = conditions(tf, bb, sl)
    if calls is None and not any(length_is(cd, coll, n) for cd in conds):
        return False
    if calls is not None:
        done = set()
        for cd in conds:
            if cd.kind != 'variant' or cd.subject is None or cd.outcome not in (frozenset(['Some']), frozenset(['Ok'])):
                continue
            c = call_of(prog, cd.subject) if cd.subject[0] == 'call' else None
            if c is None or c.fn is not tf or not is_validator(c):
                continue
            done |= {i for i, c2, j in calls if c2 is c}
        return done == set(range(n))
    done = set()
    for cd in conds:
        if cd.kind != 'variant' or cd.subject is None or cd.outcome not in (frozenset(['Some']), frozenset(['Ok'])):
            continue
        s = cd.subject
        c = call_of(prog, s) if s[0] == 'call' else None
        if c is None or c.fn is not tf or not is_validator(c):
            continue
        for i, c2, j in slot_calls(prog, sl, tf, coll):
            if c2 is c:
                done.add(i)
    return done == set(range(n))


def selected_paths(PC, g, bi, st):
    """the ways the value assigned by statement st (block bi of g) comes to be used: the paths to it; when the assigned
    local is only handed, as an eagerly evaluated argument, to a selecting combinator, joined with the ways the
    combinator yields that argument:  cond.then_some(x): cond;  opt.unwrap_or(x) / opt.map_or(x, f): opt is None / Err.
    Returns (paths, whether such a combinator selects)"""
    sl = PC.sl
    paths = PC.paths(g, bi)
    dest = st[1]
    if len(dest) != 1 or dest[0] == 0:
        return paths, False
    uses = [u for u in g.uses_of(dest[0]) if u[1] != 'drop' and u[0] in g.reachable(0)]
    if len(uses) != 1 or uses[0][1] != 'arg' or len(uses[0][4]) != 1:
        return paths, False
    c = g.call_at(uses[0][0])
    ai = uses[0][2]
    if c is None or c.indirect:
        return paths, False
    n = c.name or c.decl or ''
    meth = n.rsplit('::', 1)[-1]
    extra = None
    if n.startswith(('std::option::Option::', 'std::result::Result::')) and ((meth == 'unwrap_or' and ai == 1 and len(c.args) == 2) or
                                                                             (meth == 'map_or' and ai == 1 and len(c.args) == 3)):
        extra = failure_ways(PC, sl.operand(g, c.args[0]))
    elif (n.endswith('bool>::then_some') or n == 'core::bool::<impl bool>::then_some') and ai == 1 and len(c.args) == 2:
        extra = PC._ways(sl.operand(g, c.args[0]), True)
    if extra is None:
        return paths, False
    return [tuple(p) + tuple(w) for p in PC.paths(g, c.bb) for w in extra], True


def self_as_field0(prog, sl, fn, v):
    """v is `self` of fn seen through the type's own conversions (`self.as_ref()`, `&**self`, `self.borrow()`) — which the
    value normal form treats as `self` — and every such conversion applied to self in fn returns field 0 of its argument:
    then what is used is `self.0`"""
    if not is_param(v, fn, 0):
        return False
    convs = []
    for c in fn.calls:
        if c.indirect or not c.args or not is_param(sl.operand(fn, c.args[0]), fn, 0) or len(c.args) != 1:
            continue
        g = None
        for n in (c.res, c.name):
            g = g or (prog.fns.get(n) if n else None)
        if g is None:
            continue
        r = strip(sl.local(g, 0))
        if not (r[0] == 'field' and r[2] == '0' and is_param(r[1], g, 0)):
            return False
        convs.append(g)
    return bool(convs)


def deser_through(prog, sl, ds, accept, depth=3):
    """like deser_input, with workspace conversions made transparent: the success payload of `deserialize` is
    conv(x) for a call conv accepted by `accept`, possibly reached through private / trait-impl functions of the
    workspace that hand their argument on (`impl TryFrom<String> for T { fn try_from(v) { v.parse() } }` behind
    `#[serde(try_from = "String")]`).  Returns (conv Call, x, String::deserialize Call | None) or None."""
    nf = sl.mk_unwrap(sl.local(ds, 0), 1)
    for _ in range(depth + 1):
        if nf[0] != 'unwrap':
            return None
        cv = nf[1]
        if cv[0] != 'call' or len(cv[2]) != 1:
            return None
        conv = call_of(prog, cv)
        if conv is None:
            return None
        if accept(conv):
            inp = cv[2][0]
            sc = None
            if inp[0] == 'unwrap' and inp[1][0] == 'call':
                c = call_of(prog, inp[1])
                if c is not None and c.full and 'for std::string::String>::deserialize' in c.full and len(inp[1][2]) == 1 \
                        and is_param(inp[1][2][0], ds, 0):
                    sc = c
            return conv, inp, sc
        g = prog.fns.get(cv[1])
        if g is None or g.argc != 1 or g.kind == 'Closure':
            return None
        iv = sl.inline_call(cv)
        if iv is None or iv == cv:
            return None
        nf = sl.mk_unwrap(iv, 1)
    return None


# ---- exactness of the leading-zero logic --------------------------------------------------------------------------------
# The tests that stand between a component and its integer parse must reject exactly the digit strings with a redundant
# leading zero.  Decided on one representative per class of digit strings: "0", a single non-zero digit, several digits
# not starting with '0' are to reach the parse; "00" and "01" are not.

ZERO_CLASSES = {'"0"': '0', 'a single digit': '5', 'several digits': '10'}
ZERO_REJECTS = {'"00"': '00', '"01"': '01'}


def _ev_on_string(PC, l, parsed, text):
    """truth of literal l when the parsed string is the digit string `text`: True | False | None (not evaluable)"""
    v = l.value
    dl = digits_literal(PC, l, parsed)
    if dl is not None:
        return dl       # text consists of digits
    if l.kind == 'bool':
        if is_starts_with(v, parsed, '0'):
            return text.startswith('0') == l.outcome
        if is_starts_with(v, parsed, '+') or is_starts_with(v, parsed, '-'):
            return (not l.outcome)
        if is_eq_const(v, parsed, '0'):
            return (text == '0') == l.outcome
        if v[0] == 'call' and v[1] == 'core::str::<impl str>::is_empty' and len(v[2]) == 1:
            if same(v[2][0], parsed):
                return (text == '') == l.outcome
            r = v[2][0]
            r = r[1] if r[0] == 'unwrap' else r
            if r[0] == 'call' and r[1] == 'core::str::<impl str>::strip_prefix' and len(r[2]) == 2 and same(r[2][0], parsed) and strip(r[2][1]) == ('const', '0'):
                return (text.startswith('0') and text[1:] == '') == l.outcome if text.startswith('0') else None
        if v[0] == 'bin' and len(v) == 4:
            def val(x):
                x = strip(x)
                if x[0] == 'const' and isinstance(x[1], int) and not isinstance(x[1], bool):
                    return x[1]
                if x[0] == 'call' and x[1] in ('core::str::<impl str>::len', 'std::string::String::len') and len(x[2]) == 1 and same(x[2][0], parsed):
                    return len(text)
                return None
            a, b = val(v[2]), val(v[3])
            ops = {'Le': lambda: a <= b, 'Lt': lambda: a < b, 'Ge': lambda: a >= b, 'Gt': lambda: a > b, 'Eq': lambda: a == b, 'Ne': lambda: a != b}
            if a is not None and b is not None and v[1] in ops:
                return ops[v[1]]() == l.outcome
        return None
    if l.kind == 'variant' and v[0] == 'call' and v[1] == 'core::str::<impl str>::strip_prefix' and len(v[2]) == 2 and same(v[2][0], parsed) \
            and strip(v[2][1]) == ('const', '0'):
        return (frozenset(['Some']) if text.startswith('0') else frozenset(['None'])) == l.outcome or \
            (('Some' if text.startswith('0') else 'None') in l.outcome)
    return None


def reaches_parse(PC, fn, paths, parsed, text, mentions):
    """some way to the parse is open for the digit string `text`: True | False | None (a literal about the parsed string
    on a candidate way could not be evaluated).  mentions(l): literal l is about the parsed string."""
    unknown = False
    for p in paths:
        if not consistent(p):
            continue
        ok = True
        for l in p:
            if not mentions(l):
                continue
            if scan_step_literal(PC, fn, l, parsed):
                continue        # the digits scan is exhausted: text consists of digits
            if l.kind == 'variant' and l.outcome == frozenset(['Some']) and (same(l.value, parsed) or (parsed[0] == 'unwrap' and canon(l.value) == canon(parsed[1]))):
                continue        # "there is a component"
            t = _ev_on_string(PC, l, parsed, text)
            if t is None:
                unknown = True
                ok = False
                break
            if not t:
                ok = False
                break
        if ok:
            return True
    return None if unknown else False


# ---- Display written piece by piece ---------------------------------------------------------------------------------

_FMT_WRITES = {
    "std::fmt::Formatter::<'a>::write_str": ('FMTWRITE', 0), "std::fmt::Formatter::<'a>::write_fmt": ('FMTWRITE', 0),
    "std::fmt::Formatter::<'a>::pad": ('FMTWRITE', 0), 'std::fmt::Write::write_str': ('FMTWRITE', 0),
    'std::fmt::Write::write_char': ('FMTWRITE', 0), 'std::fmt::Write::write_fmt': ('FMTWRITE', 0),
    'std::fmt::Display::fmt': ('FMTSHOW', 1),
}


def display_pieces_seq(prog, sl, dsp):
    """what a Display::fmt writes when it does so by several formatter calls in a row (`write!(f, "{}", a)?;
    f.write_str(".")?; ..`, through private helpers as well): the pieces of all writes in execution order.  Every
    write happens on every successful run (must == may: none is conditional or repeated) and goes to fmt's own
    formatter; `?` between them stops at the first error like a single write_fmt does.  None otherwise."""
    from .lib.effects import Effects, Link
    E = Effects(prog, sl, vocab=_FMT_WRITES)
    must = [e for e in E.expand(dsp, 'must') if e.kind in ('FMTWRITE', 'FMTSHOW')]
    may = [e for e in E.expand(dsp, 'may') if e.kind in ('FMTWRITE', 'FMTSHOW')]

    def key(e):
        return tuple((l.call.fn.path, l.call.bb) for l in e.chain if isinstance(l, Link)) + ((e.call.fn.path, e.call.bb),)
    if not must or {key(e) for e in must} != {key(e) for e in may} or len(may) != len(must):
        return None
    out = []
    for e in must:
        if e.forall is not None or e.path is None or not is_param(e.path, dsp, 1) or len(e.args) != 2:
            return None
        text = strip(e.args[0] if e.kind == 'FMTSHOW' else e.args[1])
        out.extend(text[1] if text[0] == 'fmt' else [text[1]] if text[0] == 'const' and isinstance(text[1], str) else [text])
    return out


# ==== robustness round 5 ==============================================================================================
# Validation *after* the parse: `s.parse::<u64>().ok().filter(|n| n.to_string() == s)` accepts s exactly when s is the
# canonical decimal rendering of a u64 — all ASCII digits, no sign, no redundant leading zero (u64's Display never writes
# either) — which is the conjunction of the digits-only test and the leading-zero rejection in front of the parse.
# The obligations are then stated on the ways the validator stage *yields* a number instead of the ways to the parse.

_BORROWS = ('std::string::String::as_str', 'std::ops::Deref::deref', 'std::convert::AsRef::as_ref', 'std::borrow::Borrow::borrow',
            'std::clone::Clone::clone', 'std::borrow::ToOwned::to_owned')


def _def_call(fn, op, depth=0):
    """the call whose result operand `op` of fn is (a borrow / move of), followed through single assignments and borrowing
    conversions (as_str, deref); None when it is not one call's result"""
    pl = op_place(op)
    if pl is None or depth > 8:
        return None
    if any(x != '*' for x in pl[1:]):
        return None
    ds = fn.whole_defs(pl[0])
    if len(ds) != 1 or fn.partial_defs(pl[0]):
        return None
    d = ds[0]
    if d[0] == 'call':
        c = d[3]
        if (c.decl or c.name or '') in _BORROWS and len(c.args) == 1:
            return _def_call(fn, c.args[0], depth + 1)
        return c
    if d[0] == 'stmt':
        rv = d[3]
        if rv['r'] == 'use':
            return _def_call(fn, rv['o'], depth + 1)
        if rv['r'] == 'ref':
            return _def_call(fn, {'c': rv['p']}, depth + 1)
    return None


def _peel_payload(n):
    """(call value, was a success payload taken?) behind unwrap and payload-keeping adapters"""
    taken = False
    for _ in range(12):
        if n[0] == 'unwrap' and len(n) == 2:
            n, taken = n[1], True
            continue
        if n[0] == 'call' and (n[1] in _PAYLOAD_KEEPING or n[1] == 'std::option::Option::<T>::filter') and n[2]:
            n = n[2][0]
            continue
        break
    return n, taken


def roundtrip_literal(PC, l, parsed, pcall):
    """literal l decides `u64::to_string(n) == parsed` with n the success payload of the integer parse `pcall` of `parsed`
    (either operand order, `!=` negated, `format!("{}", n)` for to_string): the outcome of that equality, else None.
    The slicer reads to_string as transparent, so that the rendering really is u64's plain Display is checked on the MIR
    operand of the comparison."""
    prog, sl = PC.prog, PC.sl
    if l.kind != 'bool':
        return None
    v, oc = norm_bool(sl, l.value, l.outcome)
    if not (v[0] == 'call' and v[1].rsplit('::', 1)[-1] == 'eq' and len(v[2]) == 2):
        return None
    ce = call_of(prog, v)
    if ce is None or len(ce.args) != 2:
        return None
    for ni in (0, 1):
        num, txt = v[2][ni], v[2][1 - ni]
        if not same(txt, parsed):
            continue
        plain_fmt = False
        sn = strip(num) if num[0] != 'unwrap' else num
        if sn[0] == 'fmt' and len(sn[1]) == 1 and not isinstance(sn[1][0], str):
            num, plain_fmt = sn[1][0], True
        core, taken = _peel_payload(num)
        pc = call_of(prog, core) if core[0] == 'call' else None
        if not taken or pc is None or pc.fn is not pcall.fn or pc.bb != pcall.bb:
            continue
        if plain_fmt:
            if not fmt_conversions(prog, ce.fn):
                return oc
            continue
        tc = _def_call(ce.fn, ce.args[ni])
        if tc is not None and tc.full == '<u64 as std::string::ToString>::to_string':
            return oc
    return None


def yield_ways(PC, g):
    """the ways the validator stage g (-> Option<u64> / Result<u64, _>) yields Some / Ok: the paths to a `Some(..)`
    construction, and for a result produced by combinators (`r.ok().filter(p)`, `c.then(..)`) the paths to that call joined
    with the ways its value is a success (success_ways).  None when the results of g are not all of these forms."""
    sl = PC.sl
    if g.partial_defs(0):
        return None
    live = g.reachable(0)
    out = []
    for d in g.whole_defs(0):
        if d[1] not in live:
            continue
        if d[0] == 'stmt' and d[3]['r'] == 'agg' and d[3].get('variant') in ('Some', 'Ok', 'None', 'Err'):
            if d[3].get('variant') in ('Some', 'Ok'):
                out.extend(tuple(p) for p in PC.paths(g, d[1]))
        elif d[0] == 'call' and (d[3].decl or '').endswith('FromResidual::from_residual'):
            continue
        elif d[0] == 'call':
            ways = success_ways(PC, sl._call_value(g, d[3], set(), 0))
            if ways is None:
                return None
            out.extend(tuple(p) + tuple(w) for p in PC.paths(g, d[1]) for w in ways)
        else:
            return None
    return out


def number_tests(PC, path, is_number_source):
    """literals of `path` that test a number of the validator: they mention the success payload of a call for which
    is_number_source(call) holds (an integer parse, a validator stage) — `n < 100`, `n.to_string() == s`"""
    out = []
    for l in path:
        if l.kind == 'variant' and is_source_success(PC.prog, l, is_number_source) is not None:
            continue        # "the parse / the stage succeeded": carries the number, does not test it
        hit = False
        for x in walk(l.value):
            if isinstance(x, tuple) and x and x[0] == 'unwrap' and len(x) == 2:
                core, _ = _peel_payload(x)
                c = call_of(PC.prog, core) if core[0] == 'call' else None
                if c is not None and is_number_source(c):
                    hit = True
                    break
        if hit:
            out.append(l)
    return out


def roundtrip_any(PC, l, is_number_source):
    """roundtrip_literal of l for whichever number source (integer parse / validator stage call) and argument of it the
    literal compares: the outcome, else None"""
    for x in walk(l.value):
        if isinstance(x, tuple) and x and x[0] == 'unwrap' and len(x) == 2:
            core, _ = _peel_payload(x)
            c = call_of(PC.prog, core) if core[0] == 'call' else None
            if c is None or not is_number_source(c):
                continue
            for a in core[2]:
                r = roundtrip_literal(PC, l, a, c)
                if r is not None:
                    return r
    return None


def is_source_success(prog, l, is_number_source):
    """variant literal l decides whether a number source (an integer parse, a validator stage) succeeded — seen through
    `?` and adapters that keep success and failure apart: True (it did) / False (it did not); None: another decision"""
    if l.kind != 'variant' or not l.outcome:
        return None
    l = peel_variant(l, prog)
    core, _ = _peel_payload(l.value)
    c = call_of(prog, core) if core[0] == 'call' else None
    if c is None or not is_number_source(c):
        return None
    if l.outcome <= {'Some', 'Ok'}:
        return True
    if l.outcome <= {'None', 'Err'}:
        return False
    return None
