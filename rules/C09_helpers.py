"""Helpers of rule C09: path conditions, validator regions, lifted values.

The obligations of C09 are stated on *path conditions*: for a block of a function, the set of acyclic entry->block
paths, each a conjunction of literals (the branch decisions taken).  Unlike edge dominance (`guards.conditions`) this
also sees guards spelled with `||` / `&&`, `matches!`, named intermediate booleans, early returns and closures run by
`bool::then`; a boolean that is assigned in several places is resolved to the assignment that lies on the path; a tested
call of a workspace predicate function that decides by control flow (`fn ok(..) -> bool { matches!(..) }`) is replaced by
the ways through its body that return the tested outcome (PathConds.pred_alts), in the caller's terms.

    paths(fn, bb) -> [ (Lit, ...) , ... ]      every way of reaching bb (closures: joined with the ways of reaching
                                               the call that runs them; inside / behind loops: the simple paths, i.e.
                                               the decisions before the loop and those of the current iteration)
    holds_on_all(paths, pred)                  pred holds on every consistent path (and there is one)

A conjunction of independent literals entails a clause iff it contains one of the clause's literals, so entailment
is decided per path; treating correlated atoms as independent only makes the check more conservative.
"""
from .lib.guards import _discr_info, conditions, creation_site
from .lib.mir import op_place, op_const
from .lib.paths import strip
from .lib.value import canon, subst, walk

IT = 'std::iter::Iterator::'


class Lit:
    """one branch decision: kind 'bool' (outcome True/False) | 'variant' (outcome frozenset of names) | 'int'"""
    __slots__ = ('kind', 'key', 'outcome', 'value')

    def __init__(self, kind, value, outcome):
        self.kind = kind
        self.value = value
        self.key = canon(value)
        self.outcome = outcome

    def __repr__(self):
        from .lib.value import vstr
        return 'Lit(%s %s == %s)' % (self.kind, vstr(self.value)[:120], sorted(self.outcome) if isinstance(self.outcome, frozenset) else self.outcome)


class _TooMany(Exception):
    pass


class _KeyedPath:
    """a conjunction compared by its literals (for removing duplicates)"""
    __slots__ = ('path', 'k')

    def __init__(self, path):
        self.path = path
        self.k = tuple((l.kind, l.key, l.outcome) for l in path)

    def __hash__(self):
        return hash(self.k)

    def __eq__(self, other):
        return self.k == other.k


def _opaque_phi(v):
    """a join of boolean literals: the value of a predicate whose body decides by control flow — inlining it would
    forget what is decided"""
    return v[0] == 'phi' and any(x[0] == 'const' for x in v[1])


def norm_bool(sl, v, oc, phi_ok=True):
    """normal form of a tested boolean: negations peeled, `a != b` read as `!(a == b)`, private boolean helpers
    replaced by what they return (phi_ok=False: only when that is a single expression)"""
    for _ in range(8):
        if v[0] == 'un' and v[1] == 'Not':
            v, oc = v[2], (not oc)
            continue
        if v[0] == 'call' and v[1].endswith('::ne') and len(v[2]) == 2:
            v, oc = ('call', v[1][:-4] + '::eq') + tuple(v[2:]), (not oc)
            continue
        if v[0] == 'call':
            iv = sl.inline_call(v)
            if iv is not None and iv != v and (phi_ok or not _opaque_phi(iv)):
                v = iv
                continue
        break
    return fold_len(v), oc


class PathConds:
    def __init__(self, prog, sl, limit=3000):
        self.prog = prog
        self.sl = sl
        self.limit = limit
        self._cache = {}
        self._bpaths = {}
        self._ctx = {}
        self._expanding = []

    # ---- values on a path ---------------------------------------------------------------------------
    def resolve(self, fn, op, path):
        """value of operand `op` at the end of `path` (list of blocks): a local assigned in several places denotes
        the assignment that lies last on the path"""
        sl = self.sl
        if op_const(op) is not None:
            return sl.operand(fn, op)
        pl = op_place(op)
        if pl is None or len(pl) != 1 or 1 <= pl[0] <= fn.argc:
            return sl.operand(fn, op)
        defs = fn.whole_defs(pl[0])
        if not defs:
            return sl.operand(fn, op)
        d, at = None, len(path)
        if len(defs) == 1:
            d = defs[0]
            if d[1] in path:
                at = path.index(d[1]) + 1
        else:
            for i in range(len(path) - 1, -1, -1):
                ds = [x for x in defs if x[1] == path[i]]
                if ds:
                    d, at = ds[-1], i + 1
                    break
            if d is not None and any(self.is_header(fn, b) for b in path[at:]) and any(fn.in_loop(x[1]) for x in defs if x is not d):
                # a loop was entered after that assignment and the local is also assigned inside a loop: loop-carried,
                # the assignment on the (simple) path need not be the one that is current
                return sl.operand(fn, op)
        if d is None:
            return sl.operand(fn, op)
        if d[0] == 'stmt':
            rv = d[3]
            if rv['r'] == 'use':
                return self.resolve(fn, rv['o'], path[:at])
            return sl._rvalue(fn, rv, set(), 0, None)
        if d[0] == 'call':
            return sl._call_value(fn, d[3], set(), 0)
        return sl.operand(fn, op)

    def is_header(self, fn, b):
        """b is the target of a back edge (it dominates one of its predecessors)"""
        return any(fn.dominates(b, p) for p in fn.preds()[b] if p in fn.reachable(0))

    def edge_literal(self, fn, b, s, path):
        """decision taken on the edge b->s: Lit | None (no decision) | False (edge infeasible on this path)"""
        t = fn.blocks[b]['t']
        if t['t'] != 'switch' or op_const(t['o']) is not None:
            return None
        labels = [v for v, tb in t['targets'] if tb == s] + (['else'] if t['else'] == s else [])
        listed = [v for v, _ in t['targets']]
        di = _discr_info(fn, b, t['o'])
        if di:
            place, vmap, _enum = di
            names = set()
            for lab in labels:
                if lab == 'else':
                    names |= {n for v, n in vmap.items() if v not in listed}
                else:
                    names.add(vmap.get(lab, str(lab)))
            return Lit('variant', self.sl.place(fn, place), frozenset(names))
        val = self.resolve(fn, t['o'], path)
        if t.get('oty') == 'bool':
            if labels == ['else'] and listed == [0]:
                oc = True
            elif labels == [0]:
                oc = False
            elif labels == [1]:
                oc = True
            elif labels == ['else'] and listed == [1]:
                oc = False
            else:
                return None
            return self.bool_literal(val, oc)
        if labels == ['else']:
            return Lit('int', val, ('not', tuple(listed)))
        if 'else' not in labels and len(labels) == 1:
            if val[0] == 'const' and isinstance(val[1], int) and not isinstance(val[1], bool):
                return None if val[1] == labels[0] else False
            return Lit('int', val, labels[0])
        return None

    def bool_literal(self, val, oc):
        """the decision `val == oc` of a boolean value: Lit | None (always so) | False (never so) | ('alts', [conjunction..])
        when val is a call of a workspace predicate that decides by control flow"""
        v2, oc2 = norm_bool(self.sl, val, oc, phi_ok=False)
        if v2[0] == 'call' and v2[1] in self.prog.fns:
            # a predicate function deciding by control flow: the ways through its body that return this outcome
            alts = self.pred_alts(v2, oc2)
            if alts is not None:
                return ('alts', alts) if alts else False
        val, oc = norm_bool(self.sl, val, oc)
        if val[0] == 'const' and isinstance(val[1], bool):
            return None if val[1] == oc else False
        return Lit('bool', val, oc)

    def pred_alts(self, v, oc, depth=0):
        """`helper(args) == oc` for a workspace function returning bool, as the disjunction of the ways through its
        body that return oc: [conjunction of literals in the caller's terms, ...]; None when they cannot be enumerated.
        `fn ok(r, v) -> bool { matches!(Regex::new(r).and_then(|r| r.is_match(v)), Ok(true)) }` tested true yields
        the single way `is_match(unwrap(Regex::new(r)), v)` is Ok and its payload is true."""
        g = self.prog.fns.get(v[1])
        if g is None or g.kind == 'Closure' or g.ret != 'bool' or g.partial_defs(0) or g.path in self._expanding or len(self._expanding) > 2:
            return None
        live = g.reachable(0)
        defs = [d for d in g.whole_defs(0) if d[1] in live]
        blocks = [d[1] for d in defs]
        if not defs or len(set(blocks)) != len(blocks):
            return None
        if any((g.reachable(b) - {b}) & set(blocks) or g.in_loop(b) for b in blocks):
            return None     # a later assignment would override this one
        m = {(g.path, i): a for i, a in enumerate(v[2]) if i < g.argc}
        out = []
        self._expanding.append(g.path)
        try:
            for d in defs:
                if d[0] == 'stmt':
                    rv = self.sl._rvalue(g, d[3], set(), 0, None)
                elif d[0] == 'call':
                    rv = self.sl._call_value(g, d[3], set(), 0)
                else:
                    return None
                rv, want = norm_bool(self.sl, rv, oc)
                if rv[0] == 'const' and isinstance(rv[1], bool):
                    if rv[1] != want:
                        continue
                    tail = ()
                else:
                    tail = (Lit('bool', rv, want),)
                lp = self.local_paths(g, d[1])
                if lp is None:
                    return None
                for p in lp:
                    out.append(tuple(Lit(l.kind, subst(l.value, m, self.sl), l.outcome) for l in p + tail))
                if len(out) > self.limit:
                    return None
        finally:
            self._expanding.pop()
        return [kp.path for kp in dict.fromkeys(_KeyedPath(p) for p in out)]

    # ---- paths --------------------------------------------------------------------------------------
    def local_paths(self, fn, bb):
        """literal tuples of all acyclic entry->bb paths of fn; None when the region has a cycle or too many paths"""
        key = (fn.path, bb)
        if key in self._cache:
            return self._cache[key]
        res = self._local_paths(fn, bb)
        self._cache[key] = res
        return res

    def _local_paths(self, fn, bb):
        if bb not in fn.reachable(0):
            return []
        preds = fn.preds()
        back = set()
        work = [bb]
        while work:
            b = work.pop()
            if b in back:
                continue
            back.add(b)
            work.extend(preds[b])
        sub = back & fn.reachable(0)
        # A region with loops: the simple entry->bb paths (no block twice).  Every execution reaching bb yields one of
        # them when its cycles are cut out (what remains are the decisions before the loop and those of the *last* pass
        # through each block, i.e. of the current iteration), and all literals of that path hold at bb: a literal is a
        # necessary condition, about the values of the iteration in which it was decided.  Loop-carried locals are not
        # resolved to an assignment on the path (resolve) and do not take part in contradictions (consistent).
        out = []
        steps = [0]
        bpaths = self._bpaths[(fn.path, bb)] = []

        def go(b, path, lits):
            if b == bb:
                out.append(tuple(lits))
                bpaths.append(list(path))
                if len(out) > self.limit:
                    raise _TooMany()
                return
            steps[0] += 1
            if steps[0] > 200 * self.limit:
                raise _TooMany()
            seen = []
            for s in fn.succs(b):
                if s in seen or s not in sub or s in path:
                    continue
                seen.append(s)
                lit = self.edge_literal(fn, b, s, path)
                if lit is False:
                    continue
                if isinstance(lit, tuple):      # ('alts', ..): one continuation per way of deciding the predicate
                    for alt in lit[1]:
                        go(s, path + [s], lits + list(alt))
                    continue
                go(s, path + [s], lits + [lit] if lit is not None else lits)
        try:
            go(0, [0], [])
        except (_TooMany, RecursionError):
            return None
        return out

    def dominating(self, fn, bb):
        """fallback: the edge-dominance conditions of bb as one conjunction"""
        lits = []
        for cd in conditions(fn, bb, self.sl):
            if cd.kind == 'bool':
                v, oc = norm_bool(self.sl, cd.value, cd.outcome)
                lits.append(Lit('bool', v, oc))
            elif cd.kind == 'variant':
                lits.append(Lit('variant', cd.subject, cd.outcome))
            else:
                lits.append(Lit('int', cd.value, cd.outcome))
        return [tuple(lits)]

    def context(self, fn):
        """ways of reaching the point that runs closure fn: the call its value is handed to (or the place where it is
        created); `cond.then(|| ..)` runs the closure only when cond is true"""
        if fn.path in self._ctx:
            return self._ctx[fn.path]
        self._ctx[fn.path] = [()]   # recursion guard
        if fn.kind != 'Closure':
            res = self._ctx[fn.path] = self.caller_context(fn)
            return res
        parent, cb = creation_site(self.prog, fn)
        res = [()]
        if parent is not None:
            at, extras = cb, [()]
            users = [c for c in parent.calls if not c.indirect and any(g is fn for g in self.prog.fn_item_args(c))]
            if len(users) == 1 and parent.dominates(cb, users[0].bb):
                # the closure value is moved into exactly one call: it cannot run unless that call is reached
                c = users[0]
                at = c.bb
                if c.decl and c.decl.endswith('bool>::then') and len(c.args) == 2:
                    # `cond.then(|| ..)`: the closure runs only when cond is true (a private predicate deciding by
                    # control flow is replaced by the ways through its body that return true, as on a branch); a
                    # condition computed by control flow (`a && b`) is the assignment that lies on the path
                    lp = self.local_paths(parent, at)
                    bps = self._bpaths.get((parent.path, at)) or []
                    if lp is not None and len(bps) == len(lp) and lp:
                        pctx = self.context(parent)
                        if len(pctx) * len(lp) > self.limit:
                            pctx = [()]
                        res = []
                        for lits, bp in zip(lp, bps):
                            for extra in self._then_ways(self.resolve(parent, c.args[0], bp)):
                                res.extend(cx + lits + extra for cx in pctx)
                        self._ctx[fn.path] = res
                        return res
                    extras = self._then_ways(self.sl.operand(parent, c.args[0]))
            res = [p + extra for p in self.paths(parent, at) for extra in extras]
        self._ctx[fn.path] = res
        return res

    def _then_ways(self, cond):
        """the ways `cond` is true, as conjunctions to append to a path"""
        lit = self.bool_literal(cond, True)
        if lit is False:
            return []
        if isinstance(lit, tuple):
            return [tuple(a) for a in lit[1]]
        return [(lit,)] if lit is not None else [()]

    def caller_context(self, fn):
        """a crate-private function only runs from its call sites: the ways of reaching them, with what each site tests
        about the values it passes re-expressed on the function's parameters (`if ok(x) { helper(x) }` guards the body
        of helper by ok(param)).  No information ([()]) for public functions and functions also used as values."""
        if fn.vis == 'pub' or fn.kind not in ('Fn', 'AssocFn') or fn.impl_trait:
            return [()]
        refs = self.prog.callers().get(fn.path, [])
        sites = [cs for cs in refs if not cs.indirect and cs.name == fn.path and cs.fn.path != fn.path]
        if not sites or len(sites) != len(refs):
            return [()]
        out = []
        for cs in sites:
            g = cs.fn
            binds = []
            for i, a in enumerate(cs.args[:fn.argc]):
                av = strip(self.sl.operand(g, a))
                if av[0] not in ('const', 'unknown'):
                    binds.append((canon(av), ('param', fn.path, i, fn.local_name(i + 1))))
            for p in self.paths(g, cs.bb):
                out.append(tuple(Lit(l.kind, _rebind(l.value, binds), l.outcome) for l in p))
            if len(out) > self.limit:
                return [()]
        return out

    def paths(self, fn, bb):
        lp = self.local_paths(fn, bb)
        if lp is None:
            lp = self.dominating(fn, bb)
        ctx = self.context(fn)
        if ctx == [()]:
            return lp
        if len(lp) * len(ctx) > self.limit:
            ctx = [()]
        return [c + p for c in ctx for p in lp]


def _rebind(v, binds):
    """v with every occurrence of a bound argument value replaced by the parameter it is passed as"""
    if not isinstance(v, tuple) or not v:
        return v
    cv = canon(strip(v))
    for k, pv in binds:
        if cv == k:
            return pv
    if v[0] in ('const', 'param', 'fnitem', 'constitem', 'unknown', 'closure_env', 'upvar'):
        return v
    return tuple(_rebind(x, binds) if isinstance(x, tuple) else x for x in v)


def consistent(path):
    from .lib.value import _contains_cycle
    seen = {}
    for l in path:
        if _contains_cycle(l.value):
            continue    # a loop-carried value denotes different things at different times: no contradiction follows
        if l.kind == 'bool':
            if seen.setdefault(l.key, l.outcome) != l.outcome:
                return False
        elif l.kind == 'variant':
            prev = seen.get(('v', l.key))
            cur = l.outcome if prev is None else (prev & l.outcome)
            if not cur:
                return False
            seen[('v', l.key)] = cur
    return True


def holds_on_all(paths, pred):
    """pred(path) holds on every feasible path, and there is at least one"""
    ps = [p for p in (paths or []) if consistent(p)]
    return bool(ps) and all(pred(p) for p in ps)


# ---- regions and lifting --------------------------------------------------------------------------------

def region(prog, root):
    """functions of root's crate that root may enter: its closures, private helpers, fn items handed to adapters"""
    fs = prog.reach([root], stop=lambda f: f.crate != root.crate)
    return [f for f in fs.values() if f.crate == root.crate]


def lift(prog, sl, f, vals, top, depth=4):
    """values of function f re-expressed at its callers until they no longer mention f's parameters or `top` is
    reached (closure calls `f(a, b)` pass their arguments as one tuple).  Returns [(Fn, [values])]."""
    owners = {x[1] for v in vals for x in walk(v) if x[0] == 'param'}
    while f.path not in owners and f.kind == 'Closure' and f.path != top.path and f.parent in prog.fns:
        f = prog.fns[f.parent]      # captured variables are already expressed in the enclosing function's terms
    has_param = f.path in owners
    if not has_param or f.path == top.path or depth <= 0:
        return [(f, vals)]
    sites = [cs for cs in prog.callers().get(f.path, []) if not cs.indirect and cs.name == f.path and cs.fn.path != f.path]
    if not sites:
        return [(f, vals)]
    out = []
    for cs in sites:
        g = cs.fn
        argv = [sl.operand(g, a) for a in cs.args]
        if f.kind == 'Closure' and len(argv) == 2 and strip(argv[1])[0] == 'tuple':
            argv = [argv[0]] + list(strip(argv[1])[1])
        m = {(f.path, i): a for i, a in enumerate(argv)}
        out.extend(lift(prog, sl, g, [subst(v, m, sl) for v in vals], top, depth - 1))
    return out


# ---- recognisers ------------------------------------------------------------------------------------------

def same(a, b):
    return canon(strip(a)) == canon(strip(b))


def is_digits_test(prog, sl, v, parsed):
    """v = parsed.bytes()/chars().all(|c| c.is_ascii_digit())"""
    if not (v[0] == 'call' and v[1] == IT + 'all' and len(v[2]) == 2):
        return False
    src, cl = strip(v[2][0]), strip(v[2][1])
    if not (src[0] == 'call' and src[1] in ('core::str::<impl str>::bytes', 'core::str::<impl str>::chars') and same(src[2][0], parsed)):
        return False
    if cl[0] == 'closure' and cl[1] in prog.fns:
        body = prog.fns[cl[1]]
        bv = strip(sl.local(body, 0))
        return bv[0] == 'call' and bv[1].endswith('is_ascii_digit') and strip(bv[2][0])[0] == 'param'
    return cl[0] == 'fnitem' and cl[1].endswith('is_ascii_digit')


def is_nondigit_test(prog, sl, v, parsed):
    """v = parsed.bytes()/chars().any(|c| !c.is_ascii_digit())  — false exactly when all are digits (De Morgan)"""
    if not (v[0] == 'call' and v[1] == IT + 'any' and len(v[2]) == 2):
        return False
    src, cl = strip(v[2][0]), strip(v[2][1])
    if not (src[0] == 'call' and src[1] in ('core::str::<impl str>::bytes', 'core::str::<impl str>::chars') and same(src[2][0], parsed)):
        return False
    if cl[0] == 'closure' and cl[1] in prog.fns:
        body = prog.fns[cl[1]]
        bv = strip(sl.local(body, 0))
        if bv[0] == 'un' and bv[1] == 'Not':
            bv = strip(bv[2])
            return bv[0] == 'call' and bv[1].endswith('is_ascii_digit') and strip(bv[2][0])[0] == 'param'
    return False


def is_starts_with(v, parsed, ch):
    return v[0] == 'call' and v[1] == 'core::str::<impl str>::starts_with' and len(v[2]) == 2 and same(v[2][0], parsed) \
        and strip(v[2][1]) == ('const', ch)


def is_eq_const(v, parsed, s):
    if not (v[0] == 'call' and v[1].endswith('::eq') and len(v[2]) == 2):
        return False
    a, b = v[2]
    return (same(a, parsed) and strip(b) == ('const', s)) or (same(b, parsed) and strip(a) == ('const', s))


def pipeline(v):
    """adapter names of an iterator expression from its source outwards, and the source value:
    split('.').map(f).collect() -> (['map', 'collect'], split call)"""
    names = []
    v = strip(v)
    while v[0] == 'call' and v[2] and (v[1].startswith(IT) or v[1] in ('std::iter::FromIterator::from_iter', 'std::iter::DoubleEndedIterator::rev')):
        names.append(v[1].split('::')[-1])
        v = strip(v[2][0])
    names.reverse()
    return names, v


# ---- pulling from an iterator by hand ---------------------------------------------------------------------

def pulls(sl, fn):
    """`let mut it = <iterator>; it.next(); it.next(); ..`: (iterator value, [next Calls in execution order]) when every
    `next()` of fn pulls from one iterator local that is defined once, used for nothing else and not pulled in a loop"""
    nexts = [c for c in fn.calls if not c.indirect and c.decl == IT + 'next' and c.args]
    if not nexts:
        return None
    locs = set()
    for c in nexts:
        pl = op_place(c.args[0])
        if not pl or len(pl) != 1:
            return None
        ds = fn.whole_defs(pl[0])
        if len(ds) != 1 or ds[0][0] != 'stmt' or ds[0][3]['r'] != 'ref' or not ds[0][3].get('mut') or len(ds[0][3]['p']) != 1:
            return None
        locs.add(ds[0][3]['p'][0])
    if len(locs) != 1:
        return None
    it = locs.pop()
    if len(fn.whole_defs(it)) != 1 or fn.partial_defs(it):
        return None
    uses = [u for u in fn.uses_of(it) if u[1] != 'drop' and u[0] in fn.reachable(0)]
    if len(uses) != len(nexts) or any(u[1] != 'stmt' or u[3] != 'refmut' for u in uses):
        return None
    if any(fn.in_loop(c.bb) for c in nexts):
        return None
    order = sorted(nexts, key=lambda c: len(fn.dominators().get(c.bb, ())))
    if any(not fn.dominates(a.bb, b.bb) or a.bb == b.bb for a, b in zip(order, order[1:])):
        return None
    return sl.local(fn, it), order


def pull_status(conds, fn, call):
    """what the branch decisions `conds` say about the result of one `it.next()`:
    subset of {'some', 'none', 'valid'} ('valid': the yielded Option element is itself Some)"""
    site = (fn.path, call.bb)
    st = set()
    for cd in conds:
        if cd.kind != 'variant' or cd.subject is None:
            continue
        s, depth, flat = cd.subject, 0, False
        while s[0] == 'unwrap':
            s, depth = s[1], depth + 1
        if s[0] == 'call' and s[1].startswith('std::option::Option::') and s[1].endswith('::flatten') and len(s[2]) == 1 and depth == 0:
            s, flat = s[2][0], True
        if not (s[0] == 'call' and s[1] == IT + 'next' and len(s) > 3 and s[3] == site):
            continue
        oc = set(cd.outcome)
        if flat:
            if oc == {'Some'}:
                st |= {'some', 'valid'}
        elif depth == 0:
            if oc == {'Some'}:
                st.add('some')
            elif oc == {'None'}:
                st.add('none')
        elif depth == 1 and oc == {'Some'}:
            st.add('valid')
    return st


# ---- destructuring ----------------------------------------------------------------------------------------------

def is_field_alias(fn, dest, bb):
    """`dest = move <x.field>` only renames the field: dest is a whole local assigned exactly once, in a block that every
    execution of fn passes (it dominates all return blocks and is in no loop), and never written partially"""
    if len(dest) != 1:
        return False
    loc = dest[0]
    if len(fn.whole_defs(loc)) != 1 or fn.partial_defs(loc) or fn.in_loop(bb):
        return False
    rets = fn.return_blocks()
    return bool(rets) and all(fn.dominates(bb, r) for r in rets)


def field_alias_value(sl, fn, pl):
    """('field', base, name) when place `pl` is a whole local that is_field_alias of a field"""
    if not pl or len(pl) != 1 or 1 <= pl[0] <= fn.argc:
        return None
    ds = fn.whole_defs(pl[0])
    if len(ds) != 1 or ds[0][0] != 'stmt' or ds[0][3]['r'] != 'use' or not is_field_alias(fn, (pl[0],), ds[0][1]):
        return None
    src = op_place(ds[0][3]['o'])
    if not src or len(src) < 2:
        return None
    v = strip(sl.place(fn, src))
    return v if v[0] == 'field' else None


# ---- regex-match decisions ------------------------------------------------------------------------------------

def match_literal(sl, lit):
    """(is_match call value, polarity) when the literal decides P = `is_match(..) == Ok(true)`:
    polarity True: the literal implies P; False: it excludes P (Err, Ok(false), `.unwrap_or(false)` false)"""
    v = lit.value
    if lit.kind == 'variant':
        if v[0] == 'call' and v[1] == 'fancy_regex::Regex::is_match' and 'Ok' not in lit.outcome:
            return v, False
        return None
    if lit.kind != 'bool':
        return None
    if v[0] == 'call' and v[1].endswith('unwrap_or') and len(v[2]) == 2 and strip(v[2][1]) == ('const', False):
        v = sl.mk_unwrap(v[2][0], 1)
    if v[0] != 'unwrap':
        return None
    m = strip(v)
    if m[0] == 'call' and m[1] == 'fancy_regex::Regex::is_match' and len(m[2]) == 2:
        return m, lit.outcome
    return None


def deser_chain(prog, sl, ds):
    """(converter Call, String::deserialize Call) when the success payload of `deserialize` is
    conv(success payload of String::deserialize(d)) — whether spelled with `?`, and_then, map or match"""
    nf = sl.mk_unwrap(sl.local(ds, 0), 1)
    if nf[0] != 'unwrap':
        return None
    cv = nf[1]
    if not (cv[0] == 'call' and len(cv) > 3 and cv[3] and len(cv[2]) == 1):
        return None
    src = cv[2][0]
    if not (src[0] == 'unwrap' and src[1][0] == 'call' and len(src[1]) > 3 and src[1][3]):
        return None

    def call_at(site):
        g = prog.fns.get(site[0])
        return g.call_at(site[1]) if g is not None else None
    conv, sc = call_at(cv[3]), call_at(src[1][3])
    if conv is None or sc is None or not (sc.full and 'for std::string::String>::deserialize' in sc.full):
        return None
    return conv, sc


def display_pieces(sl, dsp):
    """what a Display::fmt writes, as format pieces (literal strings and values), when its result is one formatter
    call: write!(f, "..", ..) / f.write_str(&format!(..)) / f.write_str(x) / f.pad(x) / Display::fmt(x, f)"""
    import re
    v = strip(sl.local(dsp, 0))
    if v[0] != 'call' or len(v[2]) != 2:
        return None
    n = re.sub(r'<[^<>]*>', '', v[1])
    if n.endswith(('Formatter::::write_fmt', 'Formatter::::write_str', 'Formatter::::pad', 'Formatter::write_fmt', 'Formatter::write_str', 'Formatter::pad')):
        text = v[2][1]
    elif n.endswith('Display::fmt') or v[1].endswith(' as std::fmt::Display>::fmt'):
        text = v[2][0]
    else:
        return None
    text = strip(text)
    return list(text[1]) if text[0] == 'fmt' else [text]


# ---- rendered text ----------------------------------------------------------------------------------------------

def seq_elems(sl, v, depth=0):
    """the elements of a finite literal sequence in order, with map closures applied:
    [a, b].map(f) / [a, b].iter().map(f).collect::<Vec<_>>() / once(a).chain([b]) -> [f(a), f(b)]; None when the
    elements are not a fixed list (joins of alternatives, filters, unknown sources)"""
    v = strip(v)
    if depth > 8:
        return None
    if v[0] == 'array':
        return list(v[1])
    if v[0] != 'call' or not v[2]:
        return None
    name, args = v[1], v[2]
    if name == 'std::iter::once' and len(args) == 1:
        return [args[0]]
    if name == IT + 'chain' and len(args) == 2:
        a, b = seq_elems(sl, args[0], depth + 1), seq_elems(sl, args[1], depth + 1)
        return None if a is None or b is None else a + b
    if (name == IT + 'map' or (name.startswith('std::array::<impl [') and name.endswith('::map'))) and len(args) == 2:
        src = seq_elems(sl, args[0], depth + 1)
        if src is None:
            return None
        out = [sl.apply_closure(strip(args[1]), (e,)) for e in src]
        return None if any(r is None for r in out) else out
    if len(args) == 1 and (name in (IT + 'collect', 'std::iter::FromIterator::from_iter', IT + 'cloned', IT + 'copied') or
                           (not name.startswith(IT) and name.endswith(('::iter', '::into_iter', '::to_vec', '::as_slice', '::into_vec')))):
        return seq_elems(sl, args[0], depth + 1)
    return None


def text_pieces(sl, v, depth=0):
    """what a string-valued expression renders, as format pieces (literal text, or a value standing for its Display
    output) — the same list for `format!("{}.{}", a, b)`, `[a, b].map(|x| x.to_string()).join(".")`,
    `a.to_string() + "." + &b.to_string()`"""
    v = strip(v)
    if depth > 6:
        return [v]
    out = []
    if v[0] == 'const' and isinstance(v[1], str):
        out = [v[1]]
    elif v[0] == 'fmt':
        for p in v[1]:
            out.extend([p] if isinstance(p, str) else text_pieces(sl, p, depth + 1))
    elif v[0] == 'call' and v[1].endswith('ToString>::to_string') and len(v[2]) == 1:
        out = text_pieces(sl, v[2][0], depth + 1)
    elif v[0] == 'call' and v[1].startswith('std::slice::<impl [') and v[1].endswith(('::join', '::concat')) and 1 <= len(v[2]) <= 2:
        elems = seq_elems(sl, v[2][0])
        sep = text_pieces(sl, v[2][1], depth + 1) if len(v[2]) == 2 else []
        if elems is None or not all(isinstance(p, str) for p in sep):
            return [v]
        for i, e in enumerate(elems):
            if i:
                out.extend(sep)
            out.extend(text_pieces(sl, e, depth + 1))
    else:
        return [v]
    merged = []
    for p in out:
        if isinstance(p, str) and merged and isinstance(merged[-1], str):
            merged[-1] += p
        elif p != '':
            merged.append(p)
    return merged


# ==== deepening round: what is validated is what was given, what is produced is what was validated ==================

def call_of(prog, v):
    """the Call fact behind a ('call', name, args, site) value"""
    if v[0] != 'call' or len(v) < 4 or not v[3]:
        return None
    g = prog.fns.get(v[3][0])
    return g.call_at(v[3][1]) if g is not None else None


def is_param(v, fn, idx):
    v = strip(v)
    return v[0] == 'param' and v[1] == fn.path and v[2] == idx


def deser_input(prog, sl, ds):
    """(converter Call, value handed to it, String::deserialize Call | None) read off the normal form of the success
    payload of `deserialize`; None when the payload is not one conversion call of one argument"""
    nf = sl.mk_unwrap(sl.local(ds, 0), 1)
    if nf[0] != 'unwrap':
        return None
    cv = nf[1]
    if cv[0] != 'call' or len(cv[2]) != 1:
        return None
    conv = call_of(prog, cv)
    if conv is None:
        return None
    inp = cv[2][0]
    sc = None
    if inp[0] == 'unwrap' and inp[1][0] == 'call':
        c = call_of(prog, inp[1])
        if c is not None and c.full and 'for std::string::String>::deserialize' in c.full and len(inp[1][2]) == 1 \
                and is_param(inp[1][2][0], ds, 0):
            sc = c
    return conv, inp, sc


def lifted_to(prog, sl, g, vals, top):
    """vals of g re-expressed in top's terms: [values] per call chain; None entries where a chain does not end in top"""
    out = []
    for t, vs in lift(prog, sl, g, list(vals), top):
        out.append(vs if t.path == top.path else None)
    return out


def fmt_conversions(prog, fn):
    """how the format machinery is used in everything fn may enter in its crate: [(what, where)] for every placeholder
    that is not a plain `{}` (flags, width, precision) and every argument not formatted with Display"""
    from .lib.value import decode_fmt_template
    bad = []
    for g in region(prog, fn):
        for c in g.calls:
            d = c.decl or ''
            if d.startswith('core::fmt::rt::Argument::') and '::new_' in d:
                kind = d.split('::new_')[-1].split('::')[0]
                ty = (c.full or '').split('::new_' + kind + '::<')[-1].rstrip('>')
                # Debug and Display of a primitive integer are the same text
                if kind != 'display' and not (kind == 'debug' and ty in ('u8', 'u16', 'u32', 'u64', 'u128', 'usize')):
                    bad.append(('argument formatted with %s' % kind, c.where()))
            elif d.startswith('std::fmt::Arguments::') and d.endswith('::new') and c.args:
                k = c.args[0]
                tpl = None
                pl = op_place(k)
                if pl is not None and len(pl) >= 1:
                    # template: `_n = const b".."; _m = &_n` -> the constant
                    loc = pl[0]
                    for _ in range(4):
                        ds = g.whole_defs(loc)
                        if len(ds) != 1 or ds[0][0] != 'stmt':
                            break
                        rv = ds[0][3]
                        if rv['r'] == 'ref':
                            loc = rv['p'][0]
                            continue
                        if rv['r'] == 'use' and isinstance(rv['o'], dict) and 'k' in rv['o']:
                            vv = rv['o']['k'].get('v')
                            if isinstance(vv, dict) and 'bytes' in vv:
                                tpl = vv['bytes'].encode('latin-1') if isinstance(vv['bytes'], str) else bytes(vv['bytes'])
                            break
                        if rv['r'] == 'use':
                            p2 = op_place(rv['o'])
                            if p2:
                                loc = p2[0]
                                continue
                        break
                if tpl is None:
                    bad.append(('format template not a constant', c.where()))
                    continue
                i = 0
                while i < len(tpl):
                    n = tpl[i]
                    i += 1
                    if n == 0:
                        break
                    if n < 0x80:
                        i += n
                    elif n == 0x80:
                        i += 2 + (tpl[i] | (tpl[i + 1] << 8))
                    elif n == 0xC0:
                        pass
                    else:
                        if n & 7:
                            bad.append(('placeholder with flags / width / precision', c.where()))
                        if n & 1:
                            i += 4
                        if n & 2:
                            i += 2
                        if n & 4:
                            i += 2
                        if n & 8:
                            i += 2
            elif d.startswith('std::fmt::Arguments::') and d.endswith('::new_v1_formatted'):
                bad.append(('formatted placeholders', c.where()))
    return bad


def payloads(sl, v, depth=0):
    """the values an Option/Result-valued expression can carry as its success payload, None/Err alternatives dropped:
    a set of values; `('unwrap', call)` stands for the success payload of an opaque call.  The same set for
    `if ok { s.parse().ok() } else { None }`, `ok.then(|| s.parse().ok()).flatten()`, `ok.then(|| s.parse().ok())?`"""
    if depth > 10:
        return {('unknown', 'depth')}
    if v[0] == 'unwrap':
        out = set()
        for p in payloads(sl, v[1], depth + 1):
            out |= payloads(sl, p, depth + 1) if p[0] != 'unwrap' else {('unwrap', p)}
        return out
    if v[0] == 'phi':
        out = set()
        for x in v[1]:
            out |= payloads(sl, x, depth + 1)
        return out
    if v[0] == 'agg' and v[1] in ('std::option::Option', 'std::result::Result'):
        if v[2] in ('None', 'Err'):
            return set()
        return {v[3][0][1]} if len(v[3]) == 1 else {('unknown', 'agg')}
    if v[0] == 'call' and v[2]:
        n, a = v[1], v[2]
        if n in ('std::result::Result::<T, E>::ok', 'std::option::Option::<T>::ok_or', 'std::option::Option::<T>::ok_or_else',
                 'std::result::Result::<T, E>::map_err', 'std::option::Option::<T>::filter'):
            return payloads(sl, a[0], depth + 1)
        if n.endswith('>::flatten') and n.startswith('std::option::Option::'):
            out = set()
            for p in payloads(sl, a[0], depth + 1):
                out |= payloads(sl, p, depth + 1)
            return out
        if n.endswith('bool>::then') or n == 'core::bool::<impl bool>::then':
            r = sl.apply_closure(strip(a[1]), ()) if len(a) == 2 else None
            return {r} if r is not None else {('unknown', 'then')}
        if n.endswith('bool>::then_some') or n == 'core::bool::<impl bool>::then_some':
            return {a[1]} if len(a) == 2 else {('unknown', 'then_some')}
        if n in ('std::option::Option::<T>::and_then', 'std::result::Result::<T, E>::and_then') and len(a) == 2:
            out = set()
            for p in payloads(sl, a[0], depth + 1):
                r = sl.apply_closure(strip(a[1]), (p,))
                if r is None:
                    return {('unknown', 'and_then')}
                out |= payloads(sl, r, depth + 1)
            return out
        if n in ('std::option::Option::<T>::map', 'std::result::Result::<T, E>::map') and len(a) == 2:
            out = set()
            for p in payloads(sl, a[0], depth + 1):
                r = sl.apply_closure(strip(a[1]), (p,))
                out.add(r if r is not None else ('unknown', 'map'))
            return out
        if n in sl.prog.fns:
            # a workspace helper: what it returns, in the caller's terms
            iv = sl.inline_call(v)
            if iv is not None and iv != v:
                return payloads(sl, iv, depth + 1)
    return {('unwrap', v)}


# ==== robustness round 3 ==============================================================================================

PARSE_STREAM = "syn::parse::ParseBuffer::<'a>::parse"


def _instantiate(ty, links):
    """type argument `ty` of a call inside a generic private helper, instantiated along the call chain: a bare generic
    parameter name is bound by matching the helper's declared return / argument types against the types at its call"""
    import re
    for l in reversed(links):
        if ty is None or not re.fullmatch(r'[A-Z]\w*', ty):
            break
        h = None
        for n in (l.call.res, l.call.name, l.call.decl):
            h = h or (n and l.call.fn.prog.fns.get(n))
        if h is None:
            return None
        pat = re.escape(h.ret or '').replace(re.escape(ty), '(.+)', 1) if re.search(r'\b%s\b' % ty, h.ret or '') else None
        m = re.fullmatch(pat, l.call.dty or '') if pat else None
        if m is None:
            ga = getattr(l.call, 'ga', None) or []
            if len(ga) == 1:
                ty = ga[0]
                continue
            return None
        ty = m.group(1)
    return ty


def stream_reads(prog, sl, g):
    """the tokens a syn Parse impl takes from its input stream on every successful run, in execution order, through
    private helpers (generic ones instantiated at their call): ([(type read, Eff)], [Eff of reads that happen only on
    some runs])"""
    from .lib.effects import Effects, Link
    E = Effects(prog, sl, vocab={PARSE_STREAM: ('STREAM', 0)})
    must = [e for e in E.expand(g, 'must') if e.kind == 'STREAM']
    may = [e for e in E.expand(g, 'may') if e.kind == 'STREAM']

    def key(e):
        return tuple((l.call.fn.path, l.call.bb) for l in e.chain if isinstance(l, Link)) + ((e.call.fn.path, e.call.bb),)
    always = {key(e) for e in must}
    out = []
    for e in must:
        ga = getattr(e.call, 'ga', None) or []
        ty = ga[-1] if ga else None
        out.append((_instantiate(ty, [l for l in e.chain if isinstance(l, Link)]), e))
    return out, [e for e in may if key(e) not in always or e.forall is not None]


def read_top(e):
    """the call in the entry function through which read e happens"""
    return e.chain[0].call if e.chain else e.call


def read_result(prog, sl, g, v, e):
    """v (a value of g) is the success payload of stream read e itself: the call it names is the one that (through
    private helpers) performs e, on g's own input stream, and what that call returns is e's result, unmodified"""
    v = strip(v)
    c = call_of(prog, v)
    top = read_top(e)
    if c is None or c is not top or not is_param(e.path, g, 0):
        return False
    if not e.chain:
        return len(v[2]) == 1 and is_param(v[2][0], g, 0)
    iv = sl.inline_deep(('unwrap', v))
    if iv[0] != 'unwrap' or iv[1][0] != 'call':
        return False
    core = iv[1]
    return call_of(prog, core) is e.call and len(core[2]) == 1 and is_param(core[2][0], g, 0)


def failure_ways(PC, v, depth=0):
    """the ways an Option / Result valued expression is None / Err, as a disjunction of conjunctions of literals
    ([] = never, [()] = always); None when that is not decided by the combinators understood here:
        Some(..)/Ok(..) never, None/Err(..) always;  cond.then(f) / cond.then_some(x): iff cond is false (a private
        predicate deciding by control flow: the ways through its body that return false);
        x.ok_or(e) / x.ok_or_else(f) / x.map(f) / x.map_err(f) / x.ok() / x.inspect(..): iff x is"""
    sl = PC.sl
    if depth > 8 or not isinstance(v, tuple) or not v:
        return None
    if v[0] == 'agg' and v[1] in ('std::option::Option', 'std::result::Result'):
        return [()] if v[2] in ('None', 'Err') else []
    if v[0] == 'phi':
        return None
    if v[0] != 'call' or not v[2]:
        return None
    n, a = v[1], v[2]
    if n.endswith(('bool>::then', 'bool>::then_some')) or n in ('core::bool::<impl bool>::then', 'core::bool::<impl bool>::then_some'):
        if len(a) != 2:
            return None
        lit = PC.bool_literal(a[0], False)
        if lit is False:
            return []
        if lit is None:
            return [()]
        if isinstance(lit, tuple):
            return [tuple(x) for x in lit[1]]
        return [(lit,)]
    passthrough = ('std::option::Option::<T>::ok_or', 'std::option::Option::<T>::ok_or_else', 'std::option::Option::<T>::map',
                   'std::result::Result::<T, E>::map', 'std::result::Result::<T, E>::map_err', 'std::result::Result::<T, E>::ok',
                   'std::option::Option::<T>::inspect', 'std::result::Result::<T, E>::inspect', 'std::result::Result::<T, E>::inspect_err')
    if n in passthrough:
        return failure_ways(PC, a[0], depth + 1)
    return None


def fold_len(v, depth=0):
    """v with the length of a fixed-size array replaced by the constant it is: `[x; N].len()`, `[a, b, c].len()` —
    whatever was stored into the array since (its content does not matter to the length)"""
    if not isinstance(v, tuple) or not v or depth > 30:
        return v
    if v[0] in ('const', 'param', 'fnitem', 'constitem', 'unknown', 'closure_env', 'upvar'):
        return v
    if v[0] == 'call' and v[1] == 'core::slice::<impl [T]>::len' and len(v[2]) == 1:
        a = v[2][0]
        while a[0] in ('unwrap', 'updated'):
            a = a[1]
        if a[0] == 'repeat' and str(a[2]).isdigit():
            return ('const', int(a[2]))
        if a[0] == 'array':
            return ('const', len(a[1]))
    return tuple(fold_len(x, depth + 1) if isinstance(x, tuple) else x for x in v)


# ---- loops that count what they iterate -------------------------------------------------------------------------

class CountingLoop:
    """`let mut k = 0; for x in <iter> { ..; k += 1 }`: k is assigned nowhere else, never borrowed mutably, and the
    increment lies on every way round the loop exactly once.  Invariant: at the loop head k is the number of elements
    taken so far that completed the body; on the exhaustion edge (next() == None) it is the number of elements of
    <iter>, provided every element's iteration reached the latch — which holds for whatever is reached only through
    that edge."""

    def __init__(self, fn, loop, k, inc_bb, inc_si):
        self.fn, self.loop, self.k, self.inc_bb, self.inc_si = fn, loop, k, inc_bb, inc_si


def _loops(fn, sl):
    from .lib.effects import find_loops
    return find_loops(fn, sl)


def _int_const(op):
    from .lib.mir import const_value
    k = op_const(op)
    v = const_value(k) if k is not None else None
    return v if isinstance(v, int) and not isinstance(v, bool) else None


def counting_loops(fn, sl):
    loops = _loops(fn, sl)
    out = []
    for L in loops:
        if getattr(L, 'exhaust', None) is None:
            continue
        if any(L2 is not L and L.header in L2.body and L2.header != L.header for L2 in loops):
            continue    # nested in another loop: "after the loop" is not one point in time
        inner = [L2 for L2 in loops if L2.header != L.header and L2.header in L.body]
        for k in range(fn.argc + 1, len(fn.locals)):
            ds = fn.whole_defs(k)
            if len(ds) != 2 or fn.partial_defs(k) or any(d[0] != 'stmt' for d in ds):
                continue
            init = [d for d in ds if d[1] not in L.body]
            step = [d for d in ds if d[1] in L.body]
            if len(init) != 1 or len(step) != 1:
                continue
            d0, d1 = init[0], step[0]
            if not (d0[3]['r'] == 'use' and _int_const(d0[3]['o']) == 0 and fn.dominates(d0[1], L.header) and not fn.in_loop(d0[1])):
                continue
            # k = k + 1 (checked: `tmp = AddWithOverflow(copy k, 1); assert; k = move tmp.0`, unchecked: `k = Add(copy k, 1)`)
            rv = d1[3]
            add = None
            if rv['r'] == 'bin':
                add = rv
            elif rv['r'] == 'use':
                pl = op_place(rv['o'])
                if pl and len(pl) == 2 and pl[1] == '.0':
                    td = fn.whole_defs(pl[0])
                    if len(td) == 1 and td[0][0] == 'stmt' and td[0][3]['r'] == 'bin' and not fn.partial_defs(pl[0]) and td[0][1] in L.body \
                            and (td[0][1] == d1[1] or fn.dominates(td[0][1], d1[1])):
                        add = td[0][3]
            if add is None or add.get('op') not in ('Add', 'AddWithOverflow', 'AddUnchecked'):
                continue
            ops = [add['a'], add['b']]
            if not any(op_place(o) == [k] for o in ops) or not any(_int_const(o) == 1 for o in ops):
                continue
            if not all(fn.dominates(d1[1], l) or d1[1] == l for l in L.latches):
                continue
            if any(d1[1] in L2.body for L2 in inner):
                continue
            if any(u[3] in ('refmut',) for u in fn.uses_of(k)):
                continue
            out.append(CountingLoop(fn, L, k, d1[1], d1[2]))
    return out


def _after(fn, L, bb):
    from .lib.guards import edge_dominates
    return edge_dominates(fn, L.exhaust[0], L.exhaust[1], bb)


def _reads_after(fn, L, op, k, bb, depth=0):
    """operand `op`, evaluated in block bb, is the value local k has after loop L ran to exhaustion"""
    pl = op_place(op)
    if pl is None or len(pl) != 1 or depth > 6:
        return False
    if pl[0] == k:
        return _after(fn, L, bb)
    ds = fn.whole_defs(pl[0])
    if len(ds) != 1 or ds[0][0] != 'stmt' or ds[0][3]['r'] != 'use' or fn.partial_defs(pl[0]):
        return False
    return _reads_after(fn, L, ds[0][3]['o'], k, ds[0][1], depth + 1)


def _array_len(fn, loc):
    import re
    m = re.fullmatch(r'\[.*; (\d+)\]', fn.locals[loc].get('ty') or '') if 0 <= loc < len(fn.locals) else None
    return int(m.group(1)) if m else None


def _const_operand(fn, op, depth=0):
    """integer an operand denotes: a literal, or the length of a fixed-size array local (`arr.len()`)"""
    n = _int_const(op)
    if n is not None or depth > 6:
        return n
    pl = op_place(op)
    if pl is None or len(pl) != 1:
        return None
    ds = fn.whole_defs(pl[0])
    if len(ds) != 1 or fn.partial_defs(pl[0]):
        return None
    d = ds[0]
    if d[0] == 'stmt' and d[3]['r'] in ('use', 'cast') and 'o' in d[3]:
        return _const_operand(fn, d[3]['o'], depth + 1)
    if d[0] == 'stmt' and d[3]['r'] == 'ref' and len(d[3]['p']) == 1:
        return ('arr', d[3]['p'][0])
    if d[0] == 'call' and d[3].is_('core::slice::<impl [T]>::len') and len(d[3].args) == 1:
        a = _const_operand(fn, d[3].args[0], depth + 1)
        if isinstance(a, tuple) and a[0] == 'arr':
            return _array_len(fn, a[1])
    return None


def exact_count(fn, sl, cl, bb):
    """N when block bb is reached only after the counting loop ran to exhaustion and under `k == N`, tested after
    the loop: the iterated expression has exactly N elements there"""
    L = cl.loop
    if not _after(fn, L, bb):
        return None
    for cd in conditions(fn, bb, sl):
        if cd.kind != 'bool' or not isinstance(cd.outcome, bool) or not _after(fn, L, cd.sw_bb):
            continue
        t = fn.blocks[cd.sw_bb]['t']
        pl = op_place(t.get('o'))
        if t['t'] != 'switch' or pl is None or len(pl) != 1:
            continue
        ds = fn.whole_defs(pl[0])
        # `k == N` taken as true, or `k != N` taken as false
        if len(ds) != 1 or ds[0][0] != 'stmt' or ds[0][3]['r'] != 'bin' or fn.partial_defs(pl[0]) \
                or ds[0][3].get('op') != ('Eq' if cd.outcome else 'Ne'):
            continue
        eb = ds[0][1]
        if not _after(fn, L, eb):
            continue
        a, b = ds[0][3]['a'], ds[0][3]['b']
        for x, y in ((a, b), (b, a)):
            if _reads_after(fn, L, x, cl.k, eb):
                n = _const_operand(fn, y)
                if isinstance(n, int):
                    return n
    return None


def loop_element(fn, sl, L):
    """the value bound by `for x in ..` / `while let Some(x) = it.next()`: the payload of the loop's next()"""
    return ('unwrap', sl._call_value(fn, L.next_call, set(), 0))


def split_source(v):
    """(adapter names, split call) of an iterated expression with `into_iter` / `by_ref` read as transparent"""
    names, src = pipeline(v)
    return [n for n in names if n not in ('into_iter', 'by_ref')], src


def filled_array_reads(fn, sl, cl, v, bb):
    """v = A[i] read in block bb, A a fixed-size array local of length N that the counting loop fills: the only element
    writes are `A[j] = x` with j a copy of the counter taken in the same iteration before the increment, in a block on
    every way round the loop; bb is reached only with exactly N elements iterated and i < N.  Then slot i holds what
    iteration i stored (the initial content is never read): the values stored, else None."""
    if not (isinstance(v, tuple) and v[0] == 'index' and isinstance(v[2], str)):
        return None
    import re
    m = re.fullmatch(r'\[(\d+)\]', v[2])
    base = v[1]
    slot = int(m.group(1)) if m else None
    im = re.fullmatch(r'\[_(\d+)\]', v[2])
    if im is not None:      # `A[i]` with `i = const n`
        ds = fn.whole_defs(int(im.group(1)))
        if len(ds) == 1 and ds[0][0] == 'stmt' and ds[0][3]['r'] == 'use' and not fn.partial_defs(int(im.group(1))):
            slot = _int_const(ds[0][3]['o'])
    if slot is None or base[0] != 'updated' or base[1][0] not in ('repeat', 'array'):
        return None
    L = cl.loop
    # which local: the array written by index inside the loop
    cands = []
    for loc in range(fn.argc + 1, len(fn.locals)):
        n = _array_len(fn, loc)
        pds = fn.partial_defs(loc)
        if n is None or not pds:
            continue
        if canon(sl.local(fn, loc)) == canon(base):
            cands.append((loc, n, pds))
    if len(cands) != 1:
        return None
    loc, n, pds = cands[0]
    if not (0 <= slot < n) or exact_count(fn, sl, cl, bb) != n or len(fn.whole_defs(loc)) != 1:
        return None
    # the symbolic read does not say when it happens: every indexed read of A must lie behind the loop and `k == N`
    reads = [u for u in fn.uses_of(loc) if len(u[4]) >= 2 and str(u[4][1]).startswith('[') and u[0] in fn.reachable(0)]
    if not reads or any(exact_count(fn, sl, cl, u[0]) != n for u in reads):
        return None
    if any(u[3] == 'refmut' for u in fn.uses_of(loc)):
        return None
    for d in pds:
        if d[0] != 'stmt' or len(d[4]) != 2 or d[4][0] != loc:
            return None
        im = re.fullmatch(r'\[_(\d+)\]', str(d[4][1]))
        if im is None or d[1] not in L.body:
            return None
        j = int(im.group(1))
        jd = fn.whole_defs(j)
        if len(jd) != 1 or jd[0][0] != 'stmt' or jd[0][3]['r'] != 'use' or op_place(jd[0][3]['o']) != [cl.k] or fn.partial_defs(j):
            return None
        jb, wb = jd[0][1], d[1]
        # copy of k -> write -> increment, in this order within one iteration, the write on every way round
        if jb not in L.body or not (jb == wb or fn.dominates(jb, wb)) or (jb == wb and jd[0][2] > d[2]):
            return None
        if not (wb == cl.inc_bb or fn.dominates(wb, cl.inc_bb)) or (wb == cl.inc_bb and d[2] > cl.inc_si):
            return None
        if jb == cl.inc_bb and jd[0][2] > cl.inc_si:
            return None
        if fn.dominates(cl.inc_bb, jb) and cl.inc_bb != jb:
            return None
    return [val for _, val in base[2]]
