"""C11 helpers — work-list removers, listings behind helpers, descent sites.

A recursive remover keeps "the directories still being emptied" in its call frames; the same algorithm written
iteratively keeps them in an explicit work list (`Vec<(PathBuf, ReadDir)>`, `Vec<PathBuf>`, a VecDeque ...).  The
obligations of C11 are stated on path classes (DIR = the argument, CHILD = an entry listed from a classified
directory), so what is needed is an *invariant of the work list*:

    every element's path components are inside the tree of the function's argument, and every listing component
    lists a directory inside that tree

proved by induction over the pushes (Worklist.validate): the pushes that do not read the list are the base case
(classified against the parameter), the pushes that are computed from an element are the step (classified with the
element replaced by the base element — classification only looks at an element through the classes of its components
and CHILD-of-in-tree is in-tree, so the step holds for every element when it holds for the representative).
Reads of the list (`last_mut`, `pop`, ...) are then given the representative element as their value (seed), which makes
effects, guards and path classes of everything derived from an element available to the unchanged rule machinery.

The representative is used for MAY facts only (confinement, guards).  MUST facts ("the directory is removed on every
success path") are derived on the unseeded values by EffectsX:
  drain   a success site that is only reached after a read of the list returned None, with no push in between, sees
          an empty list; when every `pop` is followed on all paths by a checked REMOVE of component k of the popped
          element, every pushed element had its component k removed;
  split   effects that hold on every out-edge of a dominating `match` on the result of a private helper (the helper's
          outcomes of that variant + what every path from the edge to the site passes) hold at the site:
          "symlink => unlinked by the helper, returned None | directory => pushed (and drained)".
"""
from .lib.effects import Effects, Eff, Link, REMOVING, GROUP, eff_key, vocab_lookup, outcomes
from .lib.guards import conditions, always_through, _discr_info
from .lib.paths import LayerPaths, strip
from .lib.value import Slicer, walk, _err_like, UNWRAPPING
from .lib.discard import result_fates, verdict

ELEM = 'worklist::element'
FOLLOWING = {'CHMOD', 'LIST'}            # operate on the link target

PUSH = {'push', 'push_back', 'push_front'}
POP = {'pop', 'pop_back', 'pop_front'}
PEEK = {'last', 'last_mut', 'first', 'first_mut', 'back', 'back_mut', 'front', 'front_mut'}
NEUTRAL = {'is_empty', 'len', 'capacity', 'reserve', 'shrink_to_fit'}
DEREF = {'deref', 'deref_mut', 'as_slice', 'as_mut_slice', 'as_mut', 'as_ref'}
CTOR = {'new', 'with_capacity', 'default'}
LIST_TYPES = ('std::vec::Vec<', 'std::collections::VecDeque<')
LISTING_ADVANCE = {'std::iter::Iterator::next'}     # `&mut listing` may only be advanced: it keeps listing the same directory


def in_tree(k):
    return k is not None and (k == ('DIR',) or k[0] == 'CHILD')


# ---- value normal forms --------------------------------------------------------------------------------------------
def _has_elem(v):
    return any(x[0] == 'call' and x[1] == ELEM for x in walk(v))


def simplify(sl, v):
    """v with every read of a validated work list replaced by the representative element (fields re-normalised);
    values that do not mention a work list are returned untouched"""
    if not isinstance(v, tuple) or not v or not _has_elem(v):
        return v
    return _simp(sl, v)


def _simp(sl, v):
    if not isinstance(v, tuple) or not v:
        return v
    if v[0] in ('const', 'param', 'fnitem', 'constitem', 'unknown', 'closure_env', 'upvar'):
        return v
    out = tuple(_simp(sl, x) if isinstance(x, tuple) else x for x in v)
    if out[0] == 'unwrap':
        y = out[1]
        if y[0] == 'call' and y[1] == ELEM and y[2]:
            return y[2][0]
        if y[0] == 'agg' and y[2] in ('Some', 'Ok') and len(y[3]) == 1:
            return y[3][0][1]
    if out[0] == 'field' and out[1][0] in ('agg', 'tuple', 'phi', 'updated', 'closure'):
        return sl._field(out[1], out[2])
    if out[0] == 'variant' and out[1][0] in ('agg', 'phi'):
        return sl._variant(out[1], out[2])
    return out


def _ctor(v):
    """'Some' / 'Ok' / 'None' / 'Err' when v is that constructor applied (aggregate or constructor fn item)"""
    if v[0] == 'agg' and v[1] in ('std::option::Option', 'std::result::Result'):
        return v[2]
    if v[0] == 'call' and (len(v) < 4 or v[3] is None):
        last = v[1].rsplit('::', 1)[-1]
        if last in ('Some', 'Ok', 'None', 'Err'):
            return last
    return None


def _ctor_arg(v):
    if v[0] == 'agg':
        return v[3][0][1] if len(v[3]) == 1 else None
    return v[2][0] if len(v[2]) == 1 else None


TRANSPOSE = ('std::option::Option::<std::result::Result<T, E>>::transpose',
             'std::result::Result::<std::option::Option<T>, E>::transpose')


SAME_ELEMENTS = ('std::iter::Iterator::by_ref', 'std::iter::IntoIterator::into_iter', 'std::iter::Iterator::fuse',
                 'std::iter::Iterator::peekable')


def listing_dirs(sl, v, depth=0):
    """directories whose listing (ReadDir) or listed entry (DirEntry) the value v is, looking through `?`/unwrap,
    Some/Ok wrappers, `.map(Some)` and private helpers that open the listing: [dir values] or None.
    Failure alternatives (Err / None / `?` residuals) carry no listing and are skipped."""
    if depth > 10 or not isinstance(v, tuple) or not v:
        return None
    v = strip(v)
    k = v[0]
    if k == 'phi':
        out = []
        for x in v[1]:
            if _err_like(x) or _ctor(x) in ('None', 'Err'):
                continue
            if _ctor(x) in ('Some', 'Ok') and _ctor_arg(x) is not None and _ctor(strip(_ctor_arg(x))) in ('None', 'Err'):
                continue        # Ok(None)
            d = listing_dirs(sl, x, depth + 1)
            if d is None:
                return None
            out.extend(y for y in d if y not in out)
        return out or None
    if k in ('field', 'variant'):
        return listing_dirs(sl, v[1], depth + 1)
    if _ctor(v) in ('Some', 'Ok'):
        a = _ctor_arg(v)
        return listing_dirs(sl, a, depth + 1) if a is not None else None
    if k == 'call':
        name, args = v[1], v[2]
        if name == 'std::iter::Iterator::next' and args:
            return listing_dirs(sl, args[0], depth + 1)
        if name in SAME_ELEMENTS and args:
            # adapters that hand on the very same elements (`for e in listing.by_ref()`, `.peekable()`, `.fuse()`)
            return listing_dirs(sl, args[0], depth + 1)
        if name in TRANSPOSE and len(args) == 1:
            # Option<Result<T>> <-> Result<Option<T>>: the same payload, wrappers swapped
            return listing_dirs(sl, args[0], depth + 1)
        if name == 'std::fs::read_dir' and args:
            return [args[0]]
        if name in Slicer.MAP_LIKE and len(args) == 2 and args[1][0] == 'fnitem' and args[1][1].rsplit('::', 1)[-1] in ('Some', 'Ok'):
            return listing_dirs(sl, args[0], depth + 1)
        if name in sl.prog.fns:
            iv = sl.inline_call(v)
            if iv is not None and iv != v:
                return listing_dirs(sl, iv, depth + 1)
    return None


ENTRY_NAME = 'std::fs::DirEntry::file_name'
ENTRY_PATH = 'std::fs::DirEntry::path'
PATH_JOIN = ('std::path::Path::join', 'std::path::PathBuf::join')
# conversions between OsString / OsStr / Path / PathBuf (and references to them) that keep the bytes of a name
_NAME_CONV_LAST = {'deref', 'as_ref', 'borrow', 'as_os_str', 'as_path', 'clone', 'to_owned', 'to_os_string', 'to_path_buf',
                   'into_os_string', 'as_os_string', 'into', 'from', 'into_boxed_os_str', 'into_boxed_path'}
_NAME_CONV_FULL = {'std::path::Path::new', 'std::path::PathBuf::from', 'std::ffi::OsString::from'}
# calls whose result is a function of their arguments only (comparing two of them without their call sites is sound)
_PURE_PATH_LAST = {'deref', 'as_ref', 'borrow', 'as_path', 'clone', 'to_owned', 'to_path_buf', 'join', 'as_os_str'}


def _entry_of_name(v):
    """entry E when v is `E.file_name()` behind byte-preserving conversions, else None"""
    for _ in range(8):
        v = strip(v)
        if v[0] != 'call' or len(v[2]) != 1:
            return None
        if v[1] == ENTRY_NAME:
            return v[2][0]
        if v[1] in _NAME_CONV_FULL or v[1].rsplit('::', 1)[-1] in _NAME_CONV_LAST:
            v = v[2][0]
            continue
        return None
    return None


def _peel_conv(v):
    """v without the conversions between &Path / PathBuf / OsStr that keep the path (`dir.to_path_buf()` is `dir`)"""
    for _ in range(8):
        v = strip(v)
        if v[0] == 'call' and len(v[2]) == 1 and (v[1] in _NAME_CONV_FULL or v[1].rsplit('::', 1)[-1] in _NAME_CONV_LAST):
            v = v[2][0]
            continue
        break
    return v


def _same_dir_value(a, b):
    """do two directory values denote the same path: identical terms, or terms that agree up to call-site identity and
    consist of pure path arithmetic only (two `next()` calls at different sites are different entries)"""
    a, b = _peel_conv(a), _peel_conv(b)
    if a == b:
        return True
    from .lib.value import canon
    if canon(a) != canon(b):
        return False
    return all(x[0] != 'call' or x[1] in _NAME_CONV_FULL or x[1].rsplit('::', 1)[-1] in _PURE_PATH_LAST for x in walk(a))


def entry_paths_nf(sl, v, _memo=None):
    """normal form of path values: `D.join(entry.file_name())` where `entry` was listed from the same D is, by std's
    definition of DirEntry::path ("the full path created by joining the original path to read_dir with the filename of
    this entry"), the value `entry.path()`.  A join of an entry's name to any *other* directory stays a join."""
    if not isinstance(v, tuple) or not v:
        return v
    if not any(x[0] == 'call' and x[1] == ENTRY_NAME for x in walk(v)):
        return v
    if _memo is None:
        _memo = {}
    return _epnf(sl, v, _memo)


def _epnf(sl, v, memo):
    if not isinstance(v, tuple) or not v:
        return v
    if v[0] in ('const', 'param', 'fnitem', 'constitem', 'unknown', 'closure_env', 'upvar'):
        return v
    r = memo.get(v)
    if r is not None:
        return r
    out = tuple(_epnf(sl, x, memo) if isinstance(x, tuple) else x for x in v)
    if out[0] == 'call' and out[1] in PATH_JOIN and len(out[2]) == 2:
        entry = _entry_of_name(out[2][1])
        if entry is not None:
            dirs = listing_dirs(sl, entry)
            if dirs and all(_same_dir_value(d, out[2][0]) for d in dirs):
                out = ('call', ENTRY_PATH, (entry,)) + tuple(out[3:])
    memo[v] = out
    return out


def bool_edges(fn, sl):
    """a Cond for *every* out-edge of a boolean switch of fn (guards.conditions only reports the edges that dominate
    one block): the raw material for "every way to X crosses an edge that asserts P" """
    from .lib.guards import Cond
    out = []
    for sb, blk in enumerate(fn.blocks):
        t = blk['t']
        if t['t'] != 'switch' or t.get('oty') != 'bool':
            continue
        listed = [v for v, _ in t['targets']]
        by_target = {}
        for v, tb in t['targets']:
            by_target.setdefault(tb, []).append(v)
        by_target.setdefault(t['else'], []).append('else')
        if len(by_target) < 2:
            continue
        val0 = sl.operand(fn, t['o'])
        for tb, labels in by_target.items():
            if labels == ['else'] and listed == [0]:
                outcome = True
            elif labels == [0]:
                outcome = False
            elif labels == [1]:
                outcome = True
            elif labels == ['else'] and listed == [1]:
                outcome = False
            else:
                continue
            val = val0
            while val[0] == 'un' and val[1] == 'Not':
                val, outcome = val[2], not outcome
            cd = Cond(fn, sb, tb, 'bool', outcome, val)
            cd._slicer = sl
            out.append(cd)
    return out


def reaches_avoiding(fn, starts, goal, cut):
    """is block `goal` reachable from one of `starts` (normal edges) without using an edge of `cut`"""
    seen, todo = set(), list(starts)
    while todo:
        b = todo.pop()
        if b in seen:
            continue
        seen.add(b)
        if b == goal:
            return True
        for t in fn.succs(b):
            if (b, t) not in cut:
                todo.append(t)
    return False


class TreePaths(LayerPaths):
    """LayerPaths that also understands elements of validated work lists and listings opened by private helpers"""

    def __init__(self, sl, is_ld, is_ln, dir_values=()):
        LayerPaths.__init__(self, is_ld, is_ln, dir_values)
        self.sl = sl

    def classify(self, v, depth=0):
        if v is None or depth > 12:
            return None
        k = self._classify(v, depth)
        if k is None and depth == 0:
            # a path taken out of a value built by a private helper (`LayerPaths::new(ld, name).dir`): judge what the
            # helper returns
            iv = self.sl.inline_deep(v, keep=(LayerPaths.sbom_path_fn,))
            if iv != v:
                k = self._classify(iv, 1)
        return k

    def _classify(self, v, depth):
        v = entry_paths_nf(self.sl, simplify(self.sl, v))
        s = strip(v)
        if s[0] == 'call' and s[1] == 'std::fs::DirEntry::path' and len(s[2]) == 1:
            k = LayerPaths.classify(self, v, depth)
            if k is not None:
                return k
            dirs = listing_dirs(self.sl, s[2][0])
            if dirs:
                cs = {self.classify(d, depth + 1) for d in dirs}
                if len(cs) == 1:
                    cb = cs.pop()
                    if cb is not None and cb[0] in ('DIR', 'SUB', 'CHILD'):
                        return ('CHILD', cb)
            return None
        return LayerPaths.classify(self, v, depth)


def param_paths(sl, fn, idx):
    never = lambda v: False
    return TreePaths(sl, never, never, (lambda v: v[0] == 'param' and v[1] == fn.path and v[2] == idx,))


# ---- work lists ----------------------------------------------------------------------------------------------------
def _op_role(call):
    if call.indirect:
        return None
    for n in (call.res, call.decl):
        if not n or '::' not in n:
            continue
        owner, last = n.rsplit('::', 1)
        if not any(t in owner for t in ('Vec', 'slice', '[T]')):
            continue
        for role, names in (('PUSH', PUSH), ('POP', POP), ('PEEK', PEEK), ('NEUTRAL', NEUTRAL), ('DEREF', DEREF)):
            if last in names:
                return role
    return None


class Worklist:
    def __init__(self, fn, local, ctor):
        self.fn = fn
        self.local = local
        self.ctor = ctor
        self.pushes, self.pops, self.peeks = [], [], []
        self.base = []          # [(push Call, pushed value)] not computed from an element
        self.ind = []           # [push Call] computed from an element
        self.B = None           # representative element
        self.param = None       # parameter index the tree is rooted at
        self.kinds = {}         # component -> 'path' | 'listing'
        self._acc = None

    def readers(self):
        return self.pops + self.peeks

    def reader_sites(self):
        return {(self.fn.path, c.bb) for c in self.readers()}

    # -- shape -----------------------------------------------------------------------------------------------------
    def _trace(self, loc, is_ref, seen):
        """every use of the list (or of a reference to it) is one of the modelled operations"""
        fn = self.fn
        if loc in seen:
            return True
        seen.add(loc)
        for bi, kind, idx, how, pl in fn.uses_of(loc):
            if kind == 'drop':
                continue
            if kind == 'stmt':
                st = fn.blocks[bi]['s'][idx]
                dest, rv = st[1], st[2]
                if [p for p in pl[1:] if p != '*'] or len(dest) != 1:
                    return False
                if rv['r'] == 'ref' or (is_ref and rv['r'] in ('use', 'cfd')):
                    if not self._trace(dest[0], True, seen):
                        return False
                    continue
                return False
            if kind == 'arg' and is_ref and idx == 0:
                c = fn.call_at(bi)
                role = _op_role(c)
                if role is None:
                    return False
                if role == 'DEREF':
                    if not c.dest or len(c.dest) != 1 or not self._trace(c.dest[0], True, seen):
                        return False
                elif role == 'PUSH':
                    if len(c.args) != 2:
                        return False
                    self.pushes.append(c)
                elif role == 'POP':
                    self.pops.append(c)
                elif role == 'PEEK':
                    self.peeks.append(c)
                continue
            return False
        return True

    def _mutref_ok(self, y, seen):
        """a `&mut` to a component of an element is only used to advance a listing"""
        fn = self.fn
        if y in seen:
            return True
        seen.add(y)
        if any('*' in d[4] for d in fn.partial_defs(y)):
            return False
        for bi, kind, idx, how, pl in fn.uses_of(y):
            if kind == 'drop':
                continue
            if kind == 'stmt':
                st = fn.blocks[bi]['s'][idx]
                if st[2]['r'] == 'ref' and not st[2].get('mut') and len(st[1]) == 1:
                    # a shared reborrow (`&*current` handed to Path::join): nothing reachable through a `&PathBuf` /
                    # `&ReadDir` changes the component (advancing a listing needs `&mut`)
                    continue
                if st[2]['r'] in ('ref', 'use', 'cfd') and len(st[1]) == 1:
                    if not self._mutref_ok(st[1][0], seen):
                        return False
                    continue
                return False
            if kind == 'arg':
                c = fn.call_at(bi)
                if not c.indirect and c.decl in LISTING_ADVANCE and idx == 0:
                    continue
                return False
            return False
        return True

    def _elemref_ok(self, x, mutable, seen, opt=False):
        """a reference to an element handed out by a peek does not change the element's components
        (opt: x is the `Option<&T>` returned by the peek, the reference is its `Some` payload)"""
        fn = self.fn
        if x in seen:
            return True
        seen.add(x)
        if any('*' in d[4] for d in fn.partial_defs(x)):
            return False
        for bi, kind, idx, how, pl in fn.uses_of(x):
            if kind in ('drop', 'switch'):
                continue
            rest = pl[1:]
            if kind == 'stmt' and fn.blocks[bi]['s'][idx][2]['r'] == 'discr':
                continue
            if opt and kind == 'stmt':
                if rest[:2] != ['@Some', '.0']:
                    return False
                rest = rest[2:]
            projected = bool([p for p in rest if p != '*' and not p.startswith('@')])
            if kind == 'stmt':
                st = fn.blocks[bi]['s'][idx]
                dest, rv = st[1], st[2]
                r = rv['r']
                if r == 'ref':
                    if rv.get('mut') and mutable:
                        if len(dest) != 1 or not (self._mutref_ok(dest[0], set()) if projected else self._elemref_ok(dest[0], mutable, seen)):
                            return False
                    continue
                if r in ('use', 'cfd'):
                    if projected:
                        continue            # a component copied out
                    if len(dest) != 1 or not self._elemref_ok(dest[0], mutable, seen):
                        return False
                    continue
                return False
            if kind == 'arg':
                c = fn.call_at(bi)
                if not c.indirect and (c.names() & UNWRAPPING) and c.dest and len(c.dest) == 1:
                    if not self._elemref_ok(c.dest[0], mutable, seen):
                        return False
                    continue
                if not mutable:
                    continue
                return False
            return False
        return True

    def shape_ok(self):
        if not self._trace(self.local, False, set()):
            return False
        fn = self.fn
        for c in self.readers():
            if not c.dest or len(c.dest) != 1 or len(fn.whole_defs(c.dest[0])) != 1:
                return False
        for c in self.peeks:
            mutable = c.name.endswith('_mut')
            if not self._elemref_ok(c.dest[0], mutable, set(), opt=True):
                return False
        return bool(self.pushes)

    # -- invariant -------------------------------------------------------------------------------------------------
    def _components(self, v):
        if v[0] == 'tuple':
            return [str(i) for i in range(len(v[1]))]
        if v[0] == 'agg':
            return [n for n, _ in v[3]]
        return ['']

    @staticmethod
    def comp(sl, v, k):
        return v if k == '' else sl._field(v, k)

    def seed(self, sl):
        for c in self.readers():
            sl._cache[(self.fn.path, c.dest[0])] = ('call', ELEM, (self.B,), (self.fn.path, c.bb))

    def validate(self, prog, sl0):
        """induction over the pushes; on success self.B / self.param / self.kinds are set"""
        fn = self.fn
        sites = self.reader_sites()
        for c in self.pushes:
            v = sl0.operand(fn, c.args[1])
            if any(x[0] == 'call' and len(x) == 4 and x[3] in sites for x in walk(v)):
                self.ind.append(c)
            else:
                self.base.append((c, v))
        if not self.base:
            return False
        from .lib.value import _phi
        self.B = _phi([v for _, v in self.base])
        tmp = Slicer(prog)
        self.seed(tmp)
        ind_vals = [simplify(tmp, tmp.operand(fn, c.args[1])) for c in self.ind]
        if any(_has_elem(v) for v in ind_vals):
            return False
        comps = self._components(self.base[0][1])
        for i in range(fn.argc):
            tp = param_paths(tmp, fn, i)

            def kind_of(v):
                if in_tree(tp.classify(v)):
                    return 'path'
                ds = listing_dirs(tmp, v)
                if ds and all(in_tree(tp.classify(d)) for d in ds):
                    return 'listing'
                return None
            kinds = {}
            ok = True
            for k in comps:
                ks = {kind_of(self.comp(tmp, v, k)) for _, v in self.base}
                if len(ks) != 1:
                    ok = False
                    break
                kd = ks.pop()
                if kd is None:
                    continue
                kinds[k] = kd
                if any(kind_of(self.comp(tmp, v, k)) != kd for v in ind_vals):
                    ok = False
                    break
            if ok and kinds:
                # entry_paths_nf reads `P.join(entry.file_name())`, entry listed from L, as `entry.path()` when L lists P;
                # through the representative that relation between two components of one element is assumed for every
                # element, so it has to be part of the invariant: every pushed (.., P, .., L, ..) has L listing P
                ps = [k for k, kd in kinds.items() if kd == 'path']
                ls = [k for k, kd in kinds.items() if kd == 'listing']
                if ps and ls:
                    vals = [v for _, v in self.base] + ind_vals
                    if len(ps) != 1 or len(ls) != 1:
                        ok = False
                    else:
                        for v in vals:
                            ds = listing_dirs(tmp, self.comp(tmp, v, ls[0]))
                            if not ds or not all(_same_dir_value(d, self.comp(tmp, v, ps[0])) for d in ds):
                                ok = False
                                break
            if ok and kinds:
                self.param, self.kinds = i, kinds
                return True
        return False

    # -- drain -----------------------------------------------------------------------------------------------------
    def accounted(self, prog, sl0, success_bbs):
        """{component: removing Call} such that every pop is followed, on all paths to a success site or to the next
        pop, by that checked removal of the popped element's component"""
        if self._acc is not None:
            return self._acc
        fn = self.fn
        common = None
        for p in self.pops:
            found = {}
            skip = []
            for sb, blk in enumerate(fn.blocks):
                t = blk['t']
                if t['t'] != 'switch':
                    continue
                di = _discr_info(fn, sb, t['o'])
                if not di or di[0][0] != p.dest[0] or [x for x in di[0][1:] if x != '*']:
                    continue
                listed = [v for v, _ in t['targets']]
                for v, tb in t['targets']:
                    if di[1].get(v) != 'Some':
                        skip.append((sb, tb))
                if 'Some' not in [n for v, n in di[1].items() if v not in listed]:
                    skip.append((sb, t['else']))
            cands = {}
            for r in fn.calls:
                ve = vocab_lookup(r)
                if not ve or ve[0] not in REMOVING or ve[1] is None:
                    continue
                s = strip(sl0.operand(fn, r.args[ve[1]]))
                k = ''
                if s[0] == 'field':
                    k, s = s[2], strip(s[1])
                if not (s[0] == 'call' and len(s) == 4 and s[3] == (fn.path, p.bb)):
                    continue
                if not ((r.dest and r.dest[0] == 0) or verdict(result_fates(prog, fn, r)) == 'ok'):
                    continue
                cands.setdefault(k, []).append(r)
            for k, rs in cands.items():
                # ... or by putting the element back (a push whose component k is the popped one)
                back = {q.bb for q in self.pushes if self._same_component(sl0, q, p, k)}
                if p.target is not None and _all_paths_hit(fn, p.target, {r.bb for r in rs} | back, set(success_bbs) | {p.bb}, skip):
                    found[k] = rs[0]
            common = found if common is None else {k: r for k, r in common.items() if k in found}
        self._acc = common or {}
        return self._acc

    def _same_component(self, sl0, push, pop, k):
        v = self.comp(sl0, sl0.operand(self.fn, push.args[1]), k) if k else sl0.operand(self.fn, push.args[1])
        s = strip(v)
        if k:
            if s[0] != 'field' or s[2] != k:
                return False
            s = strip(s[1])
        return s[0] == 'call' and len(s) == 4 and s[3] == (self.fn.path, pop.bb)

    def _empty_at(self, sl0, site_bb):
        """a decision on every path to the site that says the list is empty (a read returned None / is_empty()), with
        no push between it and the site"""
        fn = self.fn
        sites = self.reader_sites()
        for c in conditions(fn, site_bb, sl0):
            hit = False
            if c.kind == 'variant' and c.outcome == frozenset(['None']) and c.subject is not None:
                s = strip(c.subject)
                hit = s[0] == 'call' and len(s) == 4 and s[3] in sites
            elif c.kind == 'bool' and c.outcome is True and c.value[0] == 'call' and c.value[1].rsplit('::', 1)[-1] == 'is_empty' and c.value[2]:
                a = strip(c.value[2][0])
                hit = a[0] == 'call' and len(a) == 4 and a[3] == (fn.path, self.ctor.bb)
            if hit:
                after = fn.reachable(c.target)
                if not any(p.bb in after and site_bb in fn.reachable(p.bb) for p in self.pushes):
                    return c
        return None

    def drained(self, prog, sl0, site_bb, success_bbs):
        """{push block: [(kind, path value, removing Call)]}: removals that have happened at the success site for the
        element pushed there"""
        fn = self.fn
        if not self.pops:
            return {}
        if self._empty_at(sl0, site_bb) is None:
            return {}
        acc = self.accounted(prog, sl0, success_bbs)
        out = {}
        for c, v in self.base:
            facts = []
            for k, r in sorted(acc.items()):
                if self.kinds.get(k) == 'path':
                    facts.append((vocab_lookup(r)[0], self.comp(sl0, v, k), r))
            if facts:
                out[c.bb] = facts
        return out


def _all_paths_hit(fn, start, vias, ends, skip_edges=()):
    """every path (normal edges) from `start` to a block in `ends` passes through one of the blocks `vias`"""
    if start in vias:
        return True
    skip = set(skip_edges)
    seen = set()
    work = [start]
    while work:
        b = work.pop()
        if b in seen or b in vias:
            continue
        seen.add(b)
        if b in ends and b != start:
            return False
        for t in fn.succs(b):
            if (b, t) not in skip:
                work.append(t)
    return True


def find_worklists(prog, fn, sl0):
    """validated work lists of fn (see module doc)"""
    out = []
    for i, l in enumerate(fn.locals):
        if i <= fn.argc or not (l.get('ty') or '').startswith(LIST_TYPES):
            continue
        defs = fn.whole_defs(i)
        if len(defs) != 1 or defs[0][0] != 'call' or fn.partial_defs(i):
            continue
        c = defs[0][3]
        if c is None or c.indirect or (c.name or '').rsplit('::', 1)[-1] not in CTOR or 'Vec' not in (c.name or ''):
            continue
        w = Worklist(fn, i, c)
        if w.shape_ok() and w.validate(prog, sl0):
            out.append(w)
    return out


def abstract_worklists(prog, sl0, fns, seeds=None):
    """({fn path: [Worklist]}, slicer): the slicer gives reads of validated work lists their representative element;
    it is sl0 itself when there is no work list (`seeds`: values of built lists that sl0 carries, see built_lists)"""
    wls = {}
    for f in fns:
        ws = find_worklists(prog, f, sl0)
        if ws:
            wls[f.path] = ws
    if not wls:
        return wls, sl0
    slh = seeded_slicer(prog, seeds or {})
    for ws in wls.values():
        for w in ws:
            w.seed(slh)
    return wls, slh


# ---- built lists: "plan, then execute" ---------------------------------------------------------------------------
# `let mut files = Vec::new(); files.push(a); files.extend(xs.iter().map(f)); for p in files { remove_file(p) }` visits what
# `for p in once(a).chain(xs.iter().map(f))` visits.  The slicer knows a Vec only by its constructor; a list that is
# *built, then only read* is given the equivalent iterator expression as its value, which lib/iters.py decomposes
# (literal rows, mapped tables, ...) for loops, adapters and the unrolling of effects alike.
# Conditions (otherwise the list keeps its opaque value and whatever is read from it stays unknown):
#   * every use of the list is a build step through `&mut` (push / insert / extend / extend_from_slice, neutral capacity
#     calls), a shared borrow, or a move (followed to the new owner); no element is ever taken out or changed;
#   * every build step has happened exactly once when any read happens: its block dominates every read and is not on
#     a cycle — or it is the body of a `for` loop over a table of literal rows that runs to exhaustion before any read
#     (one element per row, the loop variable replaced by the row).  A step outside loops that does not dominate every
#     read is kept as a *filtered* stage: its elements may be in the list (MAY facts) but are not relied on (MUST facts).
IT_ = 'std::iter::Iterator::'
BUILD = {'push': 'PUSH', 'push_back': 'PUSH', 'push_front': 'PUSH', 'insert': 'PUSH', 'extend': 'EXTEND',
         'extend_from_slice': 'EXTEND', 'reserve': 'NEUTRAL', 'reserve_exact': 'NEUTRAL', 'shrink_to_fit': 'NEUTRAL'}
READ_ONLY = {'len', 'is_empty', 'capacity'}


def _build_role(call):
    if call.indirect:
        return None
    for n in (call.res, call.name, call.decl):
        if not n or '::' not in n:
            continue
        owner, last = n.rsplit('::', 1)
        if last in BUILD and ('Vec' in owner or n == 'std::iter::Extend::extend'):
            if last == 'extend' and not any('Vec' in (x or '') for x in (call.res, call.name)):
                continue
            return BUILD[last]
        if last in READ_ONLY and 'Vec' in owner:
            return 'NEUTRAL'
    return None


class BuiltList:
    def __init__(self, fn, local):
        self.fn = fn
        self.local = local
        self.steps = []         # build Calls
        self.reads = set()      # blocks that read / consume the list

    def _trace_ref(self, r, seen):
        fn = self.fn
        if r in seen:
            return True
        seen.add(r)
        for bi, kind, idx, how, pl in fn.uses_of(r):
            if kind == 'drop':
                continue
            if kind == 'stmt':
                st = fn.blocks[bi]['s'][idx]
                dest, rv = st[1], st[2]
                if [p for p in pl[1:] if p != '*'] or len(dest) != 1 or rv['r'] not in ('ref', 'use', 'cfd'):
                    return False
                if not self._trace_ref(dest[0], seen):
                    return False
                continue
            if kind == 'arg' and idx == 0:
                c = fn.call_at(bi)
                role = _build_role(c)
                if role is None:
                    return False
                if role != 'NEUTRAL':
                    self.steps.append(c)
                continue
            return False
        return True

    def _trace(self, loc, seen):
        fn = self.fn
        if loc in seen:
            return True
        seen.add(loc)
        if loc != self.local and (len(fn.whole_defs(loc)) != 1 or fn.partial_defs(loc)):
            return False
        for bi, kind, idx, how, pl in fn.uses_of(loc):
            if kind == 'drop':
                continue
            if kind == 'stmt':
                st = fn.blocks[bi]['s'][idx]
                dest, rv = st[1], st[2]
                projected = bool(pl[1:])
                if rv['r'] == 'ref':
                    if rv.get('mut'):
                        if projected or len(dest) != 1 or not self._trace_ref(dest[0], set()):
                            return False
                    else:
                        self.reads.add(bi)
                    continue
                if rv['r'] in ('use', 'cfd') and not projected and len(dest) == 1:
                    # moved to a new owner: the same list
                    if not self._trace(dest[0], seen):
                        return False
                    continue
                if rv['r'] in ('use', 'cfd', 'len', 'discr'):
                    self.reads.add(bi)
                    continue
                return False
            if kind == 'arg':
                self.reads.add(bi)      # consumed by a call (into_iter, a function taking the list)
                continue
            return False
        return True

    def shape_ok(self):
        return self._trace(self.local, set()) and bool(self.steps)

    def value(self, prog, sl0, sl):
        """the equivalent iterator expression, or None when "built exactly once before every read" is not established"""
        from .lib.effects import find_loops
        from .lib.guards import edge_dominates
        from .lib import iters
        from .lib.value import subst as _vsubst
        fn = self.fn
        dom = fn.dominators()
        loops = None
        parts = []
        for c in self.steps:
            if c.target is None:
                return None
            role = _build_role(c)
            xv = sl.operand(fn, c.args[-1])
            piece = ('call', 'std::iter::once', (xv,), None) if role == 'PUSH' else xv
            if not fn.in_loop(c.bb):
                if not all(r != c.bb and fn.dominates(c.bb, r) for r in self.reads):
                    # a conditional build step (or one that comes after some read): the elements MAY be in the list —
                    # rendered as a filtered stage, which MUST facts skip and MAY facts include
                    piece = ('call', IT_ + 'filter', (piece, ('unknown', 'conditional build step')), None)
                parts.append(((len(dom.get(c.bb, ())), 0), [piece]))
                continue
            if loops is None:
                loops = find_loops(fn, sl)
            Ls = [L for L in loops if c.bb in L.body and c.bb != L.header]
            if len(Ls) != 1:
                return None
            L = Ls[0]
            if getattr(L, 'exhaust', None) is None or L.collection is None or any(r in L.body for r in self.reads):
                return None
            preds = fn.preds()
            if any(fn.in_loop(q) for q in preds[L.header] if q not in L.body):
                return None
            if not all(fn.dominates(c.bb, l) or c.bb == l for l in L.latches):
                return None
            # the step runs once per iteration: it is not on a cycle that avoids the loop head
            seen, work = set(), [t for t in fn.succs(c.bb)]
            while work:
                b = work.pop()
                if b in seen or b == L.header:
                    continue
                seen.add(b)
                work.extend(fn.succs(b))
            if c.bb in seen:
                return None
            if not all(edge_dominates(fn, L.exhaust[0], L.exhaust[1], r) for r in self.reads):
                return None
            al = iters.alts(sl, L.collection)
            if not al or any(fa is not None or flt for _, fa, flt in al):
                return None
            key = iters.loop_key(L.collection)
            rows = []
            for e, _fa, _flt in al:
                rows.append(_vsubst(piece, {'__repl__': [(key, e)]}, sl))
            parts.append(((len(dom.get(L.header, ())), 1), rows))
        parts.sort(key=lambda x: x[0])
        base = sl0.local(fn, self.local)
        ctor = (base[1] or '').rsplit('::', 1)[-1] if base[0] == 'call' else None
        empty = ctor in CTOR and 'Vec' in base[1] and len(base[2]) == (1 if ctor == 'with_capacity' else 0)
        seq = [] if empty else [base]
        for _, ps in parts:
            seq.extend(ps)
        if not seq:
            return None
        out = seq[0]
        for x in seq[1:]:
            out = ('call', IT_ + 'chain', (out, x), None)
        return out


def built_lists(prog, sl0):
    """{(fn path, local): iterator expression} for the built-then-read lists of the workspace (see above)"""
    crates = set(prog.crate_names())
    found = []
    for f in prog.fns.values():
        if f.crate not in crates and f.path.split('::')[0] not in crates:
            continue
        for i, l in enumerate(f.locals):
            if i <= f.argc or not (l.get('ty') or '').startswith(LIST_TYPES):
                continue
            defs = f.whole_defs(i)
            # the root of a list is where it is created (a call); a local it is later moved to is the same list and is
            # followed from the root (judged on its own it would lose what was built before the move)
            if len(defs) != 1 or defs[0][0] != 'call' or f.partial_defs(i):
                continue
            b = BuiltList(f, i)
            if b.shape_ok():
                found.append(b)
    if not found:
        return {}
    sl = Slicer(prog)
    seeds = {}
    for _ in range(2):          # a second pass lets a list built from another built list see that one's value
        for b in found:
            v = b.value(prog, sl0, sl)
            if v is not None:
                seeds[(b.fn.path, b.local)] = v
        sl = seeded_slicer(prog, seeds)
    return seeds


def _runs_again(fn, bb, fence):
    """can block bb be executed a second time without passing through block `fence` in between"""
    seen, todo = set(), [x for x in fn.succs(bb)]
    while todo:
        x = todo.pop()
        if x == fence or x in seen:
            continue
        if x == bb:
            return True
        seen.add(x)
        todo.extend(fn.succs(x))
    return False


def pathbuf_joins(prog, sl0):
    """{(fn path, local): join chain}: `let mut p = base.to_path_buf(); p.push(a); p.push(b)` is `base.join(a).join(b)`
    (std defines Path::join as exactly that).  Only for a local of type PathBuf, defined once from a non-empty base, whose
    only mutations are `PathBuf::push` calls that each run at most once per definition, in dominance order (no pop /
    set_file_name / set_extension / clear, no push that accumulates round a loop): OsString::push and String::push_str
    add no separator and keep their concat reading."""
    crates = set(prog.crate_names())
    out = {}
    for f in prog.fns.values():
        if f.crate not in crates and f.path.split('::')[0] not in crates:
            continue
        for i, l in enumerate(f.locals):
            if i <= f.argc or (l.get('ty') or '') != 'std::path::PathBuf':
                continue
            app = sl0._appends(f, i)
            if not app or any(c.name != 'std::path::PathBuf::push' for c in app):
                continue
            defs = f.whole_defs(i)
            if len(defs) != 1 or f.partial_defs(i):
                continue
            dbb = defs[0][1]
            nmut = sum(1 for b in f.blocks for st in b['s']
                       if st[0] == '=' and isinstance(st[2], dict) and st[2].get('r') == 'ref' and st[2].get('mut') and st[2]['p'][0] == i)
            if nmut != len(app):
                continue
            if not all(f.dominates(dbb, c.bb) and not _runs_again(f, c.bb, dbb) for c in app):
                continue
            if not all(f.dominates(a.bb, b.bb) for a, b in zip(app, app[1:])):
                continue
            # every read of the path sees all the pushes (no conditional push, no read between two pushes)
            reads = set()
            for u in f.uses_of(i):
                if u[1] == 'drop':
                    continue
                if u[1] == 'stmt':
                    rv = f.blocks[u[0]]['s'][u[2]][2]
                    if isinstance(rv, dict) and rv.get('r') == 'ref' and rv.get('mut'):
                        continue
                reads.add(u[0])
            if any(c.bb in reads for c in app) or not all(always_through(f, dbb, c.bb, reads - {dbb}) for c in app):
                continue
            lv = sl0.local(f, i)
            if lv[0] != 'concat' or lv[3] or len(lv[2]) != len(app):
                continue
            v = lv[1]
            for x in lv[2]:
                v = ('call', 'std::path::Path::join', (v, x), None)
            out[(f.path, i)] = v
    return out


def seeded_slicer(prog, seeds, base=None):
    if not seeds:
        return base if base is not None else Slicer(prog)
    sl = Slicer(prog)
    for k, v in seeds.items():
        sl._cache[k] = v
    return sl


# ---- MUST effects through work lists ------------------------------------------------------------------------------
class EffectsC(Effects):
    """Effects whose MUST facts are context-sensitive in the same way its MAY facts already are (Effects.feasible): a
    success site that sits under `param is Variant V` cannot be the way the function succeeded when the call chain
    passed a literal of another variant, so it does not take part in "effects common to every success site".
    `executor(Plan::Recreate(..))` thereby has the MUST effects of the Recreate arm of `executor`, like the same arm
    written in place."""

    # a loop over what a private helper returns (`for p in planned_files(dir, name)`) is a loop over the helper's
    # (built / collected / literal) list: the collection is opened with inline_deep when that makes it decompose into
    # rows; the loop variable keeps its name (the key of the original collection)
    def _opened(self, coll, must=False):
        from .lib import iters
        if coll is None or not iters.trivial(iters.alts(self.slicer, coll), coll):
            return None
        if not any(x[0] == 'call' and x[1] in self.prog.fns for x in walk(coll)):
            return None
        iv = self.slicer.inline_deep(coll)
        if iv == coll:
            return None
        if must and any(x[0] == 'phi' for x in walk(iv)):
            return None         # a helper with alternative results: the rows of one alternative are not MUST facts
        al = iters.alts(self.slicer, iv)
        return None if iters.trivial(al, iv) else al

    def _unrollable(self, fn, c):
        r = Effects._unrollable(self, fn, c)
        if r is not None:
            return r
        best = None
        for L in self.loops(fn):
            if c.bb in L.body and c.bb != L.header and L.collection is not None:
                if best is None or len(L.body) < len(best.body):
                    best = L
        if best is not None and self._opened(best.collection) is not None:
            return best.collection
        return None

    def _expand_call(self, fn, c, forall, mode, mapping, chain, stack, out):
        if forall is not None:
            al = self._opened(forall, mode == 'must')
            if al is not None:
                from .lib import iters
                key = iters.loop_key(forall)
                for elem, fa, filtered in al:
                    if filtered and mode == 'must':
                        continue
                    m = dict(mapping)
                    m['__repl__'] = list(mapping.get('__repl__', ())) + [(key, self.subst(elem, mapping))]
                    self._expand_call1(fn, c, fa, mode, m, chain, stack, out)
                return
        return Effects._expand_call(self, fn, c, forall, mode, mapping, chain, stack, out)

    def live_sites(self, fn, mapping):
        ss = self.sites(fn)
        if not mapping:
            return ss
        return [st for st in ss if self.feasible(fn, st.bb, mapping)]

    def expand(self, fn, mode='must', site_bbs=None, mapping=None, chain=(), _stack=None):
        if not (mode == 'must' and site_bbs is None and mapping):
            return Effects.expand(self, fn, mode, site_bbs, mapping, chain, _stack)
        _stack = _stack or ()
        if fn.path in _stack or len(_stack) > self.max_depth:
            return Effects.expand(self, fn, mode, site_bbs, mapping, chain, _stack)
        live = self.live_sites(fn, mapping)
        if len(live) == len(self.sites(fn)):
            return Effects.expand(self, fn, mode, site_bbs, mapping, chain, _stack)
        stack = _stack + (fn.path,)
        per_site = []
        for st in live:
            effs = []
            for c, forall in self.must_calls(fn, [st.bb]):
                self._expand_call(fn, c, forall, 'must', mapping, chain, stack, effs)
            per_site.append(effs)
        return _common_effects(per_site)


def _common_effects(per_site):
    if not per_site:
        return []
    common = None
    for effs in per_site:
        ks = {eff_key(e) for e in effs}
        common = ks if common is None else (common & ks)
    out, seen = [], set()
    for e in per_site[0]:
        k = eff_key(e)
        if k in common and (k not in seen or e.kind not in GROUP):
            out.append(e)
            seen.add(k)
    return out


class EffectsX(EffectsC):
    def __init__(self, prog, slicer, worklists, vocab=None):
        Effects.__init__(self, prog, slicer, vocab)
        self.wls = worklists

    def expand(self, fn, mode='must', site_bbs=None, mapping=None, chain=(), _stack=None):
        if not (mode == 'must' and site_bbs is None and self.wls.get(fn.path)):
            return EffectsC.expand(self, fn, mode, site_bbs, mapping, chain, _stack)
        mapping = mapping or {}
        _stack = _stack or ()
        if fn.path in _stack or len(_stack) > self.max_depth:
            return Effects.expand(self, fn, mode, site_bbs, mapping, chain, _stack)
        stack = _stack + (fn.path,)
        per_site = []
        for st in self.live_sites(fn, mapping):
            effs = []
            for c, forall in self.must_calls(fn, [st.bb]):
                self._expand_call(fn, c, forall, 'must', mapping, chain, stack, effs)
            have = {eff_key(e) for e in effs}
            for e in self.split_must(fn, st, mapping, chain, stack):
                if eff_key(e) not in have:
                    have.add(eff_key(e))
                    effs.append(e)
            per_site.append(effs)
        if not per_site:
            return []
        common = None
        for effs in per_site:
            ks = {eff_key(e) for e in effs}
            common = ks if common is None else (common & ks)
        out, seen = [], set()
        for e in per_site[0]:
            k = eff_key(e)
            if k in common and (k not in seen or e.kind not in GROUP):
                out.append(e)
                seen.add(k)
        return out

    def _mk(self, facts, mapping, chain):
        out = []
        for kind, path, r in facts:
            e = Eff(kind, self.subst(path, mapping), r, chain, True)
            e.mapping = mapping
            out.append(e)
        return out

    def _payload(self, v):
        if _ctor(v) in ('Some', 'Ok'):
            return _ctor_arg(v)
        if _ctor(v) is not None:
            return None
        r = self.slicer.mk_unwrap(v, 1)
        return None if r[0] == 'unwrap' else r

    def _callee_outcome_must(self, fn, subj, names, mapping, chain, stack):
        """MUST effects of the private helper whose (unwrapped) result is matched, restricted to the outcomes that
        produce one of the variants `names`; None when the matched value is not such a result; 'INFEASIBLE' when no
        outcome produces the variant"""
        v, n = subj, 0
        while v[0] == 'unwrap':
            v, n = v[1], n + 1
        if v[0] == 'call' and v[1] == 'std::ops::Try::branch' and v[2]:
            v = v[2][0]
        if not (v[0] == 'call' and len(v) == 4 and v[3] and v[3][0] == fn.path):
            return None
        g = self.prog.fns.get(v[1])
        c = fn.call_at(v[3][1])
        if g is None or c is None or g.kind == 'Closure' or g.path in stack:
            return None
        m = self.call_mapping(fn, c, g, mapping)
        sel = []
        for o in outcomes(self, g, m, chain + (Link(c, mapping),), stack):
            pv = o.value
            for _ in range(n):
                pv = self._payload(pv) if pv is not None else None
            var = _ctor(pv) if pv is not None else None
            if var is None and pv is not None and pv[0] == 'agg':
                var = pv[2]
            if var is None or var in names:
                sel.append(o)
        if not sel:
            return 'INFEASIBLE'
        common = None
        for o in sel:
            ks = {eff_key(e) for e in o.must}
            common = ks if common is None else (common & ks)
        return [e for e in sel[0].must if eff_key(e) in common]

    def split_must(self, fn, st, mapping, chain, stack):
        S = st.bb
        sl0 = self.slicer
        success = [s.bb for s in self.sites(fn)]
        drained = {}
        for w in self.wls.get(fn.path, ()):
            for bb, facts in w.drained(self.prog, sl0, S, success).items():
                drained.setdefault(bb, []).extend(facts)
        if not drained:
            return []
        out = []
        for bb, facts in sorted(drained.items()):
            if fn.dominates(bb, S):
                out.extend(self._mk(facts, mapping, chain))
        dom = fn.dominators().get(S, {S})
        for sw in sorted(dom):
            t = fn.blocks[sw]['t']
            if t['t'] != 'switch' or sw == S or fn.in_loop(sw):
                continue
            di = _discr_info(fn, sw, t['o'])
            if not di:
                continue
            place, vmap, _enum = di
            subj = sl0.place(fn, place)
            listed = [v for v, _ in t['targets']]
            edges = {}
            for v, tb in t['targets']:
                edges.setdefault(tb, set()).add(vmap.get(v, str(v)))
            rest = {n for v, n in vmap.items() if v not in listed}
            if rest:
                edges.setdefault(t['else'], set()).update(rest)
            live = sorted((tb, names) for tb, names in edges.items() if S in fn.reachable(tb))
            if len(live) < 2:
                continue
            per_edge = []
            for tb, names in live:
                effs = self._callee_outcome_must(fn, subj, names, mapping, chain, stack)
                if effs == 'INFEASIBLE':
                    continue
                effs = list(effs or [])
                after = fn.reachable(tb)
                for c in fn.calls:
                    if c.bb in after and c.bb != S and not fn.dominates(c.bb, S) and not fn.in_loop(c.bb) \
                            and always_through(fn, tb, c.bb, [S]):
                        self._expand_call(fn, c, None, 'must', mapping, chain, stack, effs)
                for bb, facts in sorted(drained.items()):
                    if bb in after and not fn.dominates(bb, S) and always_through(fn, tb, bb, [S]):
                        effs.extend(self._mk(facts, mapping, chain))
                per_edge.append(effs)
            if not per_edge:
                continue
            common = None
            for effs in per_edge:
                ks = {eff_key(e) for e in effs}
                common = ks if common is None else (common & ks)
            seen = set()
            for e in per_edge[0]:
                k = eff_key(e)
                if k in common and k not in seen:
                    seen.add(k)
                    out.append(e)
        return out


# ---- followers: functions that apply a symlink-following operation to a path they received -----------------------
def direct_followers(prog, sl, fns):
    """{fn path: parameter index}: the function itself applies CHMOD / LIST to that parameter"""
    F = {}
    for f in fns:
        for c in f.calls:
            ve = vocab_lookup(c)
            if ve and ve[0] in FOLLOWING and ve[1] is not None and ve[1] < len(c.args):
                pv = strip(sl.operand(f, c.args[ve[1]]))
                if pv[0] == 'param' and pv[1] == f.path:
                    F.setdefault(pv[1], pv[2])
    return F


def followers(prog, sl, fns):
    """{fn path: parameter index}: the function applies CHMOD / LIST to that parameter, itself or through the
    functions it hands the parameter to"""
    F = {}
    for f in fns:
        for c in f.calls:
            ve = vocab_lookup(c)
            if ve and ve[0] in FOLLOWING and ve[1] is not None and ve[1] < len(c.args):
                pv = strip(sl.operand(f, c.args[ve[1]]))
                if pv[0] == 'param' and pv[1] in prog.fns:
                    F.setdefault(pv[1], pv[2])
    changed = True
    while changed:
        changed = False
        for f in fns:
            for c in f.calls:
                for g in prog.callee_fns(c):
                    j = F.get(g.path)
                    if j is None or j >= len(c.args):
                        continue
                    av = strip(sl.operand(f, c.args[j]))
                    if av[0] == 'param' and av[1] in prog.fns and av[1] not in F:
                        F[av[1]] = av[2]
                        changed = True
    return F


# ---- roles: the delete routine by what it does (effects), not by where its `remove_file` is spelled ------------------
def _names_toml(sl, v):
    """does path value v (helpers inlined) name a `<..>.toml` file"""
    for w in (v, sl.inline_deep(v)):
        for x in walk(w):
            if x[0] == 'fmt' and any(isinstance(y, str) and y.endswith('.toml') for y in x[1]):
                return True
            if x[0] == 'const' and isinstance(x[1], str) and x[1].endswith('.toml'):
                return True
    return False


def delete_roles(prog, sl, roles):
    """(delete routine, remover) paths.  layer_roles finds the delete routine by a `remove_file(<fmt ..".toml">)` call
    spelled in the routine's own body; with the removal inside a combinator closure, or the path built by a private
    accessor, that picks another function (the shared reader also drops a stale TOML).  Stated on effects instead: the
    libcnb function returning Result<(), _>, reachable from both layer handlers, whose (interprocedural, closures
    included) effects remove a `<name>.toml` file; the callee-most one when several nest.  Falls back to layer_roles."""
    dflt = (roles.get('DELETE'), roles.get('REMOVER'))
    sh, th = prog.fns.get(roles.get('STRUCT_HL') or ''), prog.fns.get(roles.get('TRAIT_HL') or '')
    if sh is None or th is None:
        return dflt
    rs, rt = prog.reach([sh]), prog.reach([th])
    E = EffectsC(prog, sl)
    cands = []
    for p in sorted(set(rs) & set(rt)):
        f = prog.fns[p]
        if f.crate != 'libcnb' or f.kind == 'Closure' or not f.ret.startswith('std::result::Result<(), '):
            continue
        if any(e.kind == 'REMOVE_FILE' and e.path is not None and _names_toml(sl, e.path) for e in E.expand(f, 'may')):
            cands.append(p)
    if len(cands) > 1:
        inner = [p for p in cands if not any(q != p and q in prog.reach([prog.fns[p]]) for q in cands)]
        cands = inner or cands
    if len(cands) != 1:
        return dflt
    dl = prog.fns[cands[0]]
    rem = [f.path for f in prog.reach([dl]).values()
           if f.crate == 'libcnb' and f.kind != 'Closure' and any((vocab_lookup(c) or ('',))[0] == 'CHMOD' for c in f.calls)]
    return dl.path, (rem[0] if len(rem) == 1 else dflt[1])


# ====================================================================================================================
# Deepening round: permission fixing (R4), SBOM path shape (R2/sbom-path), recreate decisions (R5)
# ====================================================================================================================
from .lib.value import canon as _canon, vstr as _vstr, concat_parts        # noqa: E402
from .lib.discard import ok_on_success as _ok_on_success     # noqa: E402

OWNER_RWX = 0o700
FROM_MODE = 'std::os::unix::fs::PermissionsExt::from_mode'


def _same_path(a, b):
    return _canon(strip(a)) == _canon(strip(b))


def _closure_of(fn, root):
    return fn.path == root.path or fn.path.startswith(root.path + '::{closure')


def _chmod_before(prog, sl, fn, bb, pv, E=None):
    """a CHMOD of path value pv whose call block dominates block bb of fn (the Result of a call is only available in
    its normal successor, so a dominating call block has returned): the Call or None.  A call to a workspace function
    that CHMODs pv on every way to its success (`make_accessible(dir)?`) counts like the CHMOD itself."""
    for c in fn.calls:
        if c.indirect or c.bb == bb or not fn.dominates(c.bb, bb):
            continue
        ve = vocab_lookup(c)
        if ve:
            if ve[0] == 'CHMOD' and ve[1] is not None and ve[1] < len(c.args) and _same_path(sl.operand(fn, c.args[ve[1]]), pv):
                return c
            continue
        if E is not None and c.name != fn.path and prog.callee_fns(c):
            effs = []
            E._expand_call(fn, c, None, 'must', {}, (), (fn.path,), effs)
            if any(e.kind == 'CHMOD' and e.path is not None and _same_path(e.path, pv) for e in effs):
                return c
    return None


def _implied_chmod(e, pv):
    """the LIST runs inside a closure handed to a Result/Option combinator whose receiver is the (successful) CHMOD of
    the same path: `set_permissions(p, m).and_then(|()| read_dir(p))`"""
    for imp in e.implied or ():
        for x in walk(imp):
            if x[0] == 'call' and x[1] == 'std::fs::set_permissions' and x[2] and _same_path(x[2][0], pv):
                return True
    return False


def chmod_before_list(prog, sl, E, lib, rep):
    """R4: every directory is made accessible (CHMOD) before it is listed: a read-only / non-executable / unreadable
    directory can otherwise not be emptied.  Decided per LIST effect in the function (or closure of the function) that
    performs it: the CHMOD of the same path dominates it, or is the receiver of the combinator that runs it, or — for
    a path the function received — dominates every call site of the function."""
    callers = prog.callers()
    libset = {f.path for f in lib}
    n = 0
    for f in lib:
        if f.kind == 'Closure':
            continue
        for e in E.expand(f, 'may'):
            if e.kind != 'LIST' or e.call is None or not _closure_of(e.call.fn, f):
                continue
            n += 1
            g = e.call.fn
            subj = 'chmod-before-list/%s' % f.path
            local_pv = sl.operand(g, e.call.args[0])
            c2 = _chmod_before(prog, sl, g, e.call.bb, local_pv, E)
            if c2 is not None:
                rep.holds('R4', subj, e.where(), 'the directory is made accessible (%s) before it is listed' % c2.where())
                continue
            if _implied_chmod(e, e.path) or _implied_chmod(e, local_pv):
                rep.holds('R4', subj, e.where(), 'the listing runs only after the CHMOD of the same path succeeded (combinator receiver)')
                continue
            pvs = strip(e.path)
            if g.path != f.path:
                # a closure of f: a CHMOD in f that dominates the place where the closure is handed over
                par = f
                ok = None
                for cs in par.calls:
                    if any(x[0] == 'closure' and x[1] == g.path for a in cs.args for x in walk(sl.operand(par, a))):
                        ok = _chmod_before(prog, sl, par, cs.bb, e.path, E)
                        if ok is None:
                            break
                if ok is not None:
                    rep.holds('R4', subj, e.where(), 'the directory is made accessible (%s) before the closure that lists it runs' % ok.where())
                    continue
            if pvs[0] == 'param' and pvs[1] == f.path:
                sites = [cs for cs in callers.get(f.path, []) if not cs.indirect and cs.name == f.path and cs.fn.path in libset]
                if not sites:
                    rep.unproven('R4', subj, e.where(), 'no call site of %s found to discharge "made accessible before listed"' % f.path)
                    continue
                bad = [cs for cs in sites if _chmod_before(prog, sl, cs.fn, cs.bb, sl.operand(cs.fn, cs.args[pvs[2]]), E) is None]
                rep.check(not bad, 'R4', subj, e.where(), 'every call site makes the directory accessible before handing it over',
                          '%s lists the directory it received without making it accessible first, and so does its caller %s: an unreadable '
                          'or read-only directory inside the layer cannot be emptied' % (f.path, bad[0].fn.path if bad else ''))
                continue
            rep.violated('R4', subj, e.where(), 'read_dir(%s) is not preceded by a CHMOD of the same directory: a directory without '
                         'r/w/x for its owner (nested read-only, non-executable or unreadable directory) cannot be listed and emptied'
                         % _vstr(e.path)[:100])
    return n


def chmod_modes(prog, sl, lib, rep):
    """R4: the mode a directory is given before it is emptied lets its owner list (r), unlink in (w) and traverse (x) it"""
    for f in lib:
        for c in f.calls:
            ve = vocab_lookup(c)
            if not ve or ve[0] != 'CHMOD' or len(c.args) < 2:
                continue
            mv = sl.inline_deep(sl.operand(f, c.args[1]))
            mv = sl.mk_unwrap(mv, 1) if mv[0] == 'unwrap' else mv
            modes = [x[2][0][1] for x in walk(mv) if x[0] == 'call' and x[1].endswith('PermissionsExt::from_mode') and x[2]
                     and x[2][0][0] == 'const' and isinstance(x[2][0][1], int)]
            subj = 'chmod-mode/%s' % f.path
            if not modes:
                # `perms.set_mode(perms.mode() | 0o700)`: bits are only added
                for k in f.calls:
                    if not k.indirect and (k.decl or k.name or '').endswith('PermissionsExt::set_mode') and len(k.args) == 2:
                        av = sl.operand(f, k.args[1])
                        if av[0] == 'bin' and av[1] in ('BitOr', '|'):
                            modes.extend(x[1] for x in av[2:4] if x[0] == 'const' and isinstance(x[1], int))
            if not modes:
                rep.unproven('R4', subj, c.where(), 'the mode given to the directory is not a constant unix mode: ' + _vstr(mv)[:120])
                continue
            bad = [m for m in modes if (m & OWNER_RWX) != OWNER_RWX]
            rep.check(not bad, 'R4', subj, c.where(), 'mode %s gives the owner rwx' % ', '.join(oct(m) for m in modes),
                      'mode %s does not give the owner r, w and x: the directory cannot be listed and emptied' % ', '.join(oct(m) for m in bad))


REPLACING = ('::with_extension', '::with_file_name', '::set_extension', '::set_file_name', '::with_added_extension', '::add_extension')


def path_pushes_as_join(prog, sl, f, v):
    """`let mut p = base.to_path_buf(); p.push(a); p` is `base.join(a)` (std defines join that way).  The slicer renders
    every append as ('concat', base, pushed, fresh) whatever the appended-to type is, and `OsString::push` / `String::push_str`
    do NOT insert a separator — so the concat is only read as a join when the local it was built in (in f or a private
    function f reaches) is a PathBuf appended to by `PathBuf::push` alone.  Anything else is returned unchanged."""
    if v[0] != 'concat':
        return v
    key = _canon(v)
    hits = []
    fns = [f] + [g for p, g in sorted(prog.reach([f]).items()) if p != f.path and p in prog.fns]
    for g in fns:
        for i, l in enumerate(g.locals):
            app = sl._appends(g, i)
            if not app:
                continue
            lv = strip(sl.inline_deep(sl.local(g, i)))
            if lv[0] == 'concat' and _canon(lv) == key:
                hits.append((l.get('ty') or '', [c.name for c in app]))
    if not hits or not all(ty == 'std::path::PathBuf' and all(n == 'std::path::PathBuf::push' for n in names) for ty, names in hits):
        return v
    parts = concat_parts(v)
    if len(parts) < 2:
        return v
    out = parts[0]
    for p in parts[1:]:
        out = ('call', 'std::path::Path::join', (out, p), None)
    return out


def sbom_path_shape(prog, sl, fnpath, rep):
    """R2: the SBOM path constructor, which the path classes treat as "<layers>/<name>.sbom.<format suffix>", really is
    that: join(base directory, <base name> ++ ".sbom." ++ suffix(format)) with one distinct, separator-free suffix per
    format.  (A constructor that *replaces* an extension addresses another layer's file for dotted layer names; two formats
    sharing a suffix leave one file behind.)"""
    f = prog.fns.get(fnpath) if fnpath else None
    subj = 'sbom-path/shape'
    if f is None or f.argc != 3:
        rep.unproven('R2', subj, '-', 'SBOM path constructor not found')
        return
    where = '%s:%d' % (f.file, f.line)
    v = path_pushes_as_join(prog, sl, f, strip(sl.inline_deep(sl.local(f, 0))))
    par = lambda x, i: strip(x)[0] == 'param' and strip(x)[1] == f.path and strip(x)[2] == i
    for x in walk(v):
        if x[0] == 'call' and x[1].endswith(REPLACING):
            rep.violated('R2', subj, where, '%s replaces a part of the file name instead of appending to it: for a layer name that '
                         'contains a dot the SBOM file of a different layer is addressed (%s)' % (x[1].rsplit('::', 1)[-1], _vstr(v)[:140]))
            return
    if not (v[0] == 'call' and v[1] in ('std::path::Path::join', 'std::path::PathBuf::join') and len(v[2]) == 2 and par(v[2][0], 1)):
        rep.unproven('R2', subj, where, 'SBOM path is not join(<base directory>, <file name>): ' + _vstr(v)[:160])
        return
    name = strip(v[2][1])
    if name[0] == 'concat':
        # String::from(name) + push_str(..): the same pieces as a format string
        from .lib.value import concat_parts
        pieces = []
        for x in concat_parts(name):
            x = strip(x)
            while x[0] == 'call' and len(x[2]) == 1 and x[1].rsplit('::', 1)[-1] in ('from', 'to_string', 'to_owned', 'into', 'as_str', 'as_ref', 'deref', 'borrow', 'clone'):
                x = strip(x[2][0])
            pieces.append(x[1] if x[0] == 'const' and isinstance(x[1], str) else x)
        merged = []
        for x in pieces:
            if isinstance(x, str) and merged and isinstance(merged[-1], str):
                merged[-1] += x
            else:
                merged.append(x)
        name = ('fmt', tuple(merged))
    if name[0] != 'fmt' or not name[1] or isinstance(name[1][0], str) or not par(name[1][0], 2):
        rep.unproven('R2', subj, where, 'SBOM file name does not start with the (whole) base name: ' + _vstr(name)[:160])
        return
    rest = list(name[1][1:])
    lits = [p for p in rest if isinstance(p, str)]
    sels = [strip(p) for p in rest if not isinstance(p, str)]
    if not rest or not isinstance(rest[0], str) or not rest[0].startswith('.sbom.'):
        rep.violated('R2', subj, where, 'the SBOM file name is not "<name>.sbom.<suffix>": ' + _vstr(name)[:160])
        return
    if len(sels) != 1 or sels[0][0] != 'select' or not par(sels[0][1], 0):
        rep.unproven('R2', subj, where, 'the format suffix is not a table over the format parameter: ' + _vstr(name)[:160])
        return
    adt = prog.adt(sels[0][2]) if sels[0][2] else None
    allv = sorted(x['name'] for x in adt['variants']) if adt else []
    table = {}
    for names, val in sels[0][3]:
        for nm in names:
            table[nm] = val[1] if val[0] == 'const' and isinstance(val[1], str) else None
    bad_sep = [s for s in lits + [s for s in table.values() if s] if '/' in s or '\\' in s]
    ok = bool(allv) and sorted(table) == allv and all(table.values()) and len(set(table.values())) == len(table) and not bad_sep
    rep.check(ok, 'R2', subj, where, 'SBOM path = <base directory>/<name>.sbom.<suffix>, one distinct suffix per format (%s)'
              % ', '.join('%s=%s' % kv for kv in sorted(table.items())),
              'SBOM suffix table is not one distinct, separator-free literal per format: %s (formats: %s)' % (sorted(table.items()), allv))


# ---- R5: recreate decisions ---------------------------------------------------------------------------------------
ENTRIES = (('cached_layer', r'^libcnb::build::BuildContext::<B>::cached_layer$'),
           ('uncached_layer', r'^libcnb::build::BuildContext::<B>::uncached_layer$'),
           ('handle_layer', r'^libcnb::build::BuildContext::<B>::handle_layer$'))
# public decision enums of the two layer APIs: the variant that asks for the existing layer to be thrown away
RECREATE = {'libcnb::layer::struct_api::RestoredLayerAction': 'DeleteLayer',
            'libcnb::layer::struct_api::InvalidMetadataAction': 'DeleteLayer',
            'libcnb::layer::trait_api::ExistingLayerStrategy': 'Recreate',
            'libcnb::layer::trait_api::MetadataMigration': 'RecreateLayer'}


def _decision_switches(fn, sl):
    """[(switch block, subject key, enum, {variant name: target block})] for the switches of fn on a RECREATE enum"""
    out = []
    for sb, blk in enumerate(fn.blocks):
        t = blk['t']
        if t['t'] != 'switch':
            continue
        di = _discr_info(fn, sb, t['o'])
        if not di and t.get('oty') == 'bool':
            # `matches!(x, V)` / `x == V` lowered to a match producing a bool that is then tested: the same decision
            val, neg = sl.operand(fn, t['o']), False
            while val[0] == 'un' and val[1] == 'Not':
                val, neg = val[2], not neg
            if val[0] == 'select' and val[2] in RECREATE and all(rv[0] == 'const' and isinstance(rv[1], bool) for _, rv in val[3]):
                f_t = [b for v, b in t['targets'] if v == 0]
                t_t = [b for v, b in t['targets'] if v == 1]
                false_tb = f_t[0] if f_t else t['else']
                true_tb = t_t[0] if t_t else t['else']
                edges = {}
                for names, rv in val[3]:
                    for nm in names:
                        edges[nm] = true_tb if (rv[1] != neg) else false_tb
                out.append((sb, _canon(val[1]), val[2], edges))
            continue
        if di and di[2] not in RECREATE:
            # the decision re-encoded as data: `let plan = match action { DeleteLayer => Plan::Recreate, .. }; match plan {..}`
            # — the matched value is a table over the decision, so each edge of this switch belongs to decision variants
            sv = strip(_dnorm(sl, sl.place(fn, di[0])))
            if sv[0] == 'select' and sv[2] in RECREATE and all(rv[0] == 'agg' and rv[1] == di[2] and rv[2] for _, rv in sv[3]):
                listed = [v for v, _ in t['targets']]
                tgt = {}
                for v, tb in t['targets']:
                    tgt[di[1].get(v, str(v))] = tb
                for v, nm in di[1].items():
                    if v not in listed:
                        tgt[nm] = t['else']
                edges = {}
                for names, rv in sv[3]:
                    for nm in names:
                        if rv[2] in tgt:
                            edges[nm] = tgt[rv[2]]
                if edges:
                    out.append((sb, _canon(sv[1]), sv[2], edges))
            continue
        if not di or di[2] not in RECREATE:
            continue
        place, vmap, enum = di
        listed = [v for v, _ in t['targets']]
        edges = {}
        for v, tb in t['targets']:
            edges[vmap.get(v, str(v))] = tb
        for v, nm in vmap.items():
            if v not in listed:
                edges[nm] = t['else']
        out.append((sb, _canon(sl.place(fn, place)), enum, edges))
    return out


def _sel_sig(node):
    """{decision variant: (adt, variant) the table maps it to}"""
    out = {}
    for names, rv in node[3]:
        for nm in names:
            out[nm] = (rv[1], rv[2]) if rv[0] == 'agg' else None
    return out


def _decision_selects(v, enum=None):
    return [x for x in walk(v) if x[0] == 'select' and x[2] in RECREATE and (enum is None or x[2] == enum)]


def _specialise(sl, v, key, enum, var):
    """v with every table over the decision value `key` (of `enum`) replaced by its row for variant `var`"""
    if not isinstance(v, tuple) or not v or v[0] in ('const', 'param', 'fnitem', 'constitem', 'unknown', 'closure_env', 'upvar'):
        return v
    if v[0] == 'select' and v[2] == enum and _canon(v[1]) == key:
        for names, rv in v[3]:
            if var in names:
                return _specialise(sl, rv, key, enum, var)
        return v
    changed = False
    out = []
    for x in v:
        if isinstance(x, tuple):
            y = _specialise(sl, x, key, enum, var)
            changed = changed or (y is not x)
            out.append(y)
        else:
            out.append(x)
    if not changed:
        return v
    nv = tuple(out)
    if nv[0] == 'field' and nv[1][0] in ('agg', 'tuple', 'closure', 'phi', 'updated'):
        return sl._field(nv[1], nv[2])
    if nv[0] == 'variant' and nv[1][0] in ('agg', 'phi'):
        return sl._variant(nv[1], nv[2])
    if nv[0] == 'unwrap' and nv[1][0] == 'agg' and nv[1][2] in ('Ok', 'Some') and len(nv[1][3]) == 1:
        return nv[1][3][0][1]
    return nv


def _dnorm(sl, v):
    """v with private helpers opened when that is what makes a table over a decision visible (`plan_for(action)`)"""
    if _decision_selects(v):
        return v
    if any(x[0] == 'call' and x[1] in sl.prog.fns for x in walk(v)):
        iv = sl.inline_deep(v)
        if iv != v and _decision_selects(iv):
            return iv
    return v


def _reencoder(prog, sl, E, f):
    """(enum, rows) when f (a closure or a private function) only *re-encodes* a decision as data: it has no effect of
    its own and what it returns is a table over the decision whose rows are literal variants of another type —
    `.map(|(action, cause)| match action { DeleteLayer => Plan::Recreate(..), KeepLayer => Plan::Keep(..) })`,
    `fn plan_for(action) -> Plan`.  What is done about the decision is then whatever the function that runs f does
    with the result."""
    from .lib.effects import MUTATING
    sws = _decision_switches(f, sl)
    if not sws:
        return None
    rv = strip(sl.inline_deep(sl.local(f, 0)))
    if rv[0] != 'select' or rv[2] not in RECREATE or any(en != rv[2] for _, _, en, _ in sws):
        return None
    sig = _sel_sig(rv)
    if any(x is None or not x[1] for x in sig.values()):
        return None
    if any(e.kind in MUTATING or e.kind in ('CALLBACK', 'RECURSION') for e in E.expand(f, 'may')):
        return None
    return rv[2], sig


def _tables_of(sl, g):
    """tables over a decision that g hands to a call or switches on: [select value]"""
    out = []
    for c in g.calls:
        for a in c.args:
            out.extend(_decision_selects(_dnorm(sl, sl.operand(g, a))))
    for sb, blk in enumerate(g.blocks):
        t = blk['t']
        if t['t'] == 'switch':
            di = _discr_info(g, sb, t['o'])
            if di:
                out.extend(_decision_selects(_dnorm(sl, sl.place(g, di[0]))))
    return out


def _reencoded_decisions(prog, sl, g, reenc):
    """decisions re-encoded by a closure / private function that g runs (see _reencoder), located at the call that runs
    it: ([(call block, key, enum, edges)], {re-encoder path: [linked?, ..] per run}).  `key` is the decision value in
    g's terms: for a function, the subject of the table its call evaluates to; for a closure, the subject of the tables
    (same decision type, same rows) that g hands on / switches on — a closure whose table reaches nothing in g is not
    linked (and stays undecided)."""
    out, runs = [], {}
    tables = None
    for c in g.calls:
        if c.indirect:
            continue
        cands = []
        if c.name in reenc and prog.fns[c.name].kind != 'Closure':
            cands.append((c.name, True))
        for a in c.args:
            x = strip(sl.operand(g, a))
            if x[0] == 'closure' and x[1] in reenc:
                cands.append((x[1], False))
        for path, is_fn in cands:
            enum, sig = reenc[path]
            key = None
            if c.target is not None and c.dest and len(c.dest) == 1:
                if is_fn:
                    rv = strip(sl.inline_deep(sl.local(g, c.dest[0])))
                    if rv[0] == 'select' and rv[2] == enum and _sel_sig(rv) == sig:
                        key = _canon(rv[1])
                else:
                    if tables is None:
                        tables = _tables_of(sl, g)
                    keys = {_canon(x[1]) for x in tables if x[2] == enum and _sel_sig(x) == sig}
                    if len(keys) == 1 and len([1 for q in g.calls for a in q.args if strip(sl.operand(g, a))[:2] == ('closure', path)]) == 1:
                        key = keys.pop()
            runs.setdefault(path, []).append(key is not None)
            if key is not None:
                out.append((c.bb, key, enum, {nm: c.target for nm in sig}))
    return out, runs


def _cls_short(c):
    """path class without the symbolic parts (for instance keys)"""
    if c is None:
        return 'OUTSIDE/UNKNOWN'
    if c[0] == 'SUB':
        return '%s/%s' % (_cls_short(c[1]), c[2] if isinstance(c[2], str) else '*')
    if c[0] == 'CHILD':
        return '%s/*' % _cls_short(c[1])
    return c[0]


def _reach_pruned(fn, start, stop, pruned):
    """blocks reachable from start over normal edges, not continuing through `stop` blocks and not using `pruned` edges"""
    seen = set()
    work = [start]
    while work:
        b = work.pop()
        if b in seen:
            continue
        seen.add(b)
        if b in stop:
            continue
        for t in fn.succs(b):
            if (b, t) not in pruned:
                work.append(t)
    return seen


def recreate_decisions(prog, sl, E, EM, rep, mk_paths):
    """R5: whenever one of the layer APIs decides to throw the existing layer away (callback / strategy result
    DeleteLayer, Recreate, RecreateLayer), every way from that decision to a successful return runs a complete, checked
    deletion of *this* layer: DIR (not by std's remove_dir_all), TOML and the SBOM file of every format.  Decided on the
    CFG of the function that takes the decision, with the other switches on the same decision value held consistent,
    and on the MUST effects of each call in the terms of the public entry point.
    A decision that is re-encoded as data (a table over the decision: `match action { DeleteLayer => Plan::Recreate, .. }`
    as a value, in a closure handed to a combinator, or in a private helper) is followed to where the data is consumed:
    a switch on the table is a decision switch, a call that is handed the table is judged with the row of the variant
    under consideration, and a pure re-encoder's decision is located at the call that runs it (_reencoded_decisions)."""
    all_variants = None
    adt = prog.adt('libcnb_data::sbom::SbomFormat')
    if adt:
        all_variants = sorted(v['name'] for v in adt['variants'])
    found = {}
    for short, rx in ENTRIES:
        fs = prog.find(rx)
        if len(fs) != 1:
            rep.unproven('R5', '%s/entry' % short, '-', 'public entry point %s not found' % rx)
            continue
        entry = fs[0]
        is_ld = lambda v, ep=entry.path: v[0] == 'field' and v[2] == 'layers_dir' and strip(v[1])[0] == 'param' and strip(v[1])[1] == ep and strip(v[1])[2] == 0
        is_ln = lambda v, ep=entry.path: v[0] == 'param' and v[1] == ep and v[2] == 1
        LP = mk_paths(is_ld, is_ln)
        reach_fns = [g for _, g in sorted(prog.reach([entry]).items()) if g.crate == 'libcnb']
        own = {g.path: _decision_switches(g, sl) for g in reach_fns}
        # a closure / private function that only re-encodes the decision as data hands the decision to the function
        # that runs it
        reenc = {}
        for g in reach_fns:
            if g.path != entry.path and (g.kind == 'Closure' or g.vis != 'public') and own[g.path]:
                r = _reencoder(prog, sl, E, g)
                if r:
                    reenc[g.path] = r
        cdec, runs = {}, {}
        if reenc:
            for g in reach_fns:
                if g.kind != 'Closure' and g.path not in reenc:
                    ds, rn = _reencoded_decisions(prog, sl, g, reenc)
                    if ds:
                        cdec[g.path] = ds
                    for pth, flags in rn.items():
                        runs.setdefault(pth, []).extend(flags)
        linked = {pth for pth, flags in runs.items() if flags and all(flags)}
        deciders = [g for g in reach_fns if own[g.path] or cdec.get(g.path)]
        seen_r2 = set()
        for g in deciders:
            rep.analysed(g)
            sws = own[g.path] + cdec.get(g.path, [])
            if g.path in linked:
                continue        # re-encoded as data: decided in the function(s) that run g, at the call that runs it
            if g.kind == 'Closure' or g.path in reenc:
                for sb, key, enum, edges in sws:
                    rep.unproven('R5', '%s/%s::%s' % (short, enum.rsplit('::', 1)[-1], RECREATE[enum]), '%s:%d' % (g.file, g.line),
                                 'the decision is taken inside a closure (%s): not analysed' % g.path if g.kind == 'Closure' else
                                 '%s hands the decision on as data, and what its callers do with that data could not be followed' % g.path)
                continue
            # contexts: parameter bindings of g in the entry's terms
            if g.path == entry.path:
                ctxs = [{}]
            else:
                EC = Effects(prog, sl, vocab={g.path: ('CTX', None)})
                ctxs, seen = [], set()
                for e in EC.expand(entry, 'may'):
                    if e.kind != 'CTX' or e.call is None or e.call.name != g.path:
                        continue
                    m = {(g.path, i): a for i, a in enumerate(e.args or ()) if i < g.argc}
                    k = tuple(sorted((i, _canon(a)) for (_, i), a in m.items()))
                    if k not in seen:
                        seen.add(k)
                        ctxs.append(m)
                if not ctxs:
                    rep.unproven('R5', '%s/context' % short, '%s:%d' % (g.file, g.line), 'no call context of %s found from the entry point' % g.path)
                    continue
            success = {s.bb for s in EM.sites(g)}
            checked = [k for k in g.calls if not k.indirect and (prog.callee_fns(k) or vocab_lookup(k)) and _ok_on_success(prog, g, k, success)]
            argvals = {k.bb: [_dnorm(sl, sl.operand(g, a)) for a in k.args] for k in checked}
            from .lib.paths import sbom_formats_covered
            for m in ctxs:
                # what each call of g must have done when g goes on successfully; a call that is handed a table over the
                # decision (`executor(match action { DeleteLayer => Plan::Recreate, .. })`) is judged with the row of the
                # decision variant under consideration (spec)
                base_effs, cls_cache = {}, {}

                def call_effs(k, spec, m=m, base_effs=base_effs):
                    if spec is not None and not vocab_lookup(k):
                        key, enum, var = spec
                        vals = argvals[k.bb]
                        if any(_canon(x[1]) == key for v in vals for x in _decision_selects(v, enum)):
                            effs = []
                            for g2 in prog.callee_fns(k):
                                m2 = EM.call_mapping(g, k, g2, m)
                                for i, v in enumerate(vals):
                                    if i < g2.argc:
                                        sv = _specialise(sl, v, key, enum, var)
                                        if sv is not v:
                                            m2[(g2.path, i)] = EM.subst(sv, m)
                                effs.extend(EM.expand(g2, 'must', None, m2, (Link(k, m),), (g.path,)))
                            return effs
                    if k.bb not in base_effs:
                        effs = []
                        EM._expand_call(g, k, None, 'must', m, (), (g.path,), effs)
                        base_effs[k.bb] = effs
                    return base_effs[k.bb]

                def classes(spec, cls_cache=cls_cache, call_effs=call_effs):
                    if spec in cls_cache:
                        return cls_cache[spec]
                    cls_bbs = {'DIR': set(), 'TOML': set(), 'SBOM': set()}
                    tree_only = set()
                    unk_bbs = set()
                    for k in checked:
                        rem = [e for e in call_effs(k, spec) if e.kind in REMOVING]
                        kinds = [(e.kind, LP.classify(e.path)) for e in rem]
                        if any(c is None for kd, c in kinds):
                            unk_bbs.add(k.bb)
                        if any(c == ('DIR',) and kd != 'REMOVE_TREE' for kd, c in kinds):
                            cls_bbs['DIR'].add(k.bb)
                        elif any(c == ('DIR',) for kd, c in kinds):
                            tree_only.add(k.bb)
                        if any(kd == 'REMOVE_FILE' and c == ('TOML',) for kd, c in kinds):
                            cls_bbs['TOML'].add(k.bb)
                        if all_variants and sorted(sbom_formats_covered([e for e in rem if e.kind == 'REMOVE_FILE'], LP.classify)) == all_variants:
                            cls_bbs['SBOM'].add(k.bb)
                    cls_cache[spec] = (cls_bbs, tree_only, unk_bbs)
                    return cls_cache[spec]
                # R2 on the executions that create or recreate the layer (every decision answers "throw it away"; keeping /
                # updating an existing layer is not part of this property): every mutating effect stays inside the layer
                not_recreate = set()
                for sb, key, enum, edges in sws:
                    keep = edges.get(RECREATE[enum])
                    for t in g.succs(sb):
                        if t != keep:
                            not_recreate.add((sb, t))
                region = _reach_pruned(g, 0, (), not_recreate)
                from .lib.effects import MUTATING
                from .lib.paths import cls_str
                for k in g.calls:
                    if k.bb not in region or k.indirect or not (prog.callee_fns(k) or vocab_lookup(k)):
                        continue
                    effs = []
                    E._expand_call(g, k, E._unrollable(g, k), 'may', m, (), (g.path,), effs)
                    for e in effs:
                        if e.kind not in MUTATING:
                            continue
                        c = LP.classify(e.path)
                        sk = 'recreate/%s/%s/%s@%s' % (short, e.call.fn.path.split('::')[-1], e.call.name, _cls_short(c))
                        if (sk, LP.inside_layer(c)) in seen_r2:
                            continue
                        seen_r2.add((sk, LP.inside_layer(c)))
                        rep.check(LP.inside_layer(c), 'R2', sk, e.where(),
                                  '%s on %s' % (e.kind, cls_str(c)),
                                  '%s while (re)creating the layer is on a path outside <layers>/<name>, <name>.toml and the SBOM files: %s'
                                  % (e.kind, _vstr(e.path)[:140]))
                for sb, key, enum, edges in sws:
                    var = RECREATE[enum]
                    if var not in edges:
                        continue
                    subj = '%s/%s::%s' % (short, enum.rsplit('::', 1)[-1], var)
                    found.setdefault(enum, 0)
                    found[enum] += 1
                    # the other switches on the same decision value take the same variant
                    pruned = set()
                    for sb2, key2, enum2, edges2 in sws:
                        if key2 == key and enum2 == enum:
                            keep = edges2.get(var)
                            for t in g.succs(sb2):
                                if t != keep:
                                    pruned.add((sb2, t))
                    tb = edges[var]
                    where = '%s:%d' % (g.file, g.blocks[sb]['t'].get('ln') or g.line)
                    cls_bbs, tree_only, unk_bbs = classes((key, enum, var))
                    missing = []
                    for cls in ('DIR', 'TOML', 'SBOM'):
                        D = cls_bbs[cls]
                        before = sb in _reach_pruned(g, 0, D, pruned)
                        after = _reach_pruned(g, tb, D, pruned)
                        if before and any(s in after and s not in D for s in success):
                            missing.append(cls)
                    if missing and any(_canon(x[1]) == key for x in _decision_selects(_dnorm(sl, sl.local(g, 0)), enum)):
                        rep.unproven('R5', subj, where, '%s returns the decision %s::%s to its callers as data; what they do with it could '
                                     'not be followed (%s not removed inside %s)' % (g.path, enum.rsplit('::', 1)[-1], var, ', '.join(missing), g.path))
                    elif not missing:
                        rep.holds('R5', subj, where, 'every successful continuation after the decision %s has removed DIR, TOML and the SBOM file '
                                  'of every format of this layer (checked calls)' % var)
                    elif unk_bbs & _reach_pruned(g, tb, (), pruned) and not (tree_only & _reach_pruned(g, tb, (), pruned)):
                        rep.unproven('R5', subj, where, 'after the decision %s::%s, %s removes paths that could not be related to this layer '
                                     '(<layers>/<name>, <name>.toml, SBOM files): a complete deletion (%s) is not established'
                                     % (enum.rsplit('::', 1)[-1], var, g.path, ', '.join(missing)), {'function': g.path, 'missing': missing})
                    else:
                        note = ' (the directory is only removed by std::fs::remove_dir_all, which does not fix permissions)' if 'DIR' in missing and tree_only else ''
                        rep.violated('R5', subj, where, 'after the decision %s::%s, %s can return successfully without a complete, checked deletion of '
                                     'the layer: %s not removed on some path%s' % (enum.rsplit('::', 1)[-1], var, g.path, ', '.join(missing), note),
                                     {'function': g.path, 'missing': missing})
    for enum, var in sorted(RECREATE.items()):
        if not found.get(enum):
            rep.unproven('R5', 'decision/%s::%s' % (enum.rsplit('::', 1)[-1], var), '-',
                         'no branch on %s::%s found below the public layer entry points: the rule lost its subject' % (enum, var))


def uncached_always_deletes(prog, sl, rep):
    """R5: `uncached_layer` never keeps what a previous build left behind: the decision callbacks it hands to the handler
    are constants asking for deletion (one per decision enum of the struct API)"""
    fs = prog.find(ENTRIES[1][1])
    if len(fs) != 1:
        rep.unproven('R5', 'uncached_layer/always-deletes', '-', 'uncached_layer not found')
        return
    f = fs[0]
    where = '%s:%d' % (f.file, f.line)
    seen = {}
    for c in f.calls:
        if c.indirect or not prog.callee_fns(c):
            continue
        for a in c.args:
            v = strip(sl.operand(f, a))
            if v[0] not in ('closure', 'fnitem'):
                continue
            g = prog.fns.get(v[1])
            if g is None:
                continue
            enum = next((en for en in RECREATE if g.ret.startswith(en)), None)
            if enum is None:
                continue
            rv = strip(sl.inline_deep(sl.local(g, 0)))
            alts = rv[1] if rv[0] == 'phi' else [rv]
            ok = all(x[0] == 'agg' and x[1] == enum and x[2] == RECREATE[enum] for x in (strip(y) for y in alts))
            seen[enum] = seen.get(enum, True) and ok
            if not ok:
                rep.violated('R5', 'uncached_layer/always-deletes', c.where(), 'uncached_layer hands the handler a %s callback that does not always '
                             'answer %s (%s): an existing layer is not thrown away' % (enum.rsplit('::', 1)[-1], RECREATE[enum], _vstr(rv)[:100]))
    want = [en for en in RECREATE if '::struct_api::' in en]
    missing = [en.rsplit('::', 1)[-1] for en in want if en not in seen]
    if missing:
        rep.unproven('R5', 'uncached_layer/always-deletes', where, 'no constant decision callback found for %s' % ', '.join(missing))
    elif all(seen.values()):
        rep.holds('R5', 'uncached_layer/always-deletes', where, 'both decision callbacks are the constant DeleteLayer')
