"""Helpers for C15: obligations stated on interprocedural effects instead of on one function's call list.

  expand(E, fn, mode)        E.expand plus *local closures that are called directly* (`let f = |x| ..; f(a)`), which the
                             effect library reports as an opaque CALLBACK: the closure body is expanded with its
                             parameters bound to the call's arguments
  levels(e)                  [(Call, mapping)] from the entry function down to the effect's own call
  guards_by_level(E, e)      branch decisions at every level, substituted into the entry function's terms
  always_before / not_after  ordering of two effects, decided at the level where their call chains diverge
  error_flow(prog, e)        what happens to the failure of the effect's call at every level it is handed up through
  selection(E, e)            "e runs for every element x of collection C with P(x)": loops, for_each / map closures and
                             filter stages are the same thing (iterator algebra); `if p(x)` inside the body is a predicate
Robustness round 4 (normal forms that make families of spellings one thing; benign variants selftest/benign/C15-r4-*):
  subtype_slicer             closures behind a `Subtype` cast (annotated return type / &mut capture) are closures
  path_nf / comps_nf         a path value with local closures applied, private helpers / layout structs / tuples inlined,
                             PathBuf::push buffers and with_file_name as join chains; site_fix reads a push-built buffer as of
                             the point where it is read (the slicer's concat is flow-insensitive)
  deep_nf                    ... plus projections of tuples / structs handed back by helpers and local closures
  reopen / selection_open    element-wise stages (map / cloned / collect round trips) and filter stages before them are seen
                             through: a collected Vec that is looped over later is the iteration it was collected from
  fails_otherwise            a per-element decision whose other side fails the run (`if let Err(e) = step { return Err }`)
                             selects nothing
  combinator_tolerance / rebuilt_tolerance / ok_only_if_not_found
                             the NotFound tolerance of the wipe as `.or_else(closure)` resp. as a match expression that
                             rebuilds the Result; any other recovering stage swallows the failure (recovers)
  membership / ok_gates      `names.contains(&t)` = `names.iter().any(|n| n == &t)`, also when checked in a gate helper `g(..)?`
  option_default / option_arms_of_value   unwrap_or / unwrap_or_else / map_or(_else) / an if-let value
  filled_form                a helper that fills a fresh Vec by push in one pass = filter().map().collect()
  fold_accumulator           the map threaded through try_fold is the map its closure fills
  binaries_fields            struct fields by type instead of by name
Robustness round 5:
  counter_nf / unbounded     zip with a never-ending counter (RangeFrom / repeat) = enumerate: Iteration.nrecv carries that structure
  elementwise_base           the iterated expression a collection is derived from element by element (map / collect round trips)
  handle_writes / follows_on_success   File::create(p)? + write_all(data)? on that handle = fs::write(p, data)?
"""
from .lib import iters
from .lib.discard import result_fates, verdict
from .lib.effects import Link, guards_of
from .lib.guards import conditions, conditions_ctx
from .lib.paths import strip
from .lib.value import canon, walk

FN_CALL = ('std::ops::Fn::call', 'std::ops::FnMut::call_mut', 'std::ops::FnOnce::call_once')
IT = iters.IT


_SUBTYPE_SLICERS = {}


def subtype_slicer(sl):
    """a Slicer for which `x as T (Subtype)` casts are transparent.  rustc inserts such a cast where a closure that captures
    a `&mut` borrow / has an annotated return type is handed to a generic adapter (`iter.try_for_each(|n| -> Result<..> {
    map.insert(..) })`); the library's slicer keeps it as ('cast', closure, ty), which hides the closure from the effect
    expansion.  (Wanted in lib/value.py: treat 'Subtype' like 'Unsize' in Slicer._rvalue.)"""
    from .lib.value import Slicer
    if getattr(sl, '_subtype_transparent', False):
        return sl
    key = id(sl)
    if key not in _SUBTYPE_SLICERS:
        class _S(Slicer):
            _subtype_transparent = True

            def _rvalue(self, fn, rv, seen, d, at):
                if rv['r'] == 'cast' and 'Subtype' in str(rv.get('kind')):
                    return self.operand(fn, rv['o'], seen, d)
                return Slicer._rvalue(self, fn, rv, seen, d, at)
        _SUBTYPE_SLICERS[key] = (sl, _S(sl.prog, sl.max_depth))
    return _SUBTYPE_SLICERS[key][1]


# ---- expansion ----------------------------------------------------------------------------------------
def expand(E, fn, mode='may'):
    return _open(E, E.expand(fn, mode), mode, 0)


def _open(E, effs, mode, depth):
    out = []
    for e in effs:
        clv = strip(e.path) if (e.kind == 'CALLBACK' and e.path is not None) else None
        g = E.prog.fns.get(clv[1]) if (clv is not None and clv[0] == 'closure') else None
        if g is None or depth > 4 or e.call is None or any(isinstance(l, Link) and l.call.fn is g for l in e.chain):
            out.append(e)
            continue
        if e.call.indirect:
            bind = list(e.args or ())
        else:
            tv = e.args[1] if e.args and len(e.args) > 1 else ('tuple', ())
            bind = list(tv[1]) if tv[0] == 'tuple' else None
        if bind is None:
            out.append(e)
            continue
        # bindings of everything above (the deepest Link carries them); the closure's captures are resolved by the slicer
        base = dict(e.mapping or (e.chain[-1].mapping if e.chain and isinstance(e.chain[-1], Link) else None) or {})
        if not e.mapping and e.chain and isinstance(e.chain[-1], Link):
            # the library does not attach the bindings of the function containing a CALLBACK call: rebuild them from the
            # link above when that link is a plain call of this function (its parameters are then the call's arguments)
            l = e.chain[-1]
            if not l.call.indirect and e.call.fn in E.prog.callee_fns(l.call):
                base = E.call_mapping(l.call.fn, l.call, e.call.fn, l.mapping or {})
        base.pop('__repl__', None)
        m = dict(base)
        for i, b in enumerate(bind):
            m[(g.path, 1 + i)] = b
        sub = E.expand(g, mode, None, m, tuple(e.chain) + (Link(e.call, base),), ())
        for s in sub:
            if s.forall is None and e.forall is not None:
                s.forall = e.forall
            s.implied = tuple(e.implied) + tuple(s.implied)
        out.extend(_open(E, sub, mode, depth + 1))
    return out


def levels(e):
    return [(l.call, l.mapping or {}) for l in e.chain] + [(e.call, e.mapping or {})]


def _same(c1, c2):
    return c1 is c2 or (c1.fn.path == c2.fn.path and c1.bb == c2.bb)


def diverge(a, b):
    la, lb = levels(a), levels(b)
    i = 0
    while i < min(len(la), len(lb)) and _same(la[i][0], lb[i][0]):
        i += 1
    return i if (i < len(la) and i < len(lb)) else None


def _direct(E, call, g):
    """does `call` enter g itself, every time it runs (plain call of a workspace function, or a local closure called directly)"""
    if call.indirect:
        return False
    if g in E.prog.callee_fns(call):
        return True
    return call.decl in FN_CALL and call.res == g.path


def guards_by_level(E, e):
    """[(level, Cond, [(substituted value, outcome)..], substituted subject)]"""
    out = []
    for j, (call, m) in enumerate(levels(e)):
        for cd in conditions_ctx(E.prog, call.fn, call.bb, E.slicer):
            views = [(E.subst(v, m), oc) for v, oc in cd.views()] if cd.kind == 'bool' else [(E.subst(cd.value, m), cd.outcome)]
            subj = E.subst(cd.subject, m) if cd.subject is not None else None
            out.append((j, cd, views, subj))
    return out


def loop_headers(E, f):
    return [L.header for L in E.loops(f)]


def always_before(E, a, b, anchors=None):
    """whenever b runs, a has run before it: at the level where the two call chains part, a's call (or the anchor block
    given for that level: the switch of a tolerated `if exists` guard) strictly dominates b's call; below that level a is
    unconditional in every callee (dominates all its success sites) and every callee is entered directly"""
    anchors = anchors or {}
    i = diverge(a, b)
    if i is None:
        return False
    la, lb = levels(a), levels(b)
    ca, cb = la[i][0], lb[i][0]
    f = ca.fn
    if cb.fn is not f:
        return False
    A = anchors.get(i, ca.bb)
    if A == cb.bb or not f.dominates(A, cb.bb):
        return False
    for j in range(i + 1, len(la)):
        cj = la[j][0]
        fj = cj.fn
        if not _direct(E, la[j - 1][0], fj):
            return False
        Aj = anchors.get(j, cj.bb)
        sites = E.sites(fj)
        if not sites or not all(fj.dominates(Aj, s.bb) for s in sites):
            return False
    return True


def not_after(E, a, b):
    """a cannot run after b within the same activation / loop iteration"""
    i = diverge(a, b)
    if i is None:
        return False
    ca, cb = levels(a)[i][0], levels(b)[i][0]
    f = ca.fn
    if cb.fn is not f:
        return False
    return ca.bb not in f.reachable(cb.bb, stop=loop_headers(E, f))


# ---- failure handling ---------------------------------------------------------------------------------
def error_flow(prog, e):
    """[(level, fn, call, fates, verdict)] for the effect's own call and for every call above it whose Result can carry
    the failure on (deepest first); a level whose callee hands the error up but whose call site has no Result to carry it
    gets verdict 'unproven'"""
    ls = levels(e)
    out = []
    handed_up = False
    for j in range(len(ls) - 1, -1, -1):
        c = ls[j][0]
        is_res = (c.dty or '').startswith('std::result::Result<')
        if j == len(ls) - 1 or is_res:
            fates = result_fates(prog, c.fn, c)
            out.append((j, c.fn, c, fates, verdict(fates)))
            handed_up = any(x.kind in ('returned', 'propagated', 'matched') for x in fates)
        elif handed_up:
            out.append((j, c.fn, c, [], 'unproven'))
            handed_up = False
    return out


def tolerates_only_not_found(E, f, c, targets):
    """in f, the Err arm of the Result of call c reaches `targets` (the blocks where work goes on) only through the
    `error.kind() == ErrorKind::NotFound` edge — a boolean test (`==` / `!=`) or the NotFound arm of a `match error.kind()`
    / `matches!(error.kind(), NotFound)`"""
    from .lib.guards import _discr_info
    sl = E.slicer
    site = (f.path, c.bb)
    from_site = lambda v: any(isinstance(x, tuple) and x and x[0] == 'call' and len(x) == 4 and x[3] == site for x in walk(v))
    found = []      # (switch block, [blocks entered when the kind is NotFound], [blocks entered otherwise])
    for bi, blk in enumerate(f.blocks):
        t = blk['t']
        if t['t'] != 'switch':
            continue
        if t.get('oty') == 'bool':
            v = strip(sl.operand(f, t['o']))
            if not (v[0] == 'call' and v[1] in ('std::cmp::PartialEq::ne', 'std::cmp::PartialEq::eq') and len(v[2]) == 2):
                continue
            a, b = strip(v[2][0]), strip(v[2][1])
            if a[0] == 'agg':
                a, b = b, a
            if not (b[0] == 'agg' and b[2] == 'NotFound' and a[0] == 'call' and a[1] == 'std::io::Error::kind' and from_site(a)):
                continue
            zero = [tb for val, tb in t['targets'] if val == 0]
            if not zero:
                continue
            fall, other = (zero[0], t['else']) if v[1].endswith('::ne') else (t['else'], zero[0])
            found.append((bi, [fall], [other]))
        else:
            info = _discr_info(f, bi, t['o'])
            if not info or not str(info[2] or '').endswith('ErrorKind'):
                continue
            kv = strip(sl.local(f, info[0][0])) if len(info[0]) >= 1 else ('unknown',)
            if not (kv[0] == 'call' and kv[1] == 'std::io::Error::kind' and from_site(kv)):
                continue
            nfv = [val for val, n in info[1].items() if n == 'NotFound']
            fall = [tb for val, tb in t['targets'] if val in nfv]
            other = [tb for val, tb in t['targets'] if val not in nfv] + [t['else']]
            other = [b for b in other if f.blocks[b]['t']['t'] != 'unreachable']
            if fall:
                found.append((bi, fall, other))
    if not targets:
        return False
    for bi, fall, other in found:
        arm = None
        for cd in conditions(f, bi, sl):
            s_ = strip(cd.subject) if cd.subject is not None else None
            if cd.kind == 'variant' and cd.outcome == frozenset({'Err'}) and s_ is not None and s_[0] == 'call' and len(s_) == 4 and s_[3] == site:
                arm = cd.target
        if arm is None:
            continue
        through = arm == bi or not (set(targets) & f.reachable(arm, stop=[bi]))
        if through and any(set(targets) & f.reachable(b) for b in fall) and not any(set(targets) & f.reachable(b) for b in other if b not in fall):
            return True
    return False


# ---- selections ---------------------------------------------------------------------------------------
PASS_THROUGH = iters.SAME | iters.COLLECTING | {IT + 'enumerate'}


_ENDLESS = ('std::iter::repeat', 'std::iter::repeat_with')


def unbounded(v):
    """an iterator that never ends: `(n..)` (RangeFrom), `iter::repeat(x)` / `repeat_with(f)` — zipping with it drops nothing"""
    for _ in range(6):
        v = strip(v)
        if v[0] == 'call' and len(v[2]) == 1 and (v[1] in iters.SAME or v[1] == IT + 'enumerate' or v[1].endswith(('::into_iter', '::by_ref'))):
            v = v[2][0]
            continue
        if v[0] == 'call' and len(v[2]) == 2 and v[1] in (IT + 'map', IT + 'inspect'):
            v = v[2][0]
            continue
        break
    if v[0] == 'agg':
        return str(v[1] or '').endswith('ops::RangeFrom') or str(v[1] or '').endswith('range::RangeFrom')
    return v[0] == 'call' and v[1] in _ENDLESS


def counter_nf(v):
    """robustness round 5: `counter.zip(xs)` / `xs.zip(counter)` with a never-ending counter (`(1..).zip(xs.iter())`) visits
    exactly the elements of xs, in order — the same iteration as `xs.iter().enumerate()`.  The zip stage is rewritten to
    `enumerate` (structure only: which elements are visited; the element *value* is still read off the original expression,
    where the tuple positions are right)"""
    def f(x):
        if x[0] == 'call' and x[1] == IT + 'zip' and len(x[2]) == 2:
            a, b = x[2]
            if unbounded(a) and not unbounded(b):
                return ('call', IT + 'enumerate', (b,), x[3] if len(x) > 3 else None)
            if unbounded(b) and not unbounded(a):
                return ('call', IT + 'enumerate', (a,), x[3] if len(x) > 3 else None)
        return None
    if v is None or not any(isinstance(x, tuple) and x and x[0] == 'call' and x[1] == IT + 'zip' for x in walk(v)):
        return v
    return _rewrite_all(v, f)


def decompose(sl, v):
    """iterated expression -> (base collection, [(filter closure, receiver of that filter)], opaque?)"""
    filters = []
    opaque = False
    v = counter_nf(v)
    for _ in range(16):
        v = strip(v)
        if v[0] != 'call' or not v[2]:
            break
        name, args = v[1], v[2]
        if name == IT + 'filter' and len(args) == 2:
            filters.append((args[1], args[0]))
            v = args[0]
        elif name in PASS_THROUGH or (iters._is_source(name) and name.endswith(iters.SAME_ELEMS) and len(args) == 1):
            v = args[0]
        elif name in iters.FEWER or name in iters.LAZY_WITH_CLOSURE or name in (IT + 'chain', IT + 'zip', IT + 'flatten'):
            opaque = True
            break
        else:
            break
    return v, filters, opaque


def _peel_not(v, oc=True):
    while isinstance(v, tuple) and v and v[0] == 'un' and v[1] == 'Not':
        v, oc = v[2], (not oc)
    return v, oc


class Iteration:
    def __init__(self, level, recv, elem, base, preds, opaque):
        self.level = level
        self.recv = recv      # the iterated expression (entry terms)
        self.elem = elem      # value of one element
        self.base = base      # the collection it ranges over, adapters peeled
        self.preds = preds    # [(value, outcome)] of filter stages
        self.opaque = opaque  # an adapter / shape whose selection we cannot state
        self.nrecv = recv     # recv with zip-with-a-counter stages as enumerate (counter_nf)


def _iteration(E, level, recv):
    sl = E.slicer
    base, filters, opaque = decompose(sl, recv)
    nrecv = counter_nf(recv)
    al = iters.alts(sl, nrecv)
    elem = None
    if len(al) == 1:
        elem = al[0][0]
        if nrecv is not recv:
            # (tuple positions of a zip with a counter: as in the original expression)
            al0 = iters.alts(sl, recv)
            if len(al0) == 1:
                elem = al0[0][0]
        if bool(al[0][2]) != bool(filters):
            opaque = True
    else:
        opaque = True
    preds = []
    for clv, rv in filters:
        ra = iters.alts(sl, rv)
        r = sl.apply_closure(clv, (ra[0][0],)) if len(ra) == 1 else None
        if r is None:
            opaque = True
            continue
        preds.append(_peel_not(r))
    it = Iteration(level, recv, elem, base, preds, opaque)
    it.nrecv = nrecv
    return it


class Selection:
    def __init__(self, iterations, guards):
        self.iterations = iterations
        self.guards = guards          # [(level, Cond, views)] decisions taken per element (inside the iteration)


def _is_continue(cd):
    return cd.kind == 'variant' and (cd.enum or '').startswith('std::ops::ControlFlow') and cd.outcome == frozenset({'Continue'})


def selection(E, e):
    sl = E.slicer
    ls = levels(e)
    its = []
    guards = []
    for j, (c, m) in enumerate(ls):
        f = c.fn
        inside = bool(its)
        body = None
        skip_sites = set()
        for L in sorted((L for L in E.loops(f) if c.bb in L.body and c.bb != L.header), key=lambda L: -len(L.body)):
            if L.collection is None:
                its.append(Iteration(j, None, None, None, [], True))
            else:
                its.append(_iteration(E, j, E.subst(L.collection, m)))
            body = L.body if body is None else body     # outermost loop: decisions inside it are per element
            skip_sites.add((f.path, L.header))
        for cd in conditions(f, c.bb, sl):
            if not (inside or (body is not None and cd.sw_bb in body)) or _is_continue(cd):
                continue
            s = strip(cd.subject) if cd.subject is not None else None
            if s is not None and s[0] == 'call' and len(s) == 4 and s[3] in skip_sites:
                continue        # the loop's own `next() is Some`
            views = [(E.subst(v, m), oc) for v, oc in cd.views()] if cd.kind == 'bool' else [(E.subst(cd.value, m), cd.outcome)]
            guards.append((j, cd, views))
        # a closure handed to an iterator adapter / consumer is a loop body
        if j + 1 < len(ls) and not c.indirect and (c.decl or '').startswith('std::iter::'):
            g = ls[j + 1][0].fn
            d = c.decl
            recv = None
            if d in iters.LAZY_WITH_CLOSURE and len(c.args) == 2:
                recv = sl.operand(f, c.args[0])
            elif d in iters.CONSUME_EACH or d in iters.CONSUME_ALL:
                ridx = 1 if d == 'std::iter::Extend::extend' else 0
                if ridx < len(c.args):
                    recv = sl.operand(f, c.args[ridx])
                    for name, clv, rv in iters.stages(recv):
                        if clv[0] == 'closure' and clv[1] == g.path:
                            recv = rv
                            break
            if recv is not None:
                its.append(_iteration(E, j, E.subst(recv, m)))
    return Selection(its, guards)


def predicates(sel):
    """all per-element conditions of a selection: filter stages and decisions inside the body; None if some cannot be stated"""
    if any(it.opaque for it in sel.iterations):
        return None
    out = []
    for it in sel.iterations:
        out.extend(it.preds)
    for j, cd, views in sel.guards:
        if cd.kind != 'bool':
            return None
        out.append(views[0] if len(views) == 1 else ('views', views))
    return out


def pred_views(p):
    return list(p[1]) if (isinstance(p, tuple) and p and p[0] == 'views') else [p]


def same(a, b):
    return a is not None and b is not None and canon(strip(a)) == canon(strip(b))


def returned(sl, v):
    """v with private workspace helpers made transparent: what a helper hands back on success (`Ok(x)` among early-return
    errors -> x), so that a collection filled inside a helper and returned is the same value as the one filled in place"""
    v = strip(v)
    iv = sl.inline_deep(v)
    if iv == v:
        return v
    return strip(sl.mk_unwrap(iv, 1))


def same_through_helpers(sl, a, b):
    return same(a, b) or same(returned(sl, a), returned(sl, b))


def same_object(sl, a, b):
    """like same_through_helpers, but two constructor calls at different sites (`&BTreeMap::new()` here, `let m =
    BTreeMap::new()` there) are different objects although they are equal values"""
    x, y = strip(a), strip(b)
    if x[0] == 'call' and y[0] == 'call' and len(x) == 4 and len(y) == 4 and x[3] is not None and y[3] is not None and x[3] != y[3]:
        return False
    return same_through_helpers(sl, a, b)


_OPT_VIEW = ('::as_ref', '::clone', '::as_deref', '::as_mut', '::as_deref_mut')


def option_arm(E, e, is_subject):
    """the arm of a decision on an Option (selected by `is_subject`) that effect e runs in, at any level of its call chain:
    'Some' / 'None' (`match` / `if let` / `is_some()` / `is_none()`), '?' when contradictory or not a plain arm, None when
    e is not under such a decision"""
    found = set()
    for cd, views, subj in guards_of(E, e):
        if cd.kind == 'variant':
            s = strip(subj) if subj is not None else None
            while s is not None and s[0] == 'call' and len(s[2]) == 1 and s[1].endswith(_OPT_VIEW):
                s = strip(s[2][0])
            if s is None or s[0] != 'field' or not is_subject(s) or is_subject(s[1]):
                continue
            oc = cd.outcome
            found.add(next(iter(oc)) if isinstance(oc, frozenset) and len(oc) == 1 and next(iter(oc)) in ('Some', 'None') else '?')
        elif cd.kind == 'bool':
            for v, oc in views:
                v, oc = _peel_not(v, oc)
                v = strip(v)
                if v[0] == 'call' and len(v[2]) == 1 and v[1].endswith(('::is_some', '::is_none')) and is_subject(v[2][0]):
                    found.add('?' if not isinstance(oc, bool) else ('Some' if (oc == v[1].endswith('::is_some')) else 'None'))
    if not found:
        return None
    return found.pop() if len(found) == 1 else '?'


# ======================================================================================================
# deepening round: obligations on the functions that carry the data (build_binary, cargo.rs, buildpack_kind.rs,
# output.rs, discovery) and end-to-end normal forms in `execute`'s terms
# ======================================================================================================
from .lib.guards import always_through, edge_dominates
from .lib.value import vstr
from .lib.mir import op_place
from .lib.tables import arm_defs, phi_local_of


def every_element(E, e):
    """does effect e run for *every* element of the one collection it is iterated over (on every iteration that does
    not fail)?  -> (verdict, reason, Iteration|None) with verdict 'ok' | 'violated' | 'unproven' | 'none' (not iterated).
    Filter stages, truncating adapters, `if` / `match` decisions inside the body are visible to selection(); an early
    `continue` / `break` under a compound condition is not (no single edge dominates), so every path from the start of
    the body to the next iteration or to a success exit has to pass through the call."""
    sl = E.slicer
    sel = selection(E, e)
    if not sel.iterations:
        return 'none', 'not inside an iteration', None
    if len(sel.iterations) != 1:
        return 'unproven', 'nested iterations', None
    it = reopen(sl, sel.iterations[0])
    if it.recv is None:
        return 'unproven', 'a loop whose collection is not known', it
    if any(fl == 'trunc' for _, _, fl in iters.alts(sl, it.nrecv)) or \
            any(st[3] for st in iters.stages(strip(it.nrecv), with_stop=True)):
        return 'violated', 'a truncating adapter (take / skip / take_while / map_while / ..) drops elements by position', it
    if it.preds:
        return 'violated', 'a filter stage drops elements: %s' % '; '.join(vstr(p[0])[:80] for p in it.preds), it
    if it.opaque:
        return 'unproven', 'an adapter whose selection cannot be stated', it
    # a decision whose other side makes the whole run fail ("the step before succeeded": `if let Err(e) = step { return
    # Err(..) }`) selects nothing: the iterations that do not fail all take it
    guards = [g for g in sel.guards if not fails_otherwise(E, e, it, g)]
    if guards:
        return 'violated', 'runs only under a per-element condition: %s' % '; '.join(vstr(vs[0][0])[:80] for _, _, vs in guards), it
    vd, why = _all_paths_reach(E, e, it)
    return vd, why, it


def fails_otherwise(E, e, it, guard):
    """guard = (level, Cond, views) of a selection: every other way out of the decision ends in the failure of its function
    (no success site and no next iteration is reachable), and that failure is handed up (`?` / returned) by every call
    between the iteration and the decision — so the run as a whole fails instead of skipping the element"""
    j, cd, _ = guard
    ls = levels(e)
    if j >= len(ls) or cd.target is None:
        return False
    f = ls[j][0].fn
    if cd.fn is not f:
        return False
    others = [b for b in f.succs(cd.sw_bb) if b != cd.target]
    sites = {st.bb for st in E.sites(f)}
    if not others or not sites or not (f.ret or '').startswith('std::result::Result<'):
        return False
    forbidden = set(sites) | {cd.target}
    for L in E.loops(f):
        if cd.sw_bb in L.body:
            forbidden.add(L.header)
    for o in others:
        if f.blocks[o]['t']['t'] == 'unreachable':
            continue
        if o in forbidden or (set(f.reachable(o)) & forbidden):
            return False
    for k in range(it.level, j):
        c = ls[k][0]
        g = ls[k + 1][0].fn
        if not _direct(E, c, g) or not (c.dty or '').startswith('std::result::Result<'):
            return False
        fates = result_fates(E.prog, c.fn, c)
        if not fates or any(ft.kind not in ('propagated', 'returned') for ft in fates):
            return False
    return True


def _not_found_test(v, oc, is_err):
    """is (v, outcome) the decision `<error>.kind() == ErrorKind::NotFound` for an error selected by is_err"""
    v, oc = _peel_not(strip(v), oc)
    v = strip(v)
    if v[0] == 'call' and len(v[2]) == 2 and v[1] in ('std::cmp::PartialEq::ne', 'std::cmp::PartialEq::eq'):
        a, b = strip(v[2][0]), strip(v[2][1])
        if a[0] == 'agg':
            a, b = b, a
        if b[0] == 'agg' and b[2] == 'NotFound' and a[0] == 'call' and a[1] == 'std::io::Error::kind' and a[2] and is_err(a[2][0]):
            return oc is v[1].endswith('::eq')
    return False


def ok_only_if_not_found(E, g):
    """g: io::Error -> Result (closure handed to `or_else`, or a private function): every success of g lies under the
    decision `kind() == NotFound` on its own argument"""
    sl = E.slicer
    first = 2 if g.kind == 'Closure' else 1
    is_err = lambda v: any(isinstance(x, tuple) and x and x[0] == 'param' and x[1] == g.path and x[2] >= first - 1 for x in walk(v))
    sites = E.sites(g)
    if not sites:
        return False
    for st in sites:
        ok = False
        for cd in conditions(g, st.bb, sl):
            if cd.kind == 'bool':
                ok = ok or any(_not_found_test(v, oc, is_err) for v, oc in cd.views())
            elif cd.kind == 'variant' and cd.subject is not None:
                sj = strip(cd.subject)
                ok = ok or (cd.outcome == frozenset({'NotFound'}) and sj[0] == 'call' and sj[1] == 'std::io::Error::kind' and bool(sj[2]) and is_err(sj[2][0]))
        if not ok:
            return False
    return True


def result_chain(E, f, c):
    """the Result combinator stages the outcome of call c is handed through in f: [(Call, short name)], e.g.
    `c(..).or_else(g).map_err(h)` -> [(.., 'or_else'), (.., 'map_err')]"""
    sl = E.slicer
    out, cur = [], c
    for _ in range(8):
        site = (f.path, cur.bb)
        nxt = None
        for d in f.calls:
            if d.indirect or not d.args or d is cur:
                continue
            v = strip(sl.operand(f, d.args[0]))
            if v[0] == 'call' and len(v) == 4 and v[3] == site and (d.decl or d.name or '').startswith('std::result::Result::<T, E>::'):
                nxt = d
                break
        if nxt is None:
            break
        out.append((nxt, (nxt.decl or nxt.name).rsplit('::', 1)[1]))
        cur = nxt
    return out


_RECOVER = ('or_else', 'or')


def recovers(E, f, c):
    """is the failure of call c handed to a stage that can turn it into a success (`or_else` / `or`)"""
    return any(short in _RECOVER for _, short in result_chain(E, f, c))


def combinator_tolerance(E, f, c, targets):
    """the Result of call c (the wipe) is handed to `Result::or_else(<g>)` with g = ok_only_if_not_found (possibly through
    `map_err` stages, which keep a failure a failure), and the failure of what comes out is reported: its Err side
    never reaches `targets` (the blocks where work goes on)"""
    sl = E.slicer
    cur, seen_or_else = c, False
    for nxt, short in result_chain(E, f, c):
        if short == 'or_else' and len(nxt.args) == 2:
            gv = strip(sl.operand(f, nxt.args[1]))
            g = E.prog.fns.get(gv[1]) if gv[0] in ('closure', 'fnitem') else None
            if g is None or not ok_only_if_not_found(E, g):
                return False
            seen_or_else = True
        elif short in _RECOVER:
            return False
        elif short != 'map_err':
            break
        cur = nxt
    if not seen_or_else:
        return False
    fates = result_fates(E.prog, f, cur)
    if verdict(fates) != 'ok':
        return False
    # an explicit Err arm on the outcome must not go on to the work
    site = (f.path, cur.bb)
    for bi, blk in enumerate(f.blocks):
        if blk['t']['t'] != 'switch':
            continue
        for tb in set(f.succs(bi)):
            for cd in conditions(f, tb, sl):
                sj = strip(cd.subject) if cd.subject is not None else None
                if cd.sw_bb == bi and cd.kind == 'variant' and cd.outcome == frozenset({'Err'}) and sj is not None and sj[0] == 'call' and len(sj) == 4 and sj[3] == site:
                    if set(targets) & set(f.reachable(cd.target)):
                        return False
    return True


def rebuilt_tolerance(E, f, c, targets):
    """the outcome of call c (the wipe) is rebuilt into a new Result by a `match` / `if let` expression — `let w = match
    remove_dir_all(..) { Ok(()) => Ok(()), Err(e) if e.kind() == NotFound => Ok(()), Err(e) => Err(wrap(e)) }; w?` — : a success
    is produced only for the wipe's own success or for NotFound, and the failure of the new Result is reported (its Err
    side never reaches `targets`)"""
    from .lib.discard import local_fates
    sl = E.slicer
    site = (f.path, c.bb)
    at_site = lambda v: any(isinstance(x, tuple) and x and x[0] == 'call' and len(x) == 4 and x[3] == site for x in walk(v))
    found = False
    for local in range(1, len(f.locals)):
        defs = f.whole_defs(local)
        if len(defs) < 2 or not (f.local_ty(local) or '').startswith('std::result::Result<'):
            continue
        rows = arm_defs(f, local, sl)
        if len(rows) != len(defs) or not any(cd.kind == 'variant' and cd.subject is not None and at_site(cd.subject) for _, _, conds in rows for cd in conds):
            continue
        for bi, v, conds in rows:
            v = strip(v)
            side = set()
            nf = False
            for cd in conds:
                sj = strip(cd.subject) if cd.subject is not None else None
                if cd.kind == 'variant' and sj is not None and sj[0] == 'call' and len(sj) == 4 and sj[3] == site and isinstance(cd.outcome, frozenset):
                    side |= set(cd.outcome)
                elif cd.kind == 'bool':
                    nf = nf or any(_not_found_test(x, oc, at_site) for x, oc in cd.views())
                elif cd.kind == 'variant' and sj is not None and sj[0] == 'call' and sj[1] == 'std::io::Error::kind' and sj[2] and at_site(sj[2][0]):
                    nf = nf or cd.outcome == frozenset({'NotFound'})
            if v[0] != 'agg' or v[2] not in ('Ok', 'Err'):
                return False
            if v[2] == 'Ok' and not (side == {'Ok'} or (side == {'Err'} and nf)):
                return False
        fates = local_fates(E.prog, f, local, {}, set(), 0)
        if verdict(fates) != 'ok' or any(ft.kind == 'matched' for ft in fates):
            return False
        found = True
    return found


def _all_paths_reach(E, e, it, skip_edges=None, exhausted=False):
    """within iteration `it` of effect e: every path from the start of the body to the next element (or to a success
    exit) passes through the call, at every level below the iteration; `skip_edges` {fn path: [(src, tgt)]} are the edges
    of recognised per-element decisions that may leave the path (the element is then *not selected*); with
    `exhausted`, the function's success must additionally come after the loop ran to exhaustion (no `break` / early
    `return Ok(..)` once some element was seen)"""
    skip_edges = skip_edges or {}
    ls = levels(e)
    j = it.level
    c = ls[j][0]
    f = c.fn
    lps = sorted((L for L in E.loops(f) if c.bb in L.body and c.bb != L.header), key=lambda L: -len(L.body))
    if lps:
        L = lps[0]
        tb = L.next_call.target
        entries = [s for s in f.succs(tb) if s in L.body] if tb is not None else []
        ends = {L.header} | {s.bb for s in E.sites(f)}
        skip = ([L.exhaust] if getattr(L, 'exhaust', None) else []) + list(skip_edges.get(f.path, ()))
        if not entries:
            return 'unproven', 'loop body not found'
        if not all(always_through(f, s, c.bb, ends, skip) for s in entries):
            return 'violated', 'an iteration can go on to the next element (or leave the loop successfully) without reaching it'
        if exhausted:
            ex = getattr(L, 'exhaust', None)
            sites = E.sites(f)
            if ex is None or not sites:
                return 'unproven', 'the loop\'s exhaustion edge was not found'
            if any(s.bb in L.body or not edge_dominates(f, ex[0], ex[1], s.bb) for s in sites):
                return 'violated', 'the function can succeed before the loop has seen every element (break / early return)'
        first = j + 1
    else:
        # the body is the closure handed to an iterator adapter / consumer: the next level
        if j + 1 >= len(ls):
            return 'unproven', 'iteration without a body'
        first = j + 1
    for k in range(first, len(ls)):
        ck = ls[k][0]
        fk = ck.fn
        if k > first or lps:
            if not _direct(E, ls[k - 1][0], fk):
                return 'unproven', 'reached through an indirect call'
        sites = [s.bb for s in E.sites(fk)] or list(fk.return_blocks())
        if not always_through(fk, 0, ck.bb, sites, list(skip_edges.get(fk.path, ()))):
            return 'violated', '%s can succeed without reaching it' % fk.path
    return 'ok', ''


# ---- path / command normal forms -------------------------------------------------------------------------
_PATH_WRAP = ('::into_std_path_buf', '::to_path_buf', '::as_path', '::as_std_path', '::as_ref', '::deref', '::clone', '::into', '::to_owned',
              '::borrow', '::into_path_buf', '::as_str', '::to_string', '::as_os_str', '::into_os_string')


def peel_path(v):
    """peel conversions that do not change which path / string a value denotes"""
    for _ in range(16):
        v = strip(v)
        if v[0] == 'call' and len(v[2]) == 1 and (v[1].endswith(_PATH_WRAP) or v[1].endswith('::from') or v[1].endswith('::new')) \
                and ('Path' in v[1] or 'From' in v[1] or 'Into' in v[1] or 'AsRef' in v[1] or 'Deref' in v[1] or 'Clone' in v[1] or 'ToOwned' in v[1]
                     or 'String' in v[1] or 'Borrow' in v[1] or 'str' in v[1] or 'OsStr' in v[1]):
            v = v[2][0]
            continue
        return v
    return v


def path_comps(v, is_root):
    """components of a path value below a root: join(join(root, a), b) -> (a, b); None when v is not such a chain"""
    v = peel_path(v)
    if is_root(v):
        return ()
    if v[0] == 'call' and v[1].endswith('::join') and len(v[2]) == 2:
        a = path_comps(v[2][0], is_root)
        if a is None:
            return None
        return a + (peel_path(v[2][1]),)
    return None


def command_parts(v):
    """a std::process::Command builder chain -> {'program': value, 'args': [values], 'cwd': value|None, 'opaque': bool}"""
    out = {'program': None, 'args': [], 'cwd': None, 'opaque': False}
    chain = []
    v = strip(v)
    while v[0] == 'call' and v[1].startswith('std::process::Command::') and v[2]:
        chain.append(v)
        if v[1].endswith('::new'):
            break
        v = strip(v[2][0])
    else:
        out['opaque'] = True
    for c in reversed(chain):
        short = c[1].rsplit('::', 1)[1]
        if short == 'new':
            out['program'] = peel_path(c[2][0])
        elif short == 'arg' and len(c[2]) == 2:
            out['args'].append(peel_path(c[2][1]))
        elif short == 'args' and len(c[2]) == 2:
            a = strip(c[2][1])
            if a[0] == 'array':
                out['args'].extend(peel_path(x) for x in a[1])
            else:
                out['args'].append(('splat', a))
        elif short == 'current_dir' and len(c[2]) == 2:
            out['cwd'] = peel_path(c[2][1])
    return out


def const_of(v):
    v = peel_path(v)
    return v[1] if v[0] == 'const' else None


def select_map(v):
    """('select', subject, enum, ((variant names, value)..)) -> {variant: const}; None if not such a table"""
    v = strip(v)
    if v[0] != 'select':
        return None
    out = {}
    for names, rv in v[3]:
        c = const_of(rv)
        if c is None:
            return None
        for n in names:
            out[n] = c
    return out


def call_closure_value(sl, v):
    """a call of a closure value (`resolver(&id)`): the value the closure returns for these arguments, else None"""
    v = strip(v)
    if v[0] != 'call' or len(v[2]) != 2:
        return None
    g = sl.prog.fns.get(v[1])
    if (g is None or g.kind != 'Closure') and v[1] not in FN_CALL:
        return None
    recv, tv = strip(v[2][0]), strip(v[2][1])
    if recv[0] == 'call':
        recv = strip(sl.inline_call(recv) or ('unknown', 'recv'))
    if recv[0] != 'closure' or tv[0] != 'tuple':
        return None
    return sl.apply_closure(recv, tv[1])


# ---- robustness round 4: path normal form, element-wise stages ------------------------------------------------
_ELEMENTWISE = {IT + n for n in ('map', 'inspect', 'cloned', 'copied', 'enumerate', 'rev', 'peekable', 'by_ref', 'fuse')}
_OK_PRESERVING = ('std::result::Result::<T, E>::map_err',)


def reopen(sl, it):
    """an Iteration that decompose() leaves opaque only because of element-wise stages (map / inspect / cloned / .. and
    collect round trips: one output element per input element, in order, none dropped): its selection *can* be stated —
    the elements of the base collection that pass the filter stages (each filter read on the element of its own receiver),
    the element value being the stages applied to it.  (`for (a, b) in &pairs` over `pairs = xs.iter().map(|x| ..)
    .collect::<Vec<_>>()` is the same iteration as `for x in &xs`; `xs.iter().filter(p).map(f).collect()` then a loop is
    `for x in xs.iter().filter(p)`.)"""
    if it is None or not it.opaque or it.recv is None:
        return it
    v = it.nrecv
    filters = []
    for _ in range(24):
        v = strip(v)
        if v[0] != 'call' or not v[2]:
            break
        name = v[1]
        if name == IT + 'filter' and len(v[2]) == 2:
            filters.append((v[2][1], v[2][0]))
            v = v[2][0]
        elif name in _ELEMENTWISE or name in iters.COLLECTING or name in iters.SAME or \
                (iters._is_source(name) and name.endswith(iters.SAME_ELEMS) and len(v[2]) == 1):
            v = v[2][0]
        else:
            break
    if v[0] == 'call' and v[1].startswith(('std::iter::', 'core::iter::')):
        return it     # another adapter (take, zip, chain, filter_map, ..): stays as decompose left it
    if any(st[3] for st in iters.stages(strip(it.nrecv), with_stop=True)):
        return it
    al = iters.alts(sl, it.nrecv)
    if len(al) != 1 or al[0][1] is None or bool(al[0][2]) != bool(filters):
        return it
    if it.nrecv is not it.recv:
        al0 = iters.alts(sl, it.recv)
        if len(al0) == 1:
            al = [(al0[0][0], al[0][1], al[0][2])]
    preds = []
    for clv, rv in filters:
        ra = iters.alts(sl, rv)
        r = sl.apply_closure(clv, (ra[0][0],)) if len(ra) == 1 else None
        if r is None:
            return it
        preds.append(_peel_not(r))
    it.base, it.elem, it.preds, it.opaque = al[0][1], al[0][0], preds, False
    return it


def elementwise_base(v, mats=None):
    """the iterated expression a collection is derived from *element by element* (map / cloned / inspect / collect round
    trips: one output element per input element, none dropped or added): `xs.iter().map(f).collect::<Vec<_>>()` -> `xs.iter()`
    (filters and everything below stay, for decompose); None when a stage that is not element-wise is met; the collected
    intermediate collections passed on the way are appended to `mats`"""
    for _ in range(24):
        s_ = strip(v)
        if s_[0] != 'call' or not s_[2]:
            return v
        name = s_[1]
        if name in (IT + 'map', IT + 'inspect') and len(s_[2]) == 2:
            v = s_[2][0]
        elif name in iters.COLLECTING or name in iters.SAME or (name in _ELEMENTWISE and len(s_[2]) == 1 and name != IT + 'enumerate'):
            if name in iters.COLLECTING and mats is not None:
                mats.append(s_)         # a materialised intermediate collection (see never_mutated)
            v = s_[2][0]
        elif iters._is_source(name) and name.endswith(iters.SAME_ELEMS) and len(s_[2]) == 1:
            inner = strip(s_[2][0])
            if inner[0] == 'call' and (inner[1] in iters.COLLECTING or inner[1].startswith('std::iter::')):
                v = s_[2][0]        # `.collect::<Vec<_>>().iter()`: go on below the round trip
            else:
                return v
        elif name.startswith(('std::iter::', 'core::iter::')) and name != IT + 'filter':
            return None
        else:
            return v
    return None


def never_mutated(prog, v):
    """v = a collection made by a call at a known site (`.collect()`, `from_iter(..)`): the object the result lands in (the
    call's destination, followed through plain moves / copies of the whole value) is never mutably borrowed in that function
    — nothing is pushed / extended / removed after it was built, which the slicer's value would not show.
    True / False; None when the site or the destination is not known"""
    from .lib.mir import _rvalue_places
    v = strip(v)
    if v[0] != 'call' or len(v) < 4 or v[3] is None:
        return None
    f = prog.fns.get(v[3][0])
    c = f.call_at(v[3][1]) if f is not None else None
    d = getattr(c, 'dest', None) if c is not None else None
    if not d or len(d) != 1 and any(d[1:]):
        return None
    objs = {d[0]}
    for _ in range(8):
        n = len(objs)
        for b in f.blocks:
            for st in b['s']:
                if st[0] == '=' and st[2]['r'] == 'use' and len([x for x in st[1][1:] if x]) == 0:
                    pl = op_place(st[2]['o'])
                    if pl and pl[0] in objs and not [x for x in pl[1:] if x]:
                        objs.add(st[1][0])
        if len(objs) == n:
            break
    for b in f.blocks:
        for st in b['s']:
            if st[0] == '=':
                for pl, how in _rvalue_places(st[2]):
                    if pl and pl[0] in objs and how in ('refmut', 'rawptr'):
                        return False
    return True


def entry_of(it):
    """the element of the base collection an iteration's element is derived from (`unwrap(next(base))`), else its element"""
    if it.elem is None or it.base is None:
        return it.elem
    for x in walk(it.elem):
        if isinstance(x, tuple) and x and x[0] == 'unwrap' and x[1][0] == 'call' and x[1][1] == 'std::iter::Iterator::next' and x[1][2] and same(x[1][2][0], it.base):
            return x
    return it.elem


def selection_open(E, e):
    """selection() with element-wise stages seen through (reopen)"""
    sel = selection(E, e)
    for it in sel.iterations:
        reopen(E.slicer, it)
    return sel


# The slicer reads a buffer that is pushed to (`PathBuf::push`, `String::push_str`) flow-insensitively: its value is the
# base with *all* pushes of the function, wherever it is read.  For a path that is read between two pushes
# (`p.push("bin"); create_dir_all(&p); p.push("build"); copy(.., &p)`) the value at the read is the base with the pushes
# that have happened by then.  (Local workaround: lib/value.py `_with_updates` would ideally take the reading position.)
def _read_blocks(f, op, local, bb, seen=None, depth=0):
    """blocks in which `local` is read on the way into operand `op` used in block bb (through reference / copy
    temporaries and the arguments of calls whose result flows into the operand)"""
    from .lib.mir import _rvalue_places
    seen = set() if seen is None else seen
    pl = op_place(op) if isinstance(op, dict) else op
    if not pl:
        return set()
    t = pl[0]
    if t == local:
        return {bb}
    if (t, bb) in seen or depth > 10 or t <= f.argc:
        return set()
    seen.add((t, bb))
    out = set()
    for d in list(f.whole_defs(t)) + list(f.partial_defs(t)):
        if d[0] == 'stmt':
            for p2, how in _rvalue_places(d[3]):
                out |= _read_blocks(f, p2, local, d[1], seen, depth + 1)
        elif d[0] == 'call' and d[3] is not None:
            for a in d[3].args:
                out |= _read_blocks(f, a, local, d[1], seen, depth + 1)
    return out


def _appends_before(E, f, app, B):
    """indices of the appends that have happened whenever block B runs; None when some append may or may not have"""
    kept = []
    for i, c in enumerate(app):
        if c.bb != B and f.dominates(c.bb, B) and not f.in_loop(c.bb):
            kept.append(i)
        elif c.bb == B:
            if f.in_loop(B):
                return None
        elif B in f.reachable(c.bb):
            return None
    return tuple(kept)


def site_fix(E, e, v):
    """value v of effect e (its path / an argument, in the entry function's terms) with every push-built buffer read as
    of the point where it is read for this effect; None when that cannot be decided"""
    if v is None or not any(isinstance(x, tuple) and x and x[0] == 'concat' for x in walk(v)):
        return v
    sl = E.slicer
    for call, m in levels(e):
        f = call.fn
        sl._appends(f, -1)
        idx = sl._cache.get(('appends', f.path)) or {}
        for local, app in idx.items():
            raw = strip(sl.local(f, local))
            if raw[0] != 'concat' or len(raw[2]) != len(app):
                continue
            whole = E.subst(raw, m)
            if not any(x == whole for x in walk(v)):
                continue
            reads = set()
            for a in call.args:
                reads |= _read_blocks(f, a, local, call.bb)
            if not reads:
                return None
            ks = {_appends_before(E, f, app, B) for B in reads}
            if len(ks) != 1 or None in ks:
                return None
            kept = ks.pop()
            cut = E.subst(('concat', raw[1], tuple(raw[2][i] for i in kept), raw[3]) if kept else raw[1], m)
            v = _rewrite_all(v, lambda x: cut if x == whole else None)
    return v


def open_views(sl, p):
    """pred_views plus, for a test that calls a local closure / closure value directly (`let is_selected = |id| ..;
    if is_selected(id)`), what the closure returns for these arguments"""
    out = []
    for v, oc in pred_views(p):
        out.append((v, oc))
        w = _map_values(v, lambda x: call_closure_value(sl, x))
        if w != v:
            w, woc = _peel_not(strip(w), oc)
            out.append((w, woc))
    return out


_SAME_VALUE_FN = ('::clone', '::to_owned', '::to_path_buf', '::into', '::from', '::to_string', '::as_ref', '::borrow')


def _identity_fn(sl, f):
    """f maps a value to (a copy / conversion of) the same path: `Clone::clone`, `|p| p.to_path_buf()`, .."""
    f = strip(f)
    if f[0] == 'fnitem':
        return f[1].endswith(_SAME_VALUE_FN)
    if f[0] == 'closure':
        probe = ('unknown', '__probe__')
        r = sl.apply_closure(f, (probe,))
        return r is not None and peel_path(r) == probe
    return False


def option_default(sl, v):
    """`opt.unwrap_or(d)` / `opt.unwrap_or_else(|| d)` / `opt.map_or(d, same)` / `opt.map_or_else(|| d, same)` (same: a
    copy / conversion of the payload) -> (opt, d); None for anything else"""
    v = strip(v)
    if v[0] != 'call' or not v[2]:
        return None
    short = v[1].rsplit('::', 1)[1]
    if not ('Option' in v[1]):
        return None
    dflt = None
    if short in ('unwrap_or', 'unwrap_or_else') and len(v[2]) == 2:
        dflt = v[2][1]
    elif short in ('map_or', 'map_or_else') and len(v[2]) == 3 and _identity_fn(sl, v[2][2]):
        dflt = v[2][1]
    if dflt is None:
        return None
    d = strip(dflt)
    if short in ('unwrap_or_else', 'map_or_else'):
        if d[0] != 'closure':
            return None
        d = strip(sl.apply_closure(d, ()) or ('unknown',))
    elif d[0] == 'closure':
        d = strip(sl.apply_closure(d, ()) or ('unknown',))
    return v[2][0], d


_FOLD = (IT + 'try_fold', IT + 'fold')


def fold_accumulator(sl, v):
    """v = `iter.fold(init, |acc, x| { ..; acc })` / `iter.try_fold(init, |mut acc, x| { ..; Ok(acc) })?` whose closure hands
    back its own accumulator on every success: the result *is* that accumulator (the object the closure body fills)
    -> ('param', closure path, 1) pattern as (closure path), else None"""
    v = strip(v)
    if v[0] != 'call' or v[1] not in _FOLD or len(v[2]) != 3:
        return None
    clo = strip(v[2][2])
    g = sl.prog.fns.get(clo[1]) if clo[0] == 'closure' else None
    if g is None:
        return None
    ret = sl.local(g, 0)
    if v[1].endswith('try_fold'):
        ret = sl.mk_unwrap(ret, 1)
    ret = strip(ret)
    if ret[0] == 'param' and ret[1] == g.path and ret[2] == 1:
        return g.path
    return None


def same_collection(sl, a, b):
    """same_through_helpers, or: one is the accumulator parameter of a fold closure and the other that fold's result"""
    if same_through_helpers(sl, a, b):
        return True
    for x, y in ((a, b), (b, a)):
        gp = fold_accumulator(sl, x)
        y = strip(y)
        if gp is not None and y[0] == 'param' and y[1] == gp and y[2] == 1:
            return True
    return False


def _project(sl, v):
    """`<x>.k` where x is (the success payload of) a tuple / struct that is known: the component"""
    if v[0] != 'field' or not isinstance(v[2], str):
        return None
    b = v[1]
    if b[0] == 'unwrap':
        b = strip(sl.mk_unwrap(b[1], 1))
    else:
        b = strip(b)
    if b[0] in ('tuple', 'agg'):
        r = sl._field(b, v[2])
        if r is not None and r != v and r[0] != 'field':
            return r
        if r is not None and r[0] == 'field' and r[1] is not b:
            return r
    return None


def deep_nf(sl, v, keep=None):
    """norm (closure calls applied, private helpers inlined) plus projections resolved: a value handed back inside a tuple /
    private struct by a helper or a local closure (`let (a, b) = helper()?`, `helper().map(|b| (a, b))?`) is the value
    that was put in"""
    if v is None:
        return None
    keep = KEEP if keep is None else keep
    for _ in range(3):
        v0 = v
        v = norm(sl, v, keep)
        v = _rewrite_all(v, lambda x: _project(sl, x))
        if v == v0:
            break
    return v


def option_arms_of_value(E, e, idx, is_subject):
    """the argument `idx` of effect e's own call is a value produced by a decision on an Option selected by `is_subject`
    (`let d = if let Some(p) = &opt { p.clone() } else { dflt };` / a `match`): -> {'Some': [values], 'None': [values]} in the
    entry function's terms, or None when it is not such a value (or an arm cannot be attributed)"""
    sl = E.slicer
    c, m = levels(e)[-1]
    f = c.fn
    if idx >= len(c.args):
        return None
    loc = phi_local_of(f, c.args[idx], through_proj=False)
    if loc is None:
        return None
    out = {'Some': [], 'None': []}
    for bi, v, conds in arm_defs(f, loc, sl):
        side = set()
        for cd in conds:
            if cd.kind == 'variant' and cd.subject is not None:
                sj = strip(E.subst(cd.subject, m))
                while sj[0] == 'call' and len(sj[2]) == 1 and sj[1].endswith(_OPT_VIEW):
                    sj = strip(sj[2][0])
                if is_subject(sj) and isinstance(cd.outcome, frozenset) and len(cd.outcome) == 1:
                    side |= set(cd.outcome)
            elif cd.kind == 'bool':
                for x, oc in cd.views():
                    x, oc = _peel_not(E.subst(x, m), oc)
                    x = strip(x)
                    if x[0] == 'call' and len(x[2]) == 1 and x[1].endswith(('::is_some', '::is_none')) and is_subject(x[2][0]) and isinstance(oc, bool):
                        side.add('Some' if (oc == x[1].endswith('::is_some')) else 'None')
        if len(side) != 1 or next(iter(side)) not in out:
            return None
        out[next(iter(side))].append(E.subst(v, m))
    return out


def ok_gates(E, f, bb):
    """boolean decisions guaranteed at block bb of f by *gate* calls: a private workspace function g returning a Result that
    is called on every path to bb and whose success (`g(..)?` / the Ok arm) bb lies under — whatever holds at every success
    site of g holds at bb (`ensure_target_exists(&names, &t)?; build(t)` is `if names.contains(&t) { build(t) } else
    { return Err(..) }`).  -> [[(value in f's terms, outcome) views]]"""
    sl = E.slicer
    out = []
    conds = conditions(f, bb, sl)
    for c in f.calls:
        if c.indirect or c.bb == bb or not f.dominates(c.bb, bb) or not (c.dty or '').startswith('std::result::Result<'):
            continue
        gs = [g for g in E.prog.callee_fns(c) if g.kind != 'Closure' and g is not f]
        if len(gs) != 1:
            continue
        g = gs[0]
        site = (f.path, c.bb)
        passed = any(cd.kind == 'variant' and cd.subject is not None and cd.outcome in (frozenset({'Continue'}), frozenset({'Ok'})) and
                     any(isinstance(x, tuple) and x and x[0] == 'call' and len(x) == 4 and x[3] == site for x in walk(cd.subject)) for cd in conds)
        sites = E.sites(g)
        if not passed or not sites:
            continue
        m = E.call_mapping(f, c, g, {})
        common, keep = None, {}
        for st in sites:
            cur = {}
            for cd in conditions(g, st.bb, sl):
                if cd.kind == 'bool':
                    cur[(canon(strip(cd.value)), cd.outcome)] = cd
            common = set(cur) if common is None else (common & set(cur))
            keep.update(cur)
        for k in (common or ()):
            out.append([(E.subst(v, m), oc) for v, oc in keep[k].views()])
    return out


def handle_writes(E, effs, cr):
    """the WRITE_ALL effects (vocabulary entry `std::io::Write::write_all`) among `effs` whose receiver is the file handle
    opened by effect `cr` (`File::create(..)?` — the handle is the success payload of that very call site, possibly behind
    a BufWriter / &mut borrow)"""
    site = (cr.call.fn.path, cr.call.bb)
    out = []
    for x in effs:
        if x.kind != 'WRITE_ALL' or x.call is None or x.path is None or x.call.fn is not cr.call.fn:
            continue
        hv = strip(E.slicer.operand(x.call.fn, x.call.args[0])) if x.call.args else ('unknown',)
        for _ in range(4):
            if hv[0] == 'call' and len(hv[2]) == 1 and hv[1].endswith(('BufWriter::<W>::new', '::by_ref', '::as_mut', '::deref_mut', '::borrow_mut')):
                hv = strip(hv[2][0])
        if hv[0] == 'call' and len(hv) == 4 and hv[3] == site:
            out.append(x)
    return out


def follows_on_success(E, a, b):
    """a and b are calls of the same function f: b runs after a on every path from a to a success of f (so that f cannot
    succeed having done a without b), and not before it"""
    f = a.call.fn
    if b.call.fn is not f or a.call.bb == b.call.bb or not f.dominates(a.call.bb, b.call.bb):
        return False
    sites = [s.bb for s in E.sites(f)] or list(f.return_blocks())
    return bool(sites) and always_through(f, a.call.bb, b.call.bb, sites)


def binaries_fields(prog, bbf):
    """(type path, field holding the main binary's path, field holding the additional binaries' map) of the struct
    build_buildpack_binaries hands back — by field *type* (one PathBuf, one map), so that renamed fields are still read"""
    dflt = ('BuildpackBinaries', 'buildpack_target_binary_path', 'additional_target_binary_paths')
    for path, a in prog.adts.items():
        if a.get('kind') != 'struct' or path not in (bbf.ret or '') or len(a.get('variants', ())) != 1:
            continue
        fs = a['variants'][0]['fields']
        mains = [f['name'] for f in fs if f.get('head') == 'std::path::PathBuf']
        maps = [f['name'] for f in fs if str(f.get('head', '')).endswith(('::HashMap', '::BTreeMap')) and 'std::path::PathBuf' in f.get('ty', '')]
        if len(mains) == 1 and len(maps) == 1:
            return path, mains[0], maps[0]
    return dflt


def membership(sl, v, oc):
    """(collection, item, outcome) when the decision (v, oc) reads `item is among collection`:
    `coll.contains(&x)`, `coll.iter().any(|e| e == x)` (either operand order, `!=` negated)"""
    v, oc = _peel_not(strip(v), oc)
    v = strip(v)
    if v[0] != 'call':
        return None
    if v[1].endswith('::contains') and len(v[2]) == 2:
        return v[2][0], v[2][1], oc
    if v[1] == IT + 'any' and len(v[2]) == 2:
        base, filters, opaque = decompose(sl, v[2][0])
        ra = iters.alts(sl, v[2][0])
        if filters or opaque or len(ra) != 1 or ra[0][2]:
            return None
        el = ra[0][0]
        r = sl.apply_closure(v[2][1], (el,))
        if r is None:
            return None
        r, roc = _peel_not(strip(r), True)
        r = strip(r)
        if r[0] == 'call' and len(r[2]) == 2 and ((r[1].endswith('::eq') and roc is True) or (r[1].endswith('::ne') and roc is False)):
            a, b = peel_path(r[2][0]), peel_path(r[2][1])
            if same(a, el) and not any(same(x, el) for x in walk(b)):
                return base, b, oc
            if same(b, el) and not any(same(x, el) for x in walk(a)):
                return base, a, oc
    return None


_JOIN = 'std::path::Path::join'


def _pathish(prog, v):
    """is value v a path (so that pushing onto a copy of it is `join`, not string concatenation)"""
    v = strip(v)
    if v[0] == 'call':
        if len(v) == 4 and v[3] is not None:
            f = prog.fns.get(v[3][0])
            c = f.call_at(v[3][1]) if f is not None else None
            if c is not None and c.dty:
                return 'PathBuf' in c.dty or c.dty.endswith('::Path')
        g = prog.fns.get(v[1])
        return g is not None and 'PathBuf' in (g.ret or '')
    if v[0] == 'param':
        f = prog.fns.get(v[1])
        return f is not None and v[2] < len(f.args) and 'Path' in str(f.args[v[2]])
    return False


def _path_rewrite(v, prog=None):
    """path-building spellings as `join` chains: a PathBuf built by push -> join(join(base, a), b);
    join(x, n).with_file_name(m) -> join(x, m) (n a single literal component)"""
    if v[0] == 'concat' and len(v) >= 3 and v[2]:
        if prog is None or (len(v) > 3 and v[3]) or not _pathish(prog, v[1]):
            return None        # a string buffer / pushes onto a fresh (empty) buffer
        out = v[1]
        for x in v[2]:
            out = ('call', _JOIN, (out, x), None)
        return out
    if v[0] == 'call' and v[1].endswith('::with_file_name') and len(v[2]) == 2:
        r = peel_path(v[2][0])
        if r[0] == 'call' and r[1].endswith('::join') and len(r[2]) == 2:
            c = const_of(r[2][1])
            if isinstance(c, str) and c and '/' not in c and c not in ('.', '..'):
                return ('call', _JOIN, (r[2][0], v[2][1]), None)
    return None


def _rewrite_all(v, f, depth=0):
    """bottom-up rewriting of every sub-value"""
    if not isinstance(v, tuple) or not v or depth > 40:
        return v
    if isinstance(v[0], str) and v[0] in ('const', 'param', 'fnitem', 'constitem', 'unknown', 'closure_env', 'upvar'):
        return v
    v = tuple(_rewrite_all(x, f, depth + 1) if isinstance(x, tuple) else x for x in v)
    if isinstance(v[0], str):
        r = f(v)
        if r is not None:
            return r
    return v


def path_nf(sl, v, keep=()):
    """a path value in normal form: local closures applied, private helpers / layout structs / tuples inlined, push-built
    buffers and with_file_name as join chains"""
    if v is None:
        return None
    v = norm(sl, v, keep)
    return _rewrite_all(v, lambda x: _path_rewrite(x, sl.prog))


def comps_nf(sl, v, is_root, keep=()):
    """components of a path value (any spelling, see path_nf) below a root: literal components as str, others as values;
    None when it does not lie below the root"""
    if v is None:
        return None
    cs = path_comps(path_nf(sl, v, keep), lambda r: is_root(strip(r)))
    if cs is None:
        return None
    return tuple(const_of(x) if isinstance(const_of(x), str) else strip(x) for x in cs)


# ---- R7 / R8: every node is packaged; end-to-end normal forms in `execute`'s terms ---------------------------
GD = 'libcnb_package::dependency_graph::get_dependencies'
GRAPH = 'libcnb_package::buildpack_dependency_graph::build_libcnb_buildpacks_dependency_graph'
AP = 'libcnb_package::util::absolutize_path'
WR = 'libcnb_package::find_cargo_workspace_root_dir'
DETERMINE = 'libcnb_package::cargo::determine_buildpack_cargo_target_name'
NAMES = 'libcnb_package::cargo::cargo_binary_target_names'
BBB = 'libcnb_package::build::build_buildpack_binaries'
KEEP = (GD, GRAPH, AP, WR, DETERMINE, NAMES)
MUT = {'REMOVE_FILE', 'REMOVE_DIR', 'REMOVE_TREE', 'CHMOD', 'MKDIR', 'WRITE', 'RENAME', 'OPEN'}


def _w(f):
    return '%s:%d' % (f.file, f.line)


def norm(sl, v, keep=KEEP):
    """value with closure calls applied and private / workspace helpers inlined (except the ones in `keep`)"""
    if v is None:
        return None
    for _ in range(3):
        v0 = v
        v = _map_values(v, lambda x: call_closure_value(sl, x))
        v = sl.inline_deep(v, depth=8, keep=keep)
        if v == v0:
            break
    return v


def _map_values(v, f, depth=0):
    if not isinstance(v, tuple) or not v or depth > 40:
        return v
    if isinstance(v[0], str) and v[0] == 'call':
        r = f(v)
        if r is not None:
            return _map_values(r, f, depth + 1)
    if isinstance(v[0], str) and v[0] in ('const', 'param', 'fnitem', 'constitem', 'unknown', 'closure_env', 'upvar'):
        return v
    return tuple(_map_values(x, f, depth + 1) if isinstance(x, tuple) else x for x in v)


def node_of(v, field):
    """v = <node>.<field> (conversions peeled) -> <node>"""
    v = peel_path(v)
    if v[0] == 'field' and v[2] == field:
        return strip(v[1])
    return None


def rules_e2e(ctx, rep, ex, dest):
    prog, sl = ctx.prog, subtype_slicer(ctx.slicer)
    from .lib.effects import Effects
    rep.rule('R8', 'end to end, in `execute`\'s terms: what is copied / built for a node comes from that node\'s own directory and lands in that node\'s output directory')
    E = Effects(prog, sl)
    may = expand(E, ex, 'may')
    if dest is None:
        rep.unproven('R8', 'destination', _w(ex), 'no destination value (see R1)')
        return
    # the functions providing the binary target names / the buildpack's own target stay opaque anchors (R10 decides on them)
    roles = find_roles(prog, sl)
    keep = tuple(KEEP) + roles.keep()
    nrm = lambda v_: path_nf(sl, v_, keep)
    nd = nrm(dest)
    is_pkgdir = lambda v: (v[0] == 'call' and v[1] == AP) or (v[0] == 'phi' and v[1] and all(strip(x)[0] == 'call' and strip(x)[1] == AP for x in v[1]))
    dc = path_comps(nd, is_pkgdir)
    node = None
    ok = False
    detail = vstr(nd)[:300]
    if dc:
        last = strip(dc[-1])
        if last[0] == 'call' and last[2] and '::replace' in last[1]:
            node = node_of(last[2][0], 'buildpack_id')
        if node is not None and last[1].endswith('::replace') and len(last[2]) == 3:
            pat, rp = const_of(last[2][1]), const_of(last[2][2])
            ok = pat == '/' and isinstance(rp, str) and '/' not in rp and \
                not any(same(x, node) for c in dc[:-1] for x in walk(c) if isinstance(x, tuple) and x and x[0] in ('unwrap', 'call', 'field'))
    if node is None:
        rep.unproven('R8', 'dest-shape', _w(ex), 'the output directory is not <package dir>/../<name derived from the node\'s buildpack id>: %s' % detail)
        return
    rep.check(ok, 'R8', 'dest-shape', _w(ex), 'output directory = <package dir>/<..>/<buildpack id with every "/" replaced>: one directory per id, none inside another',
              'the directory name is not the buildpack id with every "/" replaced (ids with several "/" nest inside / collide with other output directories): %s' % vstr(dc[-1])[:200])
    under = lambda v: path_comps(nrm(v), lambda r: same(r, nd))
    _pc = {}

    def under_e(e):
        # the effect's path as of the point where a push-built buffer is read for it (site_fix)
        if id(e) not in _pc:
            fx = site_fix(E, e, e.path)
            _pc[id(e)] = under(fx if fx is not None else e.path)
        return _pc[id(e)]
    in_loop = lambda e: bool(selection(E, e).iterations)
    # everything that is mutated while a node is packaged lies in that node's output directory
    outside = [e for e in may if e.kind in MUT and e.path is not None and in_loop(e) and under_e(e) is None]
    rep.check(not outside, 'R8', 'inside-dest', outside[0].where() if outside else _w(ex), 'every file-system mutation of the packaging loop lies in the node\'s output directory',
              'the packaging loop mutates paths outside the node\'s output directory: %s' % '; '.join('%s %s' % (e.kind, vstr(nrm(e.path))[:120]) for e in outside[:3]))
    # buildpack.toml <- <node dir>/buildpack.toml, same node
    copies = [e for e in may if e.call is not None and e.call.is_('std::fs::copy') and e.args]
    desc = [e for e in copies if under_e(e) is not None and tuple(const_of(x) for x in under_e(e)) == ('buildpack.toml',)]
    good = bool(desc)
    for e in desc:
        sc = path_comps(nrm(e.args[0]), lambda r: node_of(r, 'path') is not None and same(node_of(r, 'path'), node))
        good = good and sc is not None and tuple(const_of(x) for x in sc) == ('buildpack.toml',)
    rep.check(good, 'R8', 'descriptor-source', desc[0].where() if desc else _w(ex), 'buildpack.toml of a node is copied from that node\'s own directory (%d writer(s))' % len(desc),
              'buildpack.toml in the output directory is not a copy of <node.path>/buildpack.toml of the node being packaged')
    # bin/build <- <target dir of the node's own cargo metadata>/<triple>/<profile dir>/<main target of that metadata>
    mains = [e for e in copies if under_e(e) is not None and tuple(const_of(x) for x in under_e(e)) == ('bin', 'build')]
    spawns = [e for e in may if e.kind == 'SPAWN' and in_loop(e)]
    triples = []
    good = bool(spawns)
    why = []
    for e in spawns:
        cp = command_parts(nrm(e.path))
        consts = [const_of(a) for a in cp['args']]
        tv = cp['args'][consts.index('--target') + 1] if '--target' in consts and consts.index('--target') + 1 < len(consts) else None
        cwd_ok = cp['cwd'] is not None and node_of(cp['cwd'], 'path') is not None and same(node_of(cp['cwd'], 'path'), node)
        this = const_of(cp['program']) == 'cargo' and consts[:1] == ['build'] and tv is not None and not cp['opaque'] and cwd_ok
        if not this:
            why.append('program=%s argv=%s cwd=%s' % (vstr(cp['program'] or ('unknown', '?'))[:30], [c if c is not None else '<value>' for c in consts], vstr(cp['cwd'] or ('unknown', 'none'))[:80]))
        good = good and this
        if tv is not None:
            triples.append(tv)
    rep.check(good, 'R8', 'cargo-build', spawns[0].where() if spawns else _w(ex), '`cargo build --target <triple>` runs in the directory of the node being packaged',
              'the build of a node is not `cargo build --target <triple>` in that node\'s directory: %s' % ('; '.join(why) or 'no build command'))
    good = bool(mains)
    why = ''
    for e in mains:
        sv = nrm(e.args[0])
        holder = []

        def is_td(r, holder=holder):
            if r[0] == 'field' and r[2] == 'target_directory':
                holder.append(strip(r[1]))
                return True
            return False
        sc = path_comps(sv, is_td)
        this = sc is not None and len(sc) == 3 and bool(holder)
        if this:
            md = holder[0]
            own = False
            for x in walk(md):
                if x[0] == 'call' and x[1].endswith('MetadataCommand::manifest_path') and len(x[2]) == 2:
                    mc = path_comps(x[2][1], lambda r: node_of(r, 'path') is not None and same(node_of(r, 'path'), node))
                    own = own or (mc is not None and tuple(const_of(c) for c in mc) == ('Cargo.toml',))
                if x[0] == 'call' and x[1].endswith('MetadataCommand::current_dir') and len(x[2]) == 2:
                    own = own or (node_of(x[2][1], 'path') is not None and same(node_of(x[2][1], 'path'), node))
            t = sc[2]
            this = own and any(same(sc[0], tv) for tv in triples) and select_map(sc[1]) == {'Release': 'release', 'Dev': 'debug'} and \
                roles.main is not None and role_of(prog, t, lambda a: same(a, md)) == roles.main
        if not this:
            why = vstr(sv)[:400]
        good = good and this
    rep.check(good, 'R8', 'main-binary-source', mains[0].where() if mains else _w(ex),
              'bin/build <- <target dir of the node\'s own manifest>/<triple that was built>/<debug|release by profile>/<main target of that manifest>',
              'bin/build is not copied from the artifact `cargo build` produced for this node (target directory of the node\'s own Cargo.toml / built triple / profile directory / determined main target): %s' % why)


# ---- R9: build_binary ---------------------------------------------------------------------------------------
BUILD = 'libcnb_package::build::build_binary'
_RES_CLOSURE = ('::and_then', '::map', '::and', '::then', '::then_some')


def success_points(E, fn, depth=0):
    """[(fn, bb)] where a success value of fn comes into being: its own `Ok(..)` / plain value sites, and — when the value
    is the result of `x.and_then(closure)` / `x.map(closure)` in tail position — the success sites of that closure"""
    out = []
    sl = E.slicer
    for st in E.sites(fn):
        done = False
        if st.kind == 'tail' and st.call is not None and depth < 4 and (st.call.decl or '').endswith(('::and_then', '::map')):
            for a in st.call.args[1:]:
                v = strip(sl.operand(fn, a))
                g = E.prog.fns.get(v[1]) if v[0] == 'closure' else None
                if g is not None:
                    out.extend(success_points(E, g, depth + 1))
                    done = True
        if not done:
            out.append((fn, st.bb))
    return out


def rules_build_binary(ctx, rep):
    prog, sl = ctx.prog, subtype_slicer(ctx.slicer)
    from .lib.effects import Effects
    rep.rule('R9', 'build_binary: the artifact path handed back is the one `cargo build` wrote for this triple / profile / target, and only after a successful build')
    bf = prog.fns.get(BUILD)
    if bf is None:
        rep.unproven('R9', 'build_binary', '-', 'libcnb_package::build::build_binary not found')
        return
    rep.analysed(bf)
    E = Effects(prog, sl)
    fns = [bf] + prog.closures_of(bf)
    is_param = lambda i: (lambda v: strip(peel_path(v))[0] == 'param' and strip(peel_path(v))[1] == bf.path and strip(peel_path(v))[2] == i)
    # (a) success only after a successful cargo run
    pts = success_points(E, bf)
    good = bool(pts)
    for g, bb in pts:
        this = False
        for cd in conditions_ctx(prog, g, bb, sl):
            if cd.kind != 'bool':
                continue
            for v, oc in cd.views():
                v, oc = _peel_not(v, oc)
                v = strip(v)
                if v[0] == 'call' and v[1] == 'std::process::ExitStatus::success' and oc is True and v[2] and \
                        any(x[0] == 'call' and x[1] in ('std::process::Command::spawn', 'std::process::Command::status', 'std::process::Command::output') for x in walk(v[2][0])):
                    this = True
        good = good and this
    rep.check(good, 'R9', 'exit-status', _w(bf), 'the binary path is handed back only when cargo\'s exit status is success()',
              'build_binary can return Ok(<binary path>) although `cargo build` did not exit successfully: a stale artifact of an earlier build would be packaged')
    # (b) the path
    rv = path_nf(sl, sl.mk_unwrap(sl.local(bf, 0), 1))      # helpers inlined, a push-built buffer as a join chain
    sc = path_comps(rv, lambda r: r[0] == 'field' and r[2] == 'target_directory' and is_param(1)(r[1]))
    dirs = select_map(sc[1]) if sc is not None and len(sc) == 3 else None
    subj = strip(strip(sc[1])[1]) if dirs is not None else None
    ok = dirs == {'Release': 'release', 'Dev': 'debug'} and is_param(4)(sc[0]) and is_param(5)(sc[2]) and is_param(2)(subj)
    rep.check(ok, 'R9', 'binary-path', _w(bf), '<metadata.target_directory>/<target triple>/<debug|release by profile>/<target name>',
              'the path handed back is not <metadata.target_directory>/<target_triple>/<debug for Dev, release for Release>/<target_name>: %s' % vstr(rv)[:300])
    # (c) `--release` is passed exactly for the profile whose artifacts are read from release/: every call that is handed
    # the literal, in build_binary or in a private helper it calls, as an effect of build_binary with the decisions taken at
    # every level of the call chain in build_binary's terms
    reach = prog.reach([bf])
    lit_calls = [(g, c, i) for g in reach.values() for c in g.calls for i, a in enumerate(c.args) if const_of(sl.operand(g, a)) == '--release']
    anywhere = any(x[0] == 'const' and x[1] == '--release' for g in reach.values() for b in g.blocks for st in b['s'] if st[0] == '='
                   for x in walk(sl._rvalue(g, st[2], set(), 0, None)))
    if not lit_calls and anywhere:
        rep.unproven('R9', 'release-flag', _w(bf), 'the literal --release is used in a way the rule cannot read (not a plain argument of a call)')
        return
    vocab = {}
    for g, c, i in lit_calls:
        if c.name:
            vocab.setdefault(c.name, ('FLAG', i))
    E9 = Effects(prog, sl, vocab=vocab) if vocab else E
    flag, unreadable = set(), False
    for e in expand(E9, bf, 'may'):
        if e.kind != 'FLAG' or const_of(e.path) != '--release':
            continue
        vs = None
        for cd, views, subj in guards_of(E9, e):
            if cd.kind == 'variant' and subj is not None and is_param(2)(strip(subj)):
                vs = set(cd.outcome) if vs is None else (vs & set(cd.outcome))
            elif cd.kind == 'bool':
                for v, oc in views:
                    v, oc = _peel_not(v, oc)
                    v = strip(v)
                    if v[0] == 'call' and v[1].endswith(('::eq', '::ne')) and len(v[2]) == 2:
                        a, b = strip(v[2][0]), strip(v[2][1])
                        if is_param(2)(b):
                            a, b = b, a
                        if is_param(2)(a):
                            if b[0] == 'agg' and isinstance(oc, bool):
                                cur = {b[2]} if (oc == v[1].endswith('::eq')) else ({'Dev', 'Release'} - {b[2]})
                                vs = cur if vs is None else (vs & cur)
                            else:
                                unreadable = True
                        break
        flag |= ({'Dev', 'Release'} if vs is None else vs)
    want = {k for k, d in (dirs or {}).items() if d == 'release'}
    if unreadable:
        rep.unproven('R9', 'release-flag', _w(bf), 'the condition under which --release is passed cannot be read')
    else:
        rep.check(dirs is not None and flag == want == {'Release'}, 'R9', 'release-flag', _w(bf), '`--release` is passed exactly when the artifact is read from release/ (profile Release)',
                  '`--release` is passed for profile(s) %s but the artifact is read from release/ for %s: the binary that is packaged is not the one that was just built' % (sorted(flag) or 'none', sorted(want) or 'none'))


# ---- roles: which workspace function provides "the binary target names" / "the buildpack's own target" ----------
# The obligations R4 / R8 / R10 are about two *values* — the names of the crate's binary targets and the one of them that
# is the buildpack — not about two function names.  They are found where they are used: the target name handed to the
# build_binary call outside any iteration, and the collection the iterated build_binary call ranges over, each as
# <projection of the success payload of g(<metadata>)>.  g may be one function per value (the baseline) or one function
# returning both in a struct / tuple; R10 then decides on g (and the projection) what the value is.
class Roles:
    def __init__(self, main, names, found):
        self.main = main        # (function path, (field, ..)) providing the buildpack's own target name
        self.names = names      # ... the binary target names
        self.found = found      # were they read off build_buildpack_binaries (else: the baseline functions by name)

    def keep(self):
        return tuple(r[0] for r in (self.main, self.names) if r is not None)


def provider_form(prog, v):
    """v = <conversions / success payload / field projections> of a call to a workspace function ->
    ((function path, projection), argument values), else (None, ())"""
    proj = []
    for _ in range(16):
        v = peel_coll(peel_path(v))
        if v[0] == 'field':
            proj.insert(0, v[2])
            v = v[1]
            continue
        if v[0] == 'call' and v[1] in prog.fns and prog.fns[v[1]].kind != 'Closure':
            return (v[1], tuple(proj)), tuple(v[2])
        break
    return None, ()


_ROLES = {}


def find_roles(prog, sl):
    key = id(prog)
    if key in _ROLES and _ROLES[key][0] is prog:
        return _ROLES[key][1]
    from .lib.effects import Effects
    main = names = None
    bb = prog.fns.get(BBB)
    if bb is not None:
        try:
            E4 = Effects(prog, sl, vocab={BUILD: ('BUILD', 5)})
            builds = [(e, selection(E4, e)) for e in expand(E4, bb, 'may') if e.kind == 'BUILD']
            outside = [e for e, s_ in builds if not s_.iterations]
            inside = [s_ for e, s_ in builds if s_.iterations]
            if len(outside) == 1 and outside[0].path is not None:
                main = provider_form(prog, outside[0].path)[0]
            if len(inside) == 1 and len(inside[0].iterations) == 1 and inside[0].iterations[0].base is not None:
                names = provider_form(prog, inside[0].iterations[0].base)[0]
        except (IndexError, KeyError, TypeError, AttributeError, ValueError):
            main = names = None
    found = main is not None and names is not None
    if main is None and DETERMINE in prog.fns:
        main = (DETERMINE, ())
    if names is None and NAMES in prog.fns:
        names = (NAMES, ())
    r = Roles(main, names, found)
    _ROLES.clear()
    _ROLES[key] = (prog, r)
    return r


def role_of(prog, v, md_pred=None):
    """the (function, projection) a value is provided by, when its first argument satisfies md_pred"""
    r, args = provider_form(prog, v)
    if r is None or not args or (md_pred is not None and not md_pred(strip(args[0]))):
        return None
    return r


def role_value(sl, g, proj):
    """success value of g, projected"""
    rv = sl.local(g, 0)
    if g.ret.startswith(('std::result::Result<', 'std::option::Option<')):
        rv = sl.mk_unwrap(rv, 1)
    for p_ in proj:
        rv = sl._field(strip(rv), p_)
    return rv


def _field_operand(fn, operand, want):
    """operand holds an aggregate (struct / tuple / Ok / Some) built by one statement of fn: the operand of its field"""
    pl = op_place(operand)
    for _ in range(8):
        if pl is None or [x for x in pl[1:] if x != '*']:
            return None
        defs = fn.whole_defs(pl[0])
        if len(defs) != 1 or defs[0][0] != 'stmt':
            return None
        rv = defs[0][3]
        if rv['r'] == 'agg':
            if rv.get('kind') == 'adt' and want in rv.get('fields', []):
                return rv['ops'][list(rv['fields']).index(want)]
            if rv.get('kind') == 'tuple' and want.isdigit() and int(want) < len(rv['ops']):
                return rv['ops'][int(want)]
            return None
        if rv['r'] == 'use':
            pl = op_place(rv['o'])
            continue
        return None
    return None


def projected_defs(E, g, proj):
    """every way the (projected) success value of g comes into being: [(value, [Cond..], block)] with the branch
    decisions under which that definition is made; None when the construction cannot be read"""
    sl = E.slicer
    out = []
    if not proj:
        for st in E.sites(g):
            for v, ch in E.returned(g, st):
                out.append((strip(sl.mk_unwrap(v, 1)), conditions(g, st.bb, sl), st.bb))
        return out
    wrapped = g.ret.startswith(('std::result::Result<', 'std::option::Option<'))
    for st in E.sites(g):
        if st.kind != 'ok':
            return None
        rv = st.stmt
        if wrapped:
            if not (rv['r'] == 'agg' and rv.get('variant') in ('Ok', 'Some') and len(rv['ops']) == 1):
                return None
            op = rv['ops'][0]
            for p_ in proj:
                op = _field_operand(g, op, p_) if op is not None else None
        else:
            op = None
            if rv['r'] == 'agg' and rv.get('kind') == 'adt' and proj[0] in rv.get('fields', []):
                op = rv['ops'][list(rv['fields']).index(proj[0])]
            elif rv['r'] == 'agg' and rv.get('kind') == 'tuple' and proj[0].isdigit() and int(proj[0]) < len(rv['ops']):
                op = rv['ops'][int(proj[0])]
            for p_ in proj[1:]:
                op = _field_operand(g, op, p_) if op is not None else None
        if op is None:
            return None
        here = conditions(g, st.bb, sl)
        loc = phi_local_of(g, op)
        if loc is None:
            out.append((strip(sl.operand(g, op)), here, st.bb))
        else:
            # a `match` / `if` producing the value: one row per arm, with the decisions taken for that arm
            for bi, v, conds in arm_defs(g, loc, sl):
                out.append((strip(v), list(conds) + [c for c in here if all(c.sw_bb != d.sw_bb for d in conds)], bi))
    return out


# ---- R10: which binary targets there are and which one is the buildpack (cargo.rs) ----------------------------
def _int_guards(fn, bb, sl):
    """[(switch operand value, frozenset of taken labels | ('not', listed))] for integer switches whose edge dominates bb
    (also arms listing several values, which guards.conditions leaves out)"""
    out = []
    for sb, blk in enumerate(fn.blocks):
        t = blk['t']
        if t['t'] != 'switch' or t.get('oty') == 'bool':
            continue
        by_target = {}
        for v, tb in t['targets']:
            by_target.setdefault(tb, []).append(v)
        by_target.setdefault(t['else'], []).append('else')
        for tb, labels in by_target.items():
            if not edge_dominates(fn, sb, tb, bb):
                continue
            val = sl.operand(fn, t['o'])
            if val[0] == 'discr':
                continue
            listed = tuple(v for v, _ in t['targets'])
            out.append((val, ('not', listed) if 'else' in labels else frozenset(labels)))
    return out


def _names_value(sl, v, inline=True):
    """the collection of binary target names with Option plumbing removed: `root_package().map(f).unwrap_or_default()`
    -> f(<root package>)"""
    v = strip(v)
    for _ in range(4):
        if v[0] == 'call' and v[1].endswith(('::unwrap_or_default', '::unwrap_or', '::unwrap_or_else')) and v[2]:
            v = strip(sl.mk_unwrap(v[2][0], 1))
        elif v[0] == 'phi':
            # `match root_package() { Some(p) => names(p), None => Vec::new() }`: the empty alternative adds no names
            rest = [x for x in v[1] if not _is_empty_coll(x)]
            if len(rest) != 1:
                break
            v = strip(rest[0])
        else:
            break
    return sl.inline_deep(v, depth=6) if inline else v


def _is_empty_coll(v):
    v = strip(v)
    return (v[0] == 'call' and not v[2] and v[1].endswith(('::new', '::default'))) or (v[0] == 'array' and not v[1])


_COLL_VIEW = ('::as_slice', '::as_mut_slice', '::to_vec', '::as_ref', '::deref', '::clone', '::borrow', '::iter', '::into_iter', '::as_mut', '::deref_mut')


def peel_coll(v):
    for _ in range(12):
        v = strip(v)
        if v[0] == 'call' and len(v[2]) == 1 and v[1].endswith(_COLL_VIEW):
            v = v[2][0]
        else:
            return v
    return v


def _is_root_pkg(v, md_pred):
    v = strip(peel_path(v))
    return v[0] == 'call' and v[1] == 'cargo_metadata::Metadata::root_package' and len(v[2]) == 1 and md_pred(strip(v[2][0]))


class Filled:
    """a fresh collection filled by one push site in one pass over `coll`: per-element decisions `tests` (bool views) /
    `other` (anything else), pushed value `payload`, element of the pass `elem` — all in the terms of the value's context"""
    def __init__(self, verdict, why, coll=None, elem=None, tests=(), other=(), payload=None):
        self.verdict, self.why, self.coll, self.elem, self.tests, self.other, self.payload = verdict, why, coll, elem, list(tests), list(other), payload


def filled_form(E0, v, depth=0):
    """v is (a call of a private workspace function g returning) a fresh empty collection that g fills by `push` in one loop
    / for_each pass and returns: `let mut out = Vec::new(); for x in C { if P(x) { out.push(V(x)) } } out` is
    `C.iter().filter(P).map(V).collect()`.  -> Filled, or None when v is no such value"""
    sl, prog = E0.slicer, E0.prog
    v = strip(v)
    if v[0] != 'call' or depth > 3:
        return None
    m = None
    if _is_empty_coll(v) and len(v) == 4 and v[3] is not None:
        g, vec = prog.fns.get(v[3][0]), v
    else:
        g = prog.fns.get(v[1])
        if g is None or g.kind == 'Closure':
            return None
        rv = sl.local(g, 0)
        if (g.ret or '').startswith(('std::result::Result<', 'std::option::Option<')):
            rv = sl.mk_unwrap(rv, 1)
        vec = strip(rv)
        m = {(g.path, i): a for i, a in enumerate(v[2])}
        if vec[0] == 'call' and not _is_empty_coll(vec):
            # a helper that hands on what another helper filled
            inner = filled_form(E0, vec, depth + 1)
            if inner is None or inner.verdict != 'ok':
                return inner
            sb = lambda x: E0.subst(x, m) if x is not None else None
            return Filled('ok', '', sb(inner.coll), sb(inner.elem), [[(sb(a), oc) for a, oc in t] for t in inner.tests], inner.other, sb(inner.payload))
    if g is None or not (_is_empty_coll(vec) and len(vec) == 4 and vec[3] is not None and vec[3][0] == g.path):
        return None
    ret = sl.local(g, 0)
    if (g.ret or '').startswith(('std::result::Result<', 'std::option::Option<')):
        ret = sl.mk_unwrap(ret, 1)
    if strip(ret) != vec:
        return None         # not what g returns: where it is read relative to the pushes is not known
    vd, why, coll, tests, other, payloads = _filled_by_push(E0, g, vec)
    if vd != 'ok':
        return Filled(vd, why)
    from .lib.effects import Effects
    E = Effects(prog, sl, vocab={PUSH: ('PUSH', 1)})
    pe = [e for e in expand(E, g, 'may') if e.kind == 'PUSH' and e.args and strip(e.args[0]) == vec]
    it = selection(E, pe[0]).iterations[0] if len(pe) == 1 else None
    elem = it.elem if it is not None else None
    sb = (lambda x: E0.subst(x, m) if x is not None else None) if m else (lambda x: x)
    return Filled('ok', '', sb(coll), sb(elem), [[(sb(a), oc) for a, oc in t] for t in tests], other, sb(payloads[0]))


def _names_shape_filled(fl, md_pred):
    """names_shape for a collection filled by push (Filled)"""
    if fl.verdict != 'ok':
        return fl.verdict, fl.why
    base = strip(peel_path(peel_coll(fl.coll)))
    if not (base[0] == 'field' and base[2] == 'targets' and _is_root_pkg(base[1], md_pred)):
        return 'unproven', 'does not range over the root package\'s targets: %s' % vstr(fl.coll)[:200]
    t = fl.elem
    pv = strip(peel_path(fl.payload))
    if t is None or not (pv[0] == 'field' and pv[2] == 'name' and canon(strip(peel_path(pv[1]))) == canon(strip(peel_path(t)))):
        return 'violated', 'the collected value is not the target\'s own name: %s' % vstr(fl.payload)[:160]
    if fl.other:
        return 'unproven', 'a per-target decision that is not a boolean test: %s' % fl.other
    preds = [_peel_not(strip(views[0][0]), views[0][1]) for views in fl.tests]
    good = [p for p in preds if strip(p[0])[0] == 'call' and strip(p[0])[1] == 'cargo_metadata::Target::is_bin' and p[1] is True and
            canon(strip(peel_path(strip(p[0])[2][0]))) == canon(strip(peel_path(t)))]
    if len(preds) != 1 or len(good) != 1:
        return 'violated', 'the only per-target condition must be target.is_bin(): %s' % [vstr(p[0])[:80] for p in preds]
    return 'ok', ''


def names_shape(sl, v, md_pred, raw=None, E=None):
    """is v `names of all targets t of the root package with t.is_bin()`?  -> (verdict, reason)
    (raw: the value before private helpers were inlined — a helper that fills a fresh Vec by push is read with filled_form)"""
    al = iters.alts(sl, v)
    if (len(al) != 1 or al[0][1] is None or _is_empty_coll(v)) and E is not None:
        fl = filled_form(E, raw if raw is not None else v)
        if fl is not None:
            return _names_shape_filled(fl, md_pred)
    if len(al) != 1 or al[0][1] is None:
        return 'unproven', 'not one pass over one collection: %s' % vstr(v)[:200]
    el, coll, fl = al[0]
    base = strip(peel_path(coll))
    if not (base[0] == 'field' and base[2] == 'targets' and _is_root_pkg(base[1], md_pred)):
        return 'unproven', 'does not range over the root package\'s targets: %s' % vstr(coll)[:200]
    if fl == 'trunc':
        return 'violated', 'a truncating adapter (map_while / take_while / take / skip ..) stops at or skips targets by position: binary targets after the first non-binary one are lost'
    t = iters.elem_of(coll)
    preds = []
    payload = None
    for name, clv, rv, stopped in iters.stages(strip(v), with_stop=True):
        if stopped:
            return 'violated', 'a later stage stops pulling early'
        short = name.rsplit('::', 1)[1]
        ra = iters.alts(sl, rv)
        if len(ra) != 1:
            return 'unproven', 'stage %s over several alternatives' % short
        r = sl.apply_closure(clv, (ra[0][0],))
        if r is None:
            return 'unproven', 'closure of stage %s not readable' % short
        if short == 'filter':
            preds.append(_peel_not(strip(r)))
        elif short == 'filter_map':
            r = strip(r)
            if r[0] == 'call' and r[1].endswith('::then_some') and len(r[2]) == 2:
                preds.append(_peel_not(strip(r[2][0])))
                payload = r[2][1]
            elif r[0] == 'call' and r[1].endswith('::then') and len(r[2]) == 2:
                preds.append(_peel_not(strip(r[2][0])))
                payload = sl.apply_closure(r[2][1], ())
            else:
                return 'unproven', 'filter_map closure is not `<test>.then_some(<value>)`: %s' % vstr(r)[:160]
        elif short == 'map':
            payload = r
        elif short == 'inspect':
            continue
        else:
            return 'unproven', 'stage %s' % short
    if payload is None:
        payload = el
    pv = strip(peel_path(payload))
    if not (pv[0] == 'field' and pv[2] == 'name' and canon(strip(peel_path(pv[1]))) == canon(strip(t))):
        return 'violated', 'the collected value is not the target\'s own name: %s' % vstr(payload)[:160]
    good = [p for p in preds if strip(p[0])[0] == 'call' and strip(p[0])[1] == 'cargo_metadata::Target::is_bin' and p[1] is True and
            canon(strip(peel_path(strip(p[0])[2][0]))) == canon(strip(t))]
    if len(preds) != 1 or len(good) != 1:
        return ('violated' if not fl or len(preds) != len(good) else 'unproven'), 'the only per-target condition must be target.is_bin(): %s' % [vstr(p[0])[:80] for p in preds]
    return 'ok', ''


def rules_cargo(ctx, rep):
    prog, sl = ctx.prog, subtype_slicer(ctx.slicer)
    from .lib.effects import Effects
    rep.rule('R10', 'cargo.rs: the binary targets are all `bin` targets of the root package; the buildpack binary is the only one or the one named like the package')
    roles = find_roles(prog, sl)
    nf = prog.fns.get(roles.names[0]) if roles.names else None
    df = prog.fns.get(roles.main[0]) if roles.main else None
    if nf is None or df is None:
        rep.unproven('R10', 'functions', '-', 'no function providing the binary target names / the buildpack\'s cargo target name found '
                     '(cargo_binary_target_names / determine_buildpack_cargo_target_name, or what build_buildpack_binaries uses in their place)')
        return
    rep.analysed(nf)
    rep.analysed(df)
    E = Effects(prog, sl)
    # the cargo metadata the function decides on: its parameter of that type
    p0 = lambda f: (lambda v: v[0] == 'param' and v[1] == f.path and v[2] < len(f.args) and 'cargo_metadata::Metadata' in str(f.args[v[2]]))
    nv = _names_value(sl, role_value(sl, nf, roles.names[1]))
    vd, why = names_shape(sl, nv, p0(nf), _names_value(sl, role_value(sl, nf, roles.names[1]), inline=False), E)
    if vd == 'unproven':
        rep.unproven('R10', 'binary-target-names', _w(nf), 'cannot read the set of binary target names: ' + why)
    else:
        rep.check(vd == 'ok', 'R10', 'binary-target-names', _w(nf), 'binary targets = names of all targets of the root package with is_bin()', why)
    # the buildpack's own target
    root_name = lambda v: (lambda x: x[0] == 'field' and x[2] == 'name' and _is_root_pkg(x[1], p0(df)))(strip(peel_path(v)))

    def is_names(v):
        # the collection of binary target names, whatever R10/binary-target-names says about how it is filtered
        x = peel_coll(sl.inline_deep(peel_coll(v), depth=6))
        while x[0] == 'call' and len(x[2]) == 1 and (iters._is_source(x[1]) or x[1] in iters.SAME):
            x = peel_coll(x[2][0])
        al = iters.alts(sl, x)
        if len(al) != 1 or al[0][1] is None or _is_empty_coll(x):
            # a helper that fills a fresh Vec by push in one pass over the targets
            fl = filled_form(E, peel_coll(v))
            if fl is None or fl.verdict != 'ok':
                return False
            base = strip(peel_path(peel_coll(fl.coll)))
        else:
            base = strip(peel_path(al[0][1]))
        return base[0] == 'field' and base[2] == 'targets' and _is_root_pkg(base[1], p0(df))

    def membership(v, oc):
        v, oc = _peel_not(v, oc)
        v = strip(v)
        if oc is not True or v[0] != 'call' or len(v[2]) != 2:
            return False
        if v[1].endswith('::contains'):
            return is_names(v[2][0]) and root_name(v[2][1])
        if v[1] == IT + 'any' and is_names(v[2][0]):
            ra = iters.alts(sl, v[2][0])
            r = sl.apply_closure(v[2][1], (ra[0][0],)) if len(ra) == 1 else None
            r = strip(r) if r is not None else None
            if r is not None and r[0] == 'call' and r[1].endswith('::eq') and len(r[2]) == 2:
                a, b = r[2]
                return (root_name(a) and same(peel_path(b), ra[0][0])) or (root_name(b) and same(peel_path(a), ra[0][0]))
        return False
    bad, unread = [], []
    pts = projected_defs(E, df, roles.main[1])
    if pts is None:
        rep.unproven('R10', 'main-target', _w(df), 'cannot read how %s of %s comes into being' % ('.'.join(roles.main[1]), df.path))
        return
    for u, conds, at_bb in pts:
        if root_name(u):
            ok = any(membership(x, oc) for cd in conds if cd.kind == 'bool' for x, oc in cd.views())
            if not ok:
                bad.append('the package name is used without checking that a binary target has that name')
            continue
        w0 = u
        if w0[0] == 'call' and w0[1].endswith('::then_some') and len(w0[2]) == 2:
            if membership(w0[2][0], True) and root_name(w0[2][1]):
                continue
            bad.append('the package-named target is not guarded by "is among the binary targets"')
            continue
        # the only binary target: pop / first / last / next / [i] of the names, under len <= 1
        w0 = strip(peel_path(w0))
        single = (w0[0] == 'call' and w0[1].endswith(('::pop', '::first', '::last', '::next', '::remove', '::swap_remove')) and w0[2] and is_names(w0[2][0])) or \
            (w0[0] == 'index' and is_names(w0[1]))
        if single:
            def len_of(x):
                x = strip(x)
                return (x[0] == 'call' and x[1].endswith('::len') and len(x[2]) == 1 and is_names(x[2][0])) or (x[0] == 'un' and x[1] == 'PtrMetadata' and is_names(x[2]))
            lens = [labels for gv, labels in _int_guards(df, at_bb, sl) if len_of(gv)]
            for cd in conds:
                if cd.kind == 'bool':
                    for x, oc in cd.views():
                        x, oc = _peel_not(x, oc)
                        if x[0] == 'bin' and len_of(x[2]):
                            k = const_of(x[3])
                            if (x[1], k, oc) in (('Le', 1, True), ('Lt', 2, True), ('Eq', 1, True), ('Gt', 1, False), ('Ge', 2, False)):
                                lens.append(frozenset({0, 1}))
            if any(isinstance(l, frozenset) and l <= {0, 1} for l in lens):
                continue
            bad.append('one of several binary targets is picked by position instead of by the package name')
            continue
        unread.append(vstr(u)[:200])
    if unread and not bad:
        rep.unproven('R10', 'main-target', _w(df), 'a way to determine the buildpack\'s binary target that is neither "the only binary target" nor "the target named like the package": %s' % '; '.join(unread))
    else:
        rep.check(not bad and bool(pts), 'R10', 'main-target', _w(df), 'buildpack binary = the only binary target, or the binary target named like the root package (else an error)',
                  '; '.join(bad) or 'no success value')


# ---- R11: which packaging function a directory gets (buildpack_kind.rs + dispatch) -----------------------------
KIND = 'libcnb_package::buildpack_kind::determine_buildpack_kind'
PB = 'libcnb_package::package::package_buildpack'
PL = 'libcnb_package::package::package_libcnb_buildpack'
PC = 'libcnb_package::package::package_composite_buildpack'
_STAT = ('std::path::Path::is_file', 'std::path::Path::exists', 'std::path::Path::try_exists')


def all_closures(prog, f):
    out = []
    for c in prog.closures_of(f):
        out.append(c)
        out.extend(all_closures(prog, c))
    return out


def rules_kind(ctx, rep):
    prog, sl = ctx.prog, subtype_slicer(ctx.slicer)
    from .lib.effects import Effects
    rep.rule('R11', 'a directory is packaged as libcnb.rs buildpack iff its descriptor is a component one and it has a Cargo.toml, as composite iff the descriptor is a composite one')
    kf, pb = prog.fns.get(KIND), prog.fns.get(PB)
    if kf is None or pb is None:
        rep.unproven('R11', 'functions', '-', 'determine_buildpack_kind / package_buildpack not found')
        return
    rep.analysed(kf)
    E = Effects(prog, sl)
    p0 = lambda v: strip(peel_path(v))[0] == 'param' and strip(peel_path(v))[1] == kf.path and strip(peel_path(v))[2] == 0
    reads = [e for e in E.expand(kf, 'may') if e.kind == 'READ' and e.path is not None and
             tuple(const_of(x) for x in (path_comps(e.path, p0) or ())) == ('buildpack.toml',)]
    found = {}

    # every place a BuildpackKind comes into being for determine_buildpack_kind — in the function itself, in its closures, or
    # in a private helper it hands the descriptor / the Cargo.toml test to (`Some(classify(&descriptor, has_manifest))`) —
    # with the decisions it is made under at every level, in determine_buildpack_kind's terms
    def conds_at(g, bi, m):
        out = []
        for cd in conditions_ctx(prog, g, bi, sl):
            views = [(E.subst(v, m), oc) for v, oc in cd.views()] if cd.kind == 'bool' else []
            subj = E.subst(cd.subject, m) if cd.subject is not None else None
            out.append((cd, views, subj))
        return out

    def kind_sites(g, m, outer, depth):
        for bi, b in enumerate(g.blocks):
            for st in b['s']:
                if st[0] == '=' and st[2]['r'] == 'agg' and str(st[2].get('adt', '')).endswith('BuildpackKind'):
                    yield st[2].get('variant'), outer + conds_at(g, bi, m)
        if depth < 3:
            for c in g.calls:
                if c.indirect:
                    continue
                for h in prog.callee_fns(c):
                    if h.kind != 'Closure' and h.crate == kf.crate and h is not g and 'BuildpackKind' in (h.ret or ''):
                        yield from kind_sites(h, E.call_mapping(g, c, h, m), outer + conds_at(g, c.bb, m), depth + 1)
    for g in [kf] + all_closures(prog, kf):
        for variant, conds in kind_sites(g, {}, [], 0):
            desc, cargo, extra = None, [], []
            for cd, views, subj in conds:
                if cd.kind == 'variant' and (cd.enum or '').startswith(('std::result::Result', 'std::option::Option')):
                    continue
                if _is_continue(cd):
                    continue        # `?`: the same decision as the Ok / Some arm
                if cd.kind == 'variant' and (cd.enum or '').endswith('BuildpackDescriptor'):
                    desc = set(cd.outcome) if desc is None else (desc & set(cd.outcome))
                    continue
                hit = False
                if cd.kind == 'bool':
                    for v, oc in views:
                        v, oc = _peel_not(v, oc)
                        v = strip(v)
                        if v[0] == 'call' and v[1] in _STAT and v[2] and tuple(const_of(x) for x in (path_comps(v[2][0], p0) or ())) == ('Cargo.toml',):
                            cargo.append(oc)
                            hit = True
                            break
                if not hit:
                    extra.append(vstr(subj if subj is not None else cd.value)[:80])
            found.setdefault(variant, []).append((desc, cargo, extra))
    lib = found.get('LibCnbRs', [])
    ok = bool(lib) and bool(reads) and all(d == {'Component'} and c == [True] and not x for d, c, x in lib)
    rep.check(ok, 'R11', 'kind-libcnb', _w(kf), 'LibCnbRs <=> component descriptor in <dir>/buildpack.toml and <dir>/Cargo.toml exists',
              'a directory is classified as libcnb.rs buildpack under other conditions than "component descriptor and Cargo.toml present": %s' %
              [('descriptor=%s' % (sorted(d) if d else 'any'), 'Cargo.toml=%s' % c, x) for d, c, x in lib])
    comp = found.get('Composite', [])
    ok = bool(comp) and bool(reads) and all(d == {'Composite'} and not c and not x for d, c, x in comp)
    rep.check(ok, 'R11', 'kind-composite', _w(kf), 'Composite <=> composite descriptor in <dir>/buildpack.toml (whatever else the directory holds)',
              'a composite descriptor does not always make the directory a composite buildpack: %s' %
              [('descriptor=%s' % (sorted(d) if d else 'any'), 'Cargo.toml=%s' % c, x) for d, c, x in comp])
    Ek = Effects(prog, sl, vocab={PL: ('LIBCNB', 0), PC: ('COMPOSITE', 0)})
    want = {'LIBCNB': {'LibCnbRs'}, 'COMPOSITE': {'Composite'}}
    seen = {}
    pp0 = lambda v: strip(peel_path(v))[0] == 'param' and strip(peel_path(v))[1] == pb.path and strip(peel_path(v))[2] == 0
    for e in expand(Ek, pb, 'may'):
        if e.kind not in want:
            continue
        kinds = None
        for cd, views, subj in guards_of(Ek, e):
            if cd.kind == 'variant' and (cd.enum or '').endswith('BuildpackKind') and subj is not None and \
                    any(x[0] == 'call' and x[1] == KIND and x[2] and pp0(x[2][0]) for x in walk(subj)):
                kinds = set(cd.outcome) if kinds is None else (kinds & set(cd.outcome))
        seen.setdefault(e.kind, []).append(kinds == want[e.kind] and pp0(e.path))
    ok = all(seen.get(k) and all(seen[k]) for k in want)
    rep.check(ok, 'R11', 'kind-dispatch', _w(pb), 'package_buildpack: LibCnbRs -> package_libcnb_buildpack, Composite -> package_composite_buildpack, both on the directory that was classified',
              'package_buildpack does not dispatch on determine_buildpack_kind(<its directory>) as LibCnbRs -> libcnb packaging, Composite -> composite packaging: %s' % seen)


# ---- R12: which directories are buildpacks at all (find_buildpack_dirs, workspace root) ------------------------
FBD = 'libcnb_package::find_buildpack_dirs'
_WB = 'ignore::WalkBuilder::'
_WB_FILTER_OFF = ('ignore', 'git_ignore', 'git_exclude', 'git_global', 'parents', 'standard_filters')
_WB_HARMLESS = ('hidden', 'follow_links', 'threads', 'sort_by_file_name', 'sort_by_file_path', 'require_git', 'same_file_system')


def walker_verdict(v, root_pred):
    """v: the iterated walker -> (verdict, reason)"""
    v = strip(v)
    if v[0] == 'call' and v[1] == 'ignore::Walk::new' and len(v[2]) == 1:
        return ('ok', '') if root_pred(v[2][0]) else ('violated', 'the walk does not start at the given directory')
    if v[0] == 'call' and v[1] == _WB + 'build' and v[2]:
        v = strip(v[2][0])
        while v[0] == 'call' and v[1].startswith(_WB) and v[2]:
            short = v[1][len(_WB):]
            if short == 'new':
                return ('ok', '') if root_pred(v[2][0]) else ('violated', 'the walk does not start at the given directory')
            a = strip(v[2][1]) if len(v[2]) > 1 else None
            if short in _WB_FILTER_OFF:
                if a is None or a[0] != 'const' or a[1] is not True:
                    return 'violated', 'WalkBuilder::%s(%s): ignore files are not honoured, so buildpack directories in an ignored output directory are picked up as buildpacks' % (short, vstr(a) if a else '')
            elif short == 'max_depth':
                if not (a is not None and a[0] == 'agg' and a[2] == 'None'):
                    return 'violated', 'WalkBuilder::max_depth: buildpacks below that depth are not found'
            elif short not in _WB_HARMLESS:
                return 'unproven', 'WalkBuilder::%s' % short
            v = strip(v[2][0])
    return 'unproven', 'not an ignore::Walk over the given directory: %s' % vstr(v)[:120]


def truth_paths(sl, g):
    """for a closure / function returning bool: the conjunction [(value, outcome)..] that holds whenever it returns true
    (`a && b`, `if a { b } else { false }`, `matches!` ..); None when true can be returned in more than one way"""
    alts_ = []
    for d in g.whole_defs(0):
        if d[0] == 'stmt':
            v = sl._rvalue(g, d[3], set(), 0, None)
        elif d[0] == 'call':
            v = sl._call_value(g, d[3], set(), 0)
        else:
            return None
        v, oc = _peel_not(strip(v), True)
        if v[0] == 'const':
            if bool(v[1]) != oc:
                continue        # this path returns false
            own = []
        else:
            own = [(v, oc)]
        cs = []
        for cd in conditions(g, d[1], sl):
            if cd.kind == 'bool':
                cs.append(cd.views()[0])
            else:
                cs.append((cd.subject if cd.subject is not None else cd.value, cd.outcome))
        alts_.append(cs + own)
    if len(alts_) != 1:
        return None
    return alts_[0]


_ENTRY_PATH = ('DirEntry::path', 'DirEntry::into_path')      # both denote the path of the walked entry
PUSH = 'std::vec::Vec::<T, A>::push'


def _entry_test_parts(t, oc, is_entry_path):
    """one per-entry test (value, outcome) -> (every conjunct is `<entry path>.is_dir()` or `<entry path>/buildpack.toml
    exists`?, the descriptor test is among them?)"""
    t, oc = _peel_not(strip(t), oc)
    t = strip(t)
    if t[0] == 'bin' and t[1] in ('BitAnd', 'And'):
        parts = [(t[2], oc), (t[3], oc)]
    else:
        parts = [(t, oc)]
    desc = False
    for x, o in parts:
        x = strip(x)
        if x[0] == 'call' and x[1] in _STAT and o is True and x[2] and \
                tuple(const_of(c) for c in (path_comps(x[2][0], is_entry_path) or ())) == ('buildpack.toml',):
            desc = True
        elif x[0] == 'call' and x[1] == 'std::path::Path::is_dir' and o is True and x[2] and is_entry_path(x[2][0]):
            pass
        else:
            return False, False
    return True, desc


def _kept_values(sl, v, depth=0):
    """the values an element production can yield: `Some(x)` / `None` arms, `test.then_some(x)`, `test.then(|| x)` -> [x..]"""
    v = strip(v)
    if depth > 8:
        return [v]
    if v[0] == 'phi':
        return [y for x in v[1] for y in _kept_values(sl, x, depth + 1)]
    if v[0] == 'agg' and v[2] in ('Some', 'Ok') and len(v[3]) == 1:
        return _kept_values(sl, v[3][0][1], depth + 1)
    if v[0] == 'agg' and v[2] in ('None', 'Err'):
        return []       # nothing is kept (`Some(Err(e))` in a pipeline collected into a Result makes the whole walk fail)
    if v[0] == 'call' and v[1].endswith('::then_some') and len(v[2]) == 2:
        return _kept_values(sl, v[2][1], depth + 1)
    if v[0] == 'call' and v[1].endswith('::then') and len(v[2]) == 2 and strip(v[2][1])[0] == 'closure':
        r = sl.apply_closure(strip(v[2][1]), ())
        return _kept_values(sl, r, depth + 1) if r is not None else [v]
    return [v]


def _collected_pipeline(E, v):
    """(a) v is an iterator pipeline: -> (verdict, why, walked collection, tests [[(value, outcome) views]], other, payloads)"""
    sl, prog = E.slicer, E.prog
    al = iters.alts(sl, v)
    if len(al) != 1 or al[0][1] is None:
        return 'unproven', 'the result is not one pass over one walk: %s' % vstr(v)[:200], None, [], [], []
    el, coll, fl = al[0]
    if fl == 'trunc' or any(st[3] for st in iters.stages(strip(v), with_stop=True)):
        # (reported after the walker itself was looked at: see rules_discovery)
        vd = walker_verdict(coll, lambda r: True)
        if vd[0] == 'ok':
            return 'violated', 'a truncating adapter (map_while / take_while / take / skip ..) ends the walk at the first entry that is not a buildpack directory', coll, [], [], []
    tests, other = [], []
    for name, clv, rv, stopped in iters.stages(strip(v), with_stop=True):
        g = prog.fns.get(clv[1]) if clv[0] == 'closure' else None
        short = name.rsplit('::', 1)[1]
        if short in ('map', 'inspect'):
            continue
        if g is None or short not in ('filter', 'filter_map'):
            other.append(short)
            continue
        ra = iters.alts(sl, rv)
        m = {(g.path, 1): ra[0][0]} if len(ra) == 1 else {}
        if short == 'filter_map':
            pts = [(g, bi) for bi, b in enumerate(g.blocks) for st in b['s'] if st[0] == '=' and st[2]['r'] == 'agg' and st[2].get('variant') == 'Some']
            if not pts:
                r = sl.apply_closure(clv, (ra[0][0],)) if len(ra) == 1 else None
                r = strip(r) if r is not None else None
                if r is not None and r[0] == 'call' and r[1].endswith(('::then_some', '::then')) and len(r[2]) == 2:
                    tests.append([(r[2][0], True)])
                else:
                    other.append('filter_map closure')
                continue
            for g_, bi in pts:
                for cd in conditions(g_, bi, sl):
                    if cd.kind == 'bool':
                        tests.append([(E.subst(x, m), oc) for x, oc in cd.views()])
                    elif not (cd.enum or '').startswith(('std::option::Option', 'std::result::Result')):
                        other.append('match on %s' % cd.enum)
            if len(g.args) > 1 and 'std::result::Result<' in str(g.args[1]):
                # the closure sees the walk's own `Result` elements (no `collect::<Result<..>>()?` before it): an entry the
                # walk could not read must still fail the discovery — every path of the `Err` arm yields `Some(Err(..))`
                handed_on = False
                for g_, bi in pts:
                    for cd in conditions(g_, bi, sl):
                        sj = cd.subject
                        if cd.kind == 'variant' and cd.outcome == frozenset({'Err'}) and (cd.enum or '').startswith('std::result::Result') and sj is not None and \
                                any(isinstance(x, tuple) and x and x[0] == 'param' and x[1] == g.path and x[2] == 1 for x in walk(sj)):
                            vals = [sl._rvalue(g_, st[2], set(), 0, None) for st in g_.blocks[bi]['s'] if st[0] == '=' and st[2]['r'] == 'agg' and st[2].get('variant') == 'Some']
                            is_err = any(x[0] == 'agg' and x[2] == 'Some' and len(x[3]) == 1 and strip(x[3][0][1])[0] == 'agg' and strip(x[3][0][1])[2] == 'Err' for x in map(strip, vals))
                            if is_err and always_through(g_, cd.target, bi, list(g_.return_blocks())):
                                handed_on = True
                if not handed_on:
                    return 'violated', 'an entry the walk could not read (`Err`) is dropped instead of failing the discovery', coll, [], [], []
        else:
            tp = truth_paths(sl, g)
            if tp is None or len(ra) != 1:
                other.append('filter closure')
            else:
                tests.extend([(E.subst(x, m), oc)] for x, oc in tp)
    return 'ok', '', coll, tests, other, [el]


def _filled_by_push(E0, fn, vec):
    """(b) vec (a fresh empty collection created in fn and returned by it) gets its elements by `push`: every push as an
    effect of fn (in fn itself, in a closure handed to for_each, in a private helper), the one iteration it runs in, the
    per-element decisions it runs under.  Nothing else may touch the collection, every selected element must reach the
    push, and fn must not succeed before the pass is over."""
    from .lib.effects import Effects
    sl, prog = E0.slicer, E0.prog
    none = (None, [], [], [])
    E = Effects(prog, sl, vocab={PUSH: ('PUSH', 1)})
    is_vec = lambda x: strip(x) == vec
    pushes = [e for e in expand(E, fn, 'may') if e.kind == 'PUSH' and e.args and is_vec(e.args[0])]
    if len(pushes) != 1:
        return ('unproven', 'not an ignore::Walk over the given directory: %s (%d push sites)' % (vstr(vec)[:120], len(pushes))) + none
    e = pushes[0]
    touched = [c for g in [fn] + all_closures(prog, fn) for c in g.calls if c is not e.call and not c.indirect and
               any(is_vec(sl.operand(g, a)) for a in c.args)]
    if touched:
        return ('unproven', 'the returned collection is also handed to %s' % touched[0].name) + none
    sel = selection(E, e)
    if len(sel.iterations) != 1 or sel.iterations[0].recv is None or sel.iterations[0].opaque:
        return ('unproven', 'the result is not filled in one pass over one walk') + none
    it = sel.iterations[0]
    al = iters.alts(sl, it.recv)
    if len(al) != 1 or al[0][1] is None:
        return ('unproven', 'the result is not filled in one pass over one walk: %s' % vstr(it.recv)[:200]) + none
    coll = al[0][1]
    if al[0][2] == 'trunc' or any(st[3] for st in iters.stages(strip(it.recv), with_stop=True)):
        if walker_verdict(coll, lambda r: True)[0] == 'ok':
            return 'violated', 'a truncating adapter (map_while / take_while / take / skip ..) ends the walk at the first entry that is not a buildpack directory', coll, [], [], []
    tests = [[p] for p in it.preds]
    other = []
    skip = {}
    for lv, cd, views in sel.guards:
        if cd.kind == 'bool':
            tests.append(list(views))
            skip.setdefault(cd.fn.path, []).extend((cd.sw_bb, s) for s in cd.fn.succs(cd.sw_bb) if s != cd.target)
        elif not (cd.enum or '').startswith(('std::option::Option', 'std::result::Result')):
            other.append('match on %s' % cd.enum)
    vd, why = _all_paths_reach(E, e, it, skip, exhausted=True)
    if vd == 'violated':
        return 'violated', 'an entry that passes the tests is not always kept: %s' % why, coll, [], [], []
    if vd != 'ok':
        return ('unproven', why) + none
    return 'ok', '', coll, tests, other, [e.path]


def rules_discovery(ctx, rep):
    prog, sl = ctx.prog, subtype_slicer(ctx.slicer)
    from .lib.effects import Effects
    rep.rule('R12', 'discovery: every directory with a buildpack.toml below the workspace root that is not ignored is a candidate; the workspace root is cargo\'s')
    fb, wr = prog.fns.get(FBD), prog.fns.get(WR)
    if fb is None or wr is None:
        rep.unproven('R12', 'functions', '-', 'find_buildpack_dirs / find_cargo_workspace_root_dir not found')
        return
    rep.analysed(fb)
    rep.analysed(wr)
    E = Effects(prog, sl)
    p0 = lambda f: (lambda v: strip(peel_path(v))[0] == 'param' and strip(peel_path(v))[1] == f.path and strip(peel_path(v))[2] == 0)
    v = sl.inline_deep(sl.mk_unwrap(sl.local(fb, 0), 1), depth=6)
    # how the returned collection gets its elements — the same statement for both spellings:
    #   (a) an iterator pipeline over the walk that is collected (stages = filter / filter_map / map closures), or
    #   (b) a fresh empty Vec that is pushed to inside one pass over the walk (a loop, or a for_each closure) and handed
    #       back after the pass ran to exhaustion
    # -> the walk that is iterated, whether elements are dropped by position, the per-entry tests, the value kept per entry
    v0 = strip(v)
    if v0[0] == 'call' and len(v0) == 4 and v0[3] is not None and (_is_empty_coll(v0) or v0[1].endswith('::with_capacity')):
        verdict, why, coll, tests, other, payloads = _filled_by_push(E, fb, strip(v))
    else:
        verdict, why, coll, tests, other, payloads = _collected_pipeline(E, v)
    if verdict == 'ok':
        verdict, why = walker_verdict(coll, p0(fb))
    if verdict == 'ok':
        # the decision per entry: <entry>/buildpack.toml exists (and the entry is a directory), nothing else
        entry = iters.elem_of(coll)
        is_entry_path = lambda r: (lambda x: x[0] == 'call' and x[1].endswith(_ENTRY_PATH) and x[2] and canon(strip(peel_path(x[2][0]))) == canon(strip(entry)))(strip(peel_path(r)))
        has_desc = False
        for views in tests:
            # one test, possibly seen through a private boolean helper: it is understood if one of its views is
            got = None
            for t, oc in views:
                parts_ok, desc = _entry_test_parts(t, oc, is_entry_path)
                if parts_ok:
                    got = desc
                    break
            if got is None:
                # a private boolean helper whose `a && b` is control flow (`fn is_buildpack_dir(p) -> bool`): the conjunction
                # that holds whenever it returns true, in the caller's terms
                t0, oc0 = _peel_not(strip(views[0][0]), views[0][1])
                t0 = strip(t0)
                hg = prog.fns.get(t0[1]) if (t0[0] == 'call' and oc0 is True) else None
                tp = truth_paths(sl, hg) if (hg is not None and hg.kind != 'Closure' and hg.ret == 'bool') else None
                if tp:
                    m = {(hg.path, i): a for i, a in enumerate(t0[2])}
                    res = [_entry_test_parts(E.subst(x, m), o, is_entry_path) for x, o in tp]
                    if all(r[0] for r in res):
                        got = any(r[1] for r in res)
            if got is None:
                other.append(vstr(views[0][0])[:100])
            else:
                has_desc = has_desc or got
        # what is kept per entry: the entry's own path (every alternative of the value: `Some(p)` arms, `test.then_some(p)`)
        kept = [x for pv in payloads for x in _kept_values(sl, pv)]
        pay_ok = bool(kept) and all(is_entry_path(x) for x in kept)
        if other:
            verdict, why = 'unproven', 'entries are selected by more than "<entry>/buildpack.toml exists": %s' % other[:3]
        elif not has_desc or not pay_ok:
            verdict, why = 'violated', 'the entries returned are not the directories holding a buildpack.toml'
    if verdict == 'unproven':
        rep.unproven('R12', 'walk', _w(fb), why)
    else:
        rep.check(verdict == 'ok', 'R12', 'walk', _w(fb), 'all directories with a buildpack.toml found by an ignore-file honouring walk below the start directory', why)
    # the workspace root: `cargo locate-project --workspace` run in the given directory
    sp = [e for e in E.expand(wr, 'may') if e.kind == 'SPAWN']
    ok = bool(sp)
    why = 'no command'
    for e in sp:
        cp = command_parts(sl.inline_deep(e.path, depth=4))
        consts = [const_of(a) for a in cp['args']]
        this = 'locate-project' in consts and '--workspace' in consts and cp['cwd'] is not None and p0(wr)(cp['cwd']) and not cp['opaque']
        if not this:
            why = 'argv=%s cwd=%s' % (consts, vstr(cp['cwd'] or ('unknown', 'none'))[:60])
        ok = ok and this
    rep.check(ok, 'R12', 'workspace-root', _w(wr), '`cargo locate-project --workspace` in the given directory',
              'the workspace root is not determined by `cargo locate-project --workspace` run in the invocation directory (%s): from a buildpack\'s own directory the buildpack\'s '
              'crate is taken for the workspace, and dependencies elsewhere in the workspace are not found' % why)
